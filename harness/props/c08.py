"""C08 - query strings parse to one well-defined mapping; typed getters never misreport."""
PROP = 'C08'
LEAN_MODULES = ['FalconModel.QueryProofs', 'FalconModel.QueryRef', 'FalconModel.UriEncodeProofs', 'FalconModel.GettersProofs', 'FalconModel.ToQueryStrProofs', 'FalconModel.TypedQuery', 'FalconModel.TypedQueryProofs']
DRIVERS = ['qsdriver', 'tqdriver']
THEOREMS = [
    # the parser model equals the reference reading for EVERY query string and option setting (FalconModel/QueryRef.lean)
    'Qs.parseQS_eq_ref', 'Qs.parseQS_keys_nodup', 'Qs.csv_off_never_splits', 'Qs.addField_true_eq', 'Qs.addEntry_refOf',
    'Qs.foldl_addField_true', 'Qs.foldl_flag_irrelevant',
    # parse_query_string model (FalconModel/Query.lean) - structural facts proved for it
    'Qs.addField_blank', 'Qs.splitOn_no_sep', 'Qs.partitionEq_first', 'Qs.parseQS_single_field', 'Qs.parseQS_blank_field',
    'Qs.parseQS_encoded_pair',
    # the decoder it is built on (C10)
    'Probe.decodeImpl_eq_ref', 'Probe.decode_encode',
    # to_query_str renders with encode_value; its round trip through decode, and the output alphabet (no & = , +)
    'Uri.decode_encode_value', 'Uri.encodeValue_grammar', 'Uri.encodeWith_charset',
    # the typed getters get_param / _as_int / _as_bool / _as_list (FalconModel/Getters.lean, GettersProofs.lean), for ALL mappings and arguments
    'Gt.getParam_eq_spec', 'Gt.getInt_eq_spec', 'Gt.getBool_eq_spec', 'Gt.getList_eq_getListT',
    'Gt.getter_last_occurrence', 'Gt.getInt_bounds_exact', 'Gt.getInt_value_iff', 'Gt.getInt_not_int', 'Gt.inBounds_iff',
    'Gt.getter_required_default_store', 'Gt.doStore_effect', 'Gt.storeGet_set_same', 'Gt.storeGet_set_other', 'Gt.storeSet_others', 'Gt.storeSet_keys',
    'Gt.getter_only_documented_outcomes', 'Gt.f06_witness', 'Gt.getBool_table_exact', 'Gt.getBool_found', 'Gt.tables_disjoint',
    'Gt.mapT_eq_some', 'Gt.mapT_eq_none',
    'Gt.pyInt_ascii', 'Gt.pyInt_ascii_neg', 'Gt.getInt_decimal', 'Gt.stripWs_noop',
    # ... composed with parseQS_eq_ref: statements about the raw query string
    'Gt.lastValue_parseQS', 'Gt.lookup_parseQS_isSome', 'Gt.getParam_of_query', 'Gt.getInt_of_query', 'Gt.getBool_of_query', 'Gt.getListT_of_query', 'Gt.getList_of_query',
    # to_query_str (FalconModel/Getters.lean: toQueryStr) and the general round trip (ToQueryStrProofs.lean)
    'Gt.toQueryStr_eq', 'Gt.toQueryStr_prefix', 'Gt.splitOn_joinAmp', 'Gt.splitOn_joinComma', 'Gt.fieldEntry_pair', 'Gt.fieldEntry_csv', 'Gt.refOf_entries',
    'Gt.parse_toQueryStr',
    'Gt.wf_witness_both_empty', 'Gt.wf_witness_blank_dropped', 'Gt.wf_witness_short_list', 'Gt.wf_witness_empty_list', 'Gt.wf_witness_cdl_without_csv', 'Gt.wf_witness_same_name',
    # to_query_str on TYPED values (FalconModel/TypedQuery.lean: the conversion True/False -> true/false, str(int), lists by style) and the typed round trip (TypedQueryProofs.lean)
    'Tq.ofDigits_decDigits', 'Tq.pyInt_strInt', 'Tq.strInt_isSome', 'Tq.encodeValue_literals', 'Tq.toQueryStr_normMap', 'Tq.parse_typed', 'Tq.lookup_typed',
    'Tq.typed_round_trip', 'Tq.typed_round_trip_list', 'Tq.typed_round_trip_int_list', 'Tq.twf_witness_empty_list',
]
STATEMENTS = {
    'Qs.parseQS_eq_ref': 'for every byte string and both option flags the parser model (whole-string is_encoded flag, accumulate-by-lookup loop) equals parseRef: fields split on "&", each split at the first "=", blank rule, names/values decoded, CSV split on literal commas only when enabled, names in order of first occurrence, a name is scalar iff it occurs once and not as a CSV list, otherwise all its values in order',
    'Qs.foldl_flag_irrelevant': 'the whole-string "anything encoded?" fast-path flag never changes the result',
    'Qs.parseQS_single_field': 'a query string that is one field k=v (k without "&" and "=", v non-empty without "&", and either CSV parsing off or no literal comma in v) parses to exactly the one scalar pair (decode k, decode v): the split is at the FIRST "=", an encoded comma (%2C) never splits',
    'Qs.parseQS_blank_field': 'a single field with an empty value (k or k=) yields no parameter when blank values are dropped or the name is empty',
    'Qs.parseQS_encoded_pair': 'to_query_str round trip for one pair: for all byte strings k and v (v non-empty) and both option settings, parsing encode_value(k) "=" encode_value(v) gives exactly [(utf8(k), utf8(v))]',
    'Qs.addField_blank': 'a field whose value is empty is ignored unless keep_blank is on and its name is non-empty',
    'Qs.partitionEq_first': 'partition("=") splits at the first "="',
    'Probe.decodeImpl_eq_ref': 'all three code paths of uri.decode compute the left-to-right reference decoder',
    'Uri.decode_encode_value': 'decode(encode_value(s)) = s',
    'Gt.getParam_eq_spec': 'get_param as transcribed (name in params, params[name] != [], list -> [-1], store, required/default) equals the specification "take the LAST value the mapping holds for the name; none -> default / HTTPMissingParam; else return it and set store[name]" - for every mapping and all arguments; the IndexError exit of param[-1] is unreachable',
    'Gt.getInt_eq_spec': 'get_param_as_int (int() of the last value inside try/except ValueError, then min check, then max check, in the order of the code) equals the specification with the conversion "int(s) and min <= v <= max"',
    'Gt.getBool_eq_spec': 'get_param_as_bool equals the specification with the documented table conversion',
    'Gt.getter_last_occurrence': 'whatever the mapping: if the values held for the name are pre ++ [s], get_param returns s and get_param_as_int / _as_bool behave exactly as on the one-entry mapping {name: s} - the last occurrence alone decides',
    'Gt.getInt_bounds_exact': 'when the last value reads as the integer v: the result is v (stored under the name) if min_value <= v <= max_value, each bound counting iff it is not None (0 is a bound), and HTTPInvalidParam with the store untouched otherwise',
    'Gt.getInt_value_iff': 'get_param_as_int returns w  iff  w is the integer read from the last value and every given bound holds (m <= v for min_value = m, v <= m for max_value = m)',
    'Gt.pyInt_ascii': 'the int() model reads every non-empty string of at most 4300 ASCII digits as the number the digits denote (pyInt_ascii_neg: with a leading minus, its negation)',
    'Gt.getInt_decimal': 'hence for every natural number v written in decimal as the last value of the name, get_param_as_int returns v iff min <= v <= max',
    'Gt.getInt_not_int': 'a last value int() rejects gives HTTPInvalidParam whatever the bounds',
    'Gt.getter_required_default_store': 'for get_param, _as_int, _as_bool (found = the name has at least one value) and _as_list with or without transform (found = the name is in the mapping): missing+required -> HTTPMissingParam, missing+not required -> the default, both with the store untouched; found -> either HTTPInvalidParam with the store untouched or a value v with exactly the effect store[name] = v (StoreEffect: store None stays None; otherwise get(name) = v, every other key keeps its value, the other entries keep their order, the key list is unchanged or has name appended)',
    'Gt.getter_only_documented_outcomes': 'no getter call, on any mapping with any arguments, escapes with IndexError: it returns a value, the default, or raises one of the two 400 errors, and the store is either untouched or received exactly the returned value; a name whose value is the EMPTY list (the F06 mapping of "?a=,") is missing for the scalar getters (default / HTTPMissingParam) and [] for get_param_as_list',
    'Gt.f06_witness': 'regression witness: without the guard params[name] != [] (code before fix 208c75d) get_param on {"a": []} escapes with IndexError',
    'Gt.getBool_table_exact': 'the boolean conversion gives True exactly for true/True/t/yes/y/1/on (and the empty string iff blank_as_true), False exactly for false/False/f/no/n/0/off (and the empty string iff not blank_as_true), and rejects everything else',
    'Gt.lastValue_parseQS': 'on the mapping parsed from ANY query string the value the scalar getters use is the last of all values the query string gives for the name (fields in order, CSV elements in order)',
    'Gt.getInt_of_query': 'end to end from the raw bytes: get_param_as_int on parse_query_string(qs) = int() of the last value the reference reading of qs gives for the name, bounds exact, no value -> default / HTTPMissingParam',
    'Gt.getParam_of_query': 'end to end: get_param on parse_query_string(qs) returns the last value the reference reading gives for the name',
    'Gt.getBool_of_query': 'end to end: get_param_as_bool on parse_query_string(qs) = table conversion of the last value',
    'Gt.getListT_of_query': 'end to end: get_param_as_list on parse_query_string(qs): if some field carries the name, ALL its values in query-string order, transformed element-wise (one ValueError rejects the parameter)',
    'Gt.parse_toQueryStr': 'for every mapping m of names to strings / lists of strings with WFmap (names distinct; no pair with name and value both empty and no empty value when blanks are dropped; lists have >= 2 elements; comma_delimited_lists only with auto_parse_qs_csv): parse_query_string(to_query_str(m, cdl, prefix=False), kb, csv) = m, same order, scalars as scalars, lists as lists',
    'Gt.toQueryStr_prefix': 'prefix=True only puts "?" in front',
    'Tq.pyInt_strInt': 'int(str(n)) == n for every int n whose str() does not raise (at most 4300 digits): the int() model reads the decimal numeral of the conversion model (minus sign, zero, big numbers) back as n',
    'Tq.strInt_isSome': 'str(n) raises ValueError exactly when n has more than 4300 decimal digits',
    'Tq.toQueryStr_normMap': 'to_query_str renders a list of one item exactly like the item, for both list styles and prefixes',
    'Tq.typed_round_trip': 'for every mapping of names to str / int / True / False / None / lists of those with TWF (no str() raises; on the converted texts: names distinct, no empty text beside an empty name and none when blanks are dropped, no empty list, comma_delimited_lists only with auto_parse_qs_csv): to_query_str(m, cdl, prefix=False) returns qs and on parse_query_string(qs, kb, csv) every int n comes back from get_param_as_int as n (stored; 400 iff outside min/max), True/False from get_param_as_bool as that boolean for either blank_as_true, a str from get_param as itself, None as "None"',
    'Tq.typed_round_trip_list': 'same hypotheses: every list of the mapping - one-item lists included - comes back from get_param_as_list as the texts of its items in order, the text being str(x) under comma_delimited_lists (True -> "True") and true/false/str(x) under repetition',
    'Tq.typed_round_trip_int_list': 'same hypotheses: a list of ints comes back from get_param_as_list(name, transform=int) as those ints, for both list styles',
    'Tq.twf_witness_empty_list': 'the empty list is rightly excluded: {"a": []} renders to "" (repetition) or "a=" (comma-delimited), so get_param_as_list cannot return []',
    'Gt.wf_witness_both_empty': 'each side condition of the round trip is needed: six concrete mappings violating exactly one of them do not come back (wf_witness_*)',
}
TRUSTED = [
    'float(), uuid.UUID, datetime.strptime, json.loads as the reference conversions of the typed getters that are not modelled (the same CPython functions on the reference side); int() is modelled (Gt.pyInt) and compared with the real int() on every code point',
    'urllib.parse.unquote_to_bytes and str.split/partition inside the independent reference parser',
    'falcon.testing.create_environ / create_scope / create_scope_ws as producers of WSGI environ / ASGI http and websocket scopes (QUERY_STRING passed through; scope query_string = UTF-8 bytes); the apps are called directly with them (hand-written receive / send)',
]
ASSUMPTIONS = [
    'query strings are str of Unicode scalar values; on ASGI the scope query_string is the UTF-8 encoding (a raw non-UTF-8 byte in an ASGI scope makes falcon.asgi.Request raise UnicodeDecodeError - outside the quantifier, reported separately)',
    'float bounds follow Python comparison semantics (NaN passes every bound)',
    'transform callables given to get_param_as_list raise only ValueError',
    'to_query_str round trip: string values, lists with >= 2 elements, no (name, value) pair with both empty; comma_delimited_lists paired with auto_parse_qs_csv; keep_blank on, or no empty value',
    'to_query_str with non-string values (documented: "a str or something that can be converted into a str, or a list of such values"): the mapping that must come back is {name: str(value)}; for True / False any text that the documented '
    'boolean table of get_param_as_bool reads as that boolean (the code writes true / false, and True / False inside a comma-delimited list); names are str; str(value) must succeed (an int of more than 4300 digits is outside)',
    'the Cython twin falcon/cyutil/uri.pyx cannot be rebuilt offline and is not exercised',
    'Gt.pyInt models int(str) for ALL code points with the Unicode 15.0 decimal-digit table and sys.int_max_str_digits = 4300 of the running CPython 3.12 (both compared with unicodedata / sys on every run)',
    'the options in force: on an application entry point (WSGI call, ASGI http scope, ASGI websocket scope) the values configured on app.req_options; for a request constructed without options the documented defaults keep_blank_qs_values=True, auto_parse_qs_csv=False',
    'req._params is a dict, modelled as an association list read with first-match lookup (the parser never repeats a key: Qs.parseQS_keys_nodup); store is a dict',
]
RULE = ('ALL strings of length <= 4 (quick) / <= 5 (thorough) over {& = , + % 4 a g NUL e-acute} (11 111 / 111 111 strings) x the 4 combinations of keep_blank / csv, '
        'each parsed three ways (uri.parse_query_string, falcon.Request via create_environ, falcon.asgi.Request via create_scope with req_options) and compared with the '
        'Lean parseQS and with the reference parser; plus, for every (string, option setting) of every generator, ONE further ENTRY POINT in rotation (5 entry points x 4 option settings, every pair comes up; counters entry_*): '
        'a falcon.App called with the environ, a falcon.asgi.App called with an http scope, a falcon.asgi.App called with a WEBSOCKET scope (the handshake request handed to process_request_ws and on_websocket), '
        'falcon.Request(env) and falcon.asgi.Request(scope, receive) constructed WITHOUT options (http and websocket scopes; judged under the documented defaults keep_blank=True, csv=False). On the app entry points the options are those configured on the application '
        '(set on app.req_options or assigned as a RequestOptions object; request_type stock or a subclass; strip_url_path_trailing_slash and, on WSGI, the deprecated auto_parse_form_urlencoded switched on in half of the apps - 8 app variants per stack and option setting), '
        'the request object is the one the middleware AND the responder received (same object), and its params / typed getters are judged by the reference reading under the configured options and put to the Lean parseQS / getter models with those options; plus, for each of ; # ? space / : @ and U+FEFF, every string of length <= 3 over {& = a X} containing X (x 4 options); plus EVERY ASCII character and 16 special code points '
        '(U+FEFF, zero-width / bidi marks, U+2028/9, NEL, NBSP, SHY, non-characters, U+FFFD, both neighbours of the surrogate gap, U+10FFFF) put as a would-be separator into 14 templates (inside names / values, between fields, next to escapes and CSV lists); '
        'plus ALL 22 x 22 spellings of a hex-digit pair after "%" (both cases, mixed within one escape) as name, value, alone and in continuation / lead position of 2- and 3-byte UTF-8 sequences; plus every special code point raw / escaped in upper, lower, mixed case / raw next to escaped '
        'at the START, inside and at the end of names and values; plus random longer strings over the alphabet, escape fragments (mixed-case escapes, any of the 484 pair spellings, escaped and raw separators, BOM and other special code points); '
        'plus names / values made only of "%" and hex digits with 3..20 "%" signs and unbalanced piece lengths (long decode path); plus structured query strings '
        '(1-6 fields, repeated names, typed values for int/float/bool/uuid/date/datetime/json/list, CSV lists with blank elements, randomly percent-encoded). '
        'On every request object (for the length-5 strings: on one of the two request classes, alternating) every typed getter is called for every name present and one absent name with required/default/store/min/max variations '
        '(store: None, empty, or pre-filled with other keys and/or the name itself); the calls of get_param/_as_int/_as_bool/_as_list are also put to the Lean getter model (all of them, one half on the exhaustive strings) comparing result and store contents in order. '
        'Random dictionaries go through to_query_str and back (both list styles, direct and via request objects - constructed, or handed out by a WSGI app / ASGI app on an http or websocket scope) and through the Lean toQueryStr; '
        'so do dictionaries with NON-STRING values - float (0.0, -0.0, both neighbours of the repr switches at 1e16 and 1e-4, 1e20, 1.5e300, max, min subnormal, inf, nan, random bit patterns, powers of ten 1e-30..1e40), int (0, negative, 2**63, 10**30, 4300 digits), bool, None, Decimal, Fraction, complex, UUID, date, datetime (with UTC offset), bytes, '
        'an object with __str__, and lists of them (one type or mixed) - which must come back as {name: str(value)} (booleans: any text of the documented table) and through the typed getter of their type as the value itself (floats bit for bit, NaN as NaN); '
        'int() is compared with Gt.pyInt on every code point alone and next to digits/signs (quick: all below U+3100, around every digit block, a sample of the rest) and on ALL strings of length <= 4/5 over {0 7 _ + - space \\x1c NBSP Arabic-3 x EM-SPACE}. '
        'non-trivial = the reference mapping is non-empty; distinct = distinct (query string, options, interface)')
PARTIAL = ('Proved for all inputs: parser model = reference reading (parseQS_eq_ref), decode = reference (all code paths), decode(encode_value) = id; the getters get_param / _as_int / _as_bool / _as_list '
           '(last occurrence, exact bounds, required/default/store, only documented outcomes, boolean table) for all mappings and end to end from the raw query string; the general to_query_str round trip, and the typed one (int / bool / str / None / lists: int(str(n)) = n, conversion order, one-item lists). '
           'NOT proved (tied by the correspondence / judged by the oracle only): the bytes->str step (UTF-8 with replacement, Utf8 model) has no independent specification; '
           'get_param_as_float (float() needs correctly rounded decimal->binary64, not modelled), _as_uuid, _as_datetime, _as_date, _as_json (library parsers); '
           'to_query_str for values other than str / int / bool / None and lists of them (float, Decimal, date, uuid, objects with __str__: their str() is not modelled; the oracle judges that typed round trip); for the modelled types the conversion, the rendering and the typed round trip through get_param_as_int / _as_bool / get_param / _as_list are proved (Tq.typed_round_trip*), the side conditions being stated on the converted texts; '
           'the str -> UTF-8 encoding step (the round trip is stated on UTF-8 bytes, names distinct after decoding).')
JOBS = {'quick': 4, 'thorough': 16}

ALPHABET = ['&', '=', ',', '+', '%', '4', 'a', 'g', '\x00', 'é']
# every spelling of a hex digit: the 22 x 22 pairs after '%' are all swept (both cases, mixed within one escape)
HEXD = '0123456789ABCDEFabcdef'
# the reference reading splits on '&' and the first '=' ONLY: these are the characters nobody splits on but somebody might
SEPARATORS = [';', '#', '?', ' ', '/', ':', '@']
# code points some codec / text layer treats specially (BOM = ZWNBSP, zero-width and bidi marks, line / paragraph separators, NEL, NBSP,
# non-characters, both neighbours of the surrogate gap, the last code point)
SPECIALS = ['\ufeff', '\u200b', '\u200e', '\u2028', '\u2029', '\u2060', '\ufffe', '\uffff', '\xa0', '\x85', '\xad', '\ud7ff', '\ue000', '\ufdd0', '\ufffd', '\U0010ffff']
TRUE_S = {'true', 'True', 't', 'yes', 'y', '1', 'on'}       # documented in get_param_as_bool
FALSE_S = {'false', 'False', 'f', 'no', 'n', '0', 'off'}
_T_ORDER = ['true', 'True', 't', 'yes', 'y', '1', 'on']     # the order in which the source (and the Lean table) lists them
_F_ORDER = ['false', 'False', 'f', 'no', 'n', '0', 'off']


def _order(tab):
    pos = {'.'.join(str(ord(c)) for c in w): n for n, w in enumerate(tab)}
    return lambda shown: (pos.get(shown, len(pos)), shown)


TSORT, FSORT = _order(_T_ORDER), _order(_F_ORDER)


def run(ctx):
    import datetime
    import itertools
    import sys
    import json
    import math
    import uuid
    from urllib.parse import unquote_to_bytes
    from runner import hx
    import falcon
    import falcon.asgi
    import falcon.testing as ft
    from falcon.util import uri
    from falcon.util.misc import to_query_str
    rnd = ctx.rng
    assert uri._cy_uri is None and uri.parse_query_string.__module__ == 'falcon.util.uri'

    # ------------------------------------------------------------- reference reading of the statement
    def dec(x):
        return unquote_to_bytes(x.replace('+', ' ').encode('utf-8')).decode('utf-8', 'replace')

    def ref_parse(qs, keep_blank, csv):
        out = {}
        for field in qs.split('&'):
            name, _, value = field.partition('=')
            if value == '' and (name == '' or not keep_blank):
                continue
            name = dec(name)
            if csv and ',' in value:
                vals = [dec(e) for e in value.split(',') if (e != '' or keep_blank)]
                is_list = True
            else:
                vals = [dec(value)]
                is_list = False
            if name in out:
                prev = out[name]
                out[name] = (prev if isinstance(prev, list) else [prev]) + vals
            else:
                out[name] = vals if is_list else vals[0]
        return out

    def ss(s):
        return '.'.join(str(ord(c)) for c in s) if s else '-'

    def render(d):
        return ' '.join(ss(k) + '=' + (('1:' + ss(v)) if isinstance(v, str) else 'm:' + ','.join(ss(x) for x in v)) for k, v in d.items())

    OPTS = {}
    for kb in (False, True):
        for csv in (False, True):
            o = falcon.RequestOptions(); o.keep_blank_qs_values = kb; o.auto_parse_qs_csv = csv
            OPTS[(kb, csv)] = o

    async def _receive():  # never awaited
        return {'type': 'http.disconnect'}

    # ---- ENTRY POINTS through which a request object comes into being (the mapping must be the reading of the query string under the options
    #      the APPLICATION configured - app.req_options - on every one of them; a request constructed without options reads it under the
    #      documented defaults keep_blank_qs_values=True, auto_parse_qs_csv=False):
    #        wsgi / asgi                    falcon.Request(env, options=o) / falcon.asgi.Request(scope, receive, options=o)
    #        wsgi_noopt / asgi_noopt        the same constructors without options (asgi_noopt: also on a websocket scope)
    #        wsgi_app                       falcon.App()(environ, start_response): the request handed to middleware process_request and the responder
    #        asgi_app_http                  falcon.asgi.App()(http scope, receive, send): likewise
    #        asgi_app_ws                    falcon.asgi.App()(websocket scope, ...): the handshake request handed to process_request_ws and on_websocket
    #      The apps vary in the other RequestOptions fields request.py reads while building the request (strip_url_path_trailing_slash, on WSGI the
    #      deprecated auto_parse_form_urlencoded - documented to leave a GET alone), in request_type (the stock class or a subclass) and in the
    #      place the options were set (attributes of app.req_options, or a RequestOptions object assigned to app.req_options).
    import asyncio
    import warnings
    DEFAULT_OPTS = (True, False)          # documented: keep_blank_qs_values defaults to True, auto_parse_qs_csv to False
    APP_ENTRIES = ('wsgi_app', 'asgi_app_http', 'asgi_app_ws')
    NOOPT_ENTRIES = ('wsgi_noopt', 'asgi_noopt')
    EXTRA_ENTRIES = APP_ENTRIES + NOOPT_ENTRIES
    LOOP = asyncio.new_event_loop()
    APPS = {}

    class _SubWsgiRequest(falcon.Request):
        pass

    class _SubAsgiRequest(falcon.asgi.Request):
        pass

    class _Box:
        """Resource + middleware that keep the request objects the framework hands out."""
        def __init__(self):
            self.seen = []

        def process_request(self, req, resp):
            self.seen.append(('process_request', req))

        async def process_request_async(self, req, resp):
            self.seen.append(('process_request', req))

        async def process_request_ws(self, req, ws):
            self.seen.append(('process_request_ws', req))

    class _WsgiRes:
        def __init__(self, box): self.box = box
        def on_get(self, req, resp): self.box.seen.append(('on_get', req))

    class _AsgiRes:
        def __init__(self, box): self.box = box

        async def on_get(self, req, resp): self.box.seen.append(('on_get', req))

        async def on_websocket(self, req, ws):
            self.box.seen.append(('on_websocket', req))
            await ws.accept()
            await ws.close()

    def _app(stack, kb, csv):
        variant = rnd.randrange(8)
        key = (stack, kb, csv, variant)
        if key not in APPS:
            sub, assign, strip = bool(variant & 1), bool(variant & 2), bool(variant & 4)
            box = _Box()
            if stack == 'wsgi':
                app = falcon.App(middleware=[box], request_type=_SubWsgiRequest if sub else falcon.Request)
                res = _WsgiRes(box)
            else:
                app = falcon.asgi.App(middleware=[box], request_type=_SubAsgiRequest if sub else falcon.asgi.Request)
                res = _AsgiRes(box)
            o = falcon.RequestOptions() if assign else app.req_options
            o.keep_blank_qs_values = kb
            o.auto_parse_qs_csv = csv
            o.strip_url_path_trailing_slash = strip
            if stack == 'wsgi' and strip:
                with warnings.catch_warnings():
                    warnings.simplefilter('ignore')
                    o.auto_parse_form_urlencoded = True       # (deprecated, WSGI only; "not ... for GET": the mapping stays the reading of the query string)
            if assign:
                app.req_options = o
            app.add_route('/', res)
            APPS[key] = (app, box, 'request_type=' + ('subclass' if sub else 'stock') + ', options ' + ('assigned as an object' if assign else 'set on app.req_options')
                         + (', strip_url_path_trailing_slash' + ('+auto_parse_form_urlencoded' if stack == 'wsgi' else '') if strip else ''))
        return APPS[key]

    def _events(evs):
        evs = list(evs)

        async def receive():
            if evs:
                return evs.pop(0)
            await asyncio.sleep(3600)
        return receive

    async def _send(ev):
        pass

    def _via_app(iface, qs, kb, csv):
        stack = 'wsgi' if iface == 'wsgi_app' else 'asgi'
        app, box, how = _app(stack, kb, csv)
        del box.seen[:]
        if iface == 'wsgi_app':
            for _ in app(ft.create_environ(query_string=qs), lambda status, headers, exc_info=None: None):
                pass
            want_at = ['process_request', 'on_get']
        elif iface == 'asgi_app_http':
            scope = ft.create_scope(query_string=qs)
            LOOP.run_until_complete(asyncio.wait_for(app(scope, _events([{'type': 'http.request', 'body': b'', 'more_body': False}, {'type': 'http.disconnect'}]), _send), 3))
            want_at = ['process_request', 'on_get']
        else:
            scope = ft.create_scope_ws(query_string=qs)
            LOOP.run_until_complete(asyncio.wait_for(app(scope, _events([{'type': 'websocket.connect'}, {'type': 'websocket.disconnect', 'code': 1000}]), _send), 3))
            want_at = ['process_request_ws', 'on_websocket']
        at = [w for w, _ in box.seen]
        if at != want_at:
            raise AssertionError(f'{iface}: the request was handed out at {at!r}, expected {want_at!r} ({how})')
        reqs = [r for _, r in box.seen]
        if reqs[0] is not reqs[1]:
            raise AssertionError(f'{iface}: middleware and responder received different request objects ({how})')
        ctx.count('app_variant_' + how.replace(' ', '_').replace(',', ''))
        return reqs[1]

    def _build(iface, qs, kb, csv):
        if iface == 'wsgi':
            return falcon.Request(ft.create_environ(query_string=qs), options=OPTS[(kb, csv)])
        if iface == 'asgi':
            return falcon.asgi.Request(ft.create_scope(query_string=qs), _receive, options=OPTS[(kb, csv)])
        if iface == 'wsgi_noopt':
            return falcon.Request(ft.create_environ(query_string=qs))
        if iface == 'asgi_noopt':
            return falcon.asgi.Request(ft.create_scope_ws(query_string=qs) if rnd.random() < 0.5 else ft.create_scope(query_string=qs), _receive)
        return _via_app(iface, qs, kb, csv)

    def make_req(iface, qs, kb, csv):
        # One request in eight is preceded by an EARLIER request with the same query string and options whose handler scribbles
        # on its own params (adds a key, appends to a list, overwrites a value, stores through a getter): the mapping of the request
        # under test is a function of its query string alone, so nothing of that may be visible in it.
        if ctx.rng.random() < 0.125:
            ctx.count('preceded_by_a_request_that_mutates_its_own_params')
            try:
                prev = _build(iface, qs, kb, csv)
                for k in list(prev.params):
                    v = prev.params[k]
                    if isinstance(v, list):
                        v.append('scribble')
                    else:
                        prev.params[k] = 'scribble'
                prev.params['__scribble__'] = '1'
            except Exception:  # noqa  (the request under test reports construction problems itself)
                pass
        return _build(iface, qs, kb, csv)

    # ------------------------------------------------------------- typed getters
    SENT = ('default-sentinel',)

    def same(a, b):
        if type(a) is not type(b):
            return False
        if isinstance(a, float):
            return a == b or (math.isnan(a) and math.isnan(b))
        if isinstance(a, list):
            return len(a) == len(b) and all(same(x, y) for x, y in zip(a, b))
        if isinstance(a, dict):
            return a.keys() == b.keys() and all(same(a[k], b[k]) for k in a)
        return a == b

    def bounds(val, mn, mx):
        if mn is not None and val < mn:
            return False
        if mx is not None and val > mx:
            return False
        return True

    def jloads(s):
        if s == '':
            raise ValueError('empty')
        return json.loads(s)

    def upper_strict(s):
        if not s.isalpha():
            raise ValueError(s)
        return s.upper()

    DT_DEFAULT = '%Y-%m-%dT%H:%M:%S%z'

    def ref_get(m, key, kind, kw):
        """('ret', value, store-dict-after) | ('exc', class name)."""
        kw = dict(kw)
        required = kw.pop('required', False)
        default = kw.pop('default', None)
        if kind == 'list':
            present = key in m
        else:
            present = key in m and m[key] != []
        if not present:
            return ('exc', 'HTTPMissingParam') if required else ('ret', default, {})
        vals = m[key] if isinstance(m[key], list) else [m[key]]
        last = vals[-1] if vals else None
        try:
            if kind == 'param':
                v = last
            elif kind == 'int':
                v = int(last)
                if not bounds(v, kw.get('min_value'), kw.get('max_value')): raise ValueError
            elif kind == 'float':
                v = float(last)
                if not bounds(v, kw.get('min_value'), kw.get('max_value')): raise ValueError
            elif kind == 'bool':
                if last in TRUE_S: v = True
                elif last in FALSE_S: v = False
                elif last == '': v = kw.get('blank_as_true', True)
                else: raise ValueError
            elif kind == 'uuid':
                v = uuid.UUID(last)
            elif kind == 'datetime':
                v = datetime.datetime.strptime(last, kw.get('format_string', DT_DEFAULT))
            elif kind == 'date':
                v = datetime.datetime.strptime(last, kw.get('format_string', '%Y-%m-%d')).date()
            elif kind == 'json':
                v = jloads(last)
            elif kind == 'list':
                t = kw.get('transform')
                v = [t(x) for x in vals] if t else list(vals)
        except (Exception, RecursionError):
            return ('exc', 'HTTPInvalidParam')
        return ('ret', v, {key: v})

    METH = {'param': 'get_param', 'int': 'get_param_as_int', 'float': 'get_param_as_float', 'bool': 'get_param_as_bool', 'uuid': 'get_param_as_uuid',
            'datetime': 'get_param_as_datetime', 'date': 'get_param_as_date', 'json': 'get_param_as_json', 'list': 'get_param_as_list'}

    def real_get(req, key, kind, kw, pre):
        store = dict(pre) if pre is not None else None
        try:
            v = getattr(req, METH[kind])(key, store=store, **kw)
            return ('ret', v, store)
        except falcon.HTTPBadRequest as e:
            ok400 = str(e.status).startswith('400')
            return ('exc', type(e).__name__ if ok400 else f'{type(e).__name__} with status {e.status}', store)
        except BaseException as e:  # noqa
            return ('exc', f'{type(e).__name__}: {str(e)[:80]}', store)

    # ---- the Lean model of get_param / _as_int / _as_bool / _as_list (Gt.*, driver ops of qsdriver)
    MODEL_P = [1.0]                                   # share of the getter calls also put to the model (0.5 on the exhaustive strings)
    OLD = [('old0',), ('old1',), ('old2',)]          # values already in the store (compared by identity)

    def pre_store(key):
        r = rnd.random()
        other = 'other' if key != 'other' else 'other2'
        if r < 0.3: return None
        if r < 0.55: return {}
        if r < 0.7: return {other: OLD[0]}
        if r < 0.85: return {key: OLD[1], other: OLD[2]}
        return {other: OLD[2], key: OLD[1]}

    def show_value(kind, v):
        if kind == 'param': return ss(v)
        if kind == 'int': return str(v)
        if kind == 'bool': return 'True' if v is True else 'False' if v is False else repr(v)
        return '[' + ','.join(ss(x) if isinstance(x, str) else str(x) for x in v) + ']'

    def show_store(kind, st):
        if st is None: return 'none'
        if not st: return '-'
        return ';'.join(ss(k) + '=' + (v[0] if (isinstance(v, tuple) and any(v is o for o in OLD)) else show_value(kind, v)) for k, v in st.items())

    def store_arg(pre):
        if pre is None: return 'none'
        if not pre: return '-'
        return ','.join(hx(k.encode('utf-8')) + ':' + v[0] for k, v in pre.items())

    def model_getter(qh, kb, csv, key, kind, kw, pre, got, meta):
        """One line for the model, with the reply the real getter's behaviour corresponds to."""
        tr = kw.get('transform')
        if kind not in ('param', 'int', 'bool', 'list') or (tr is not None and tr is not int):
            return
        if MODEL_P[0] < 1.0 and rnd.random() >= MODEL_P[0]:
            return
        req_ = 1 if kw.get('required') else 0
        head = f'{qh} {1 if kb else 0} {1 if csv else 0} {hx(key.encode("utf-8"))} {req_}'
        if kind == 'param':
            line = f'getparam {head} {store_arg(pre)}'
        elif kind == 'int':
            mn, mx = kw.get('min_value'), kw.get('max_value')
            line = f'getint {head} {"none" if mn is None else mn} {"none" if mx is None else mx} {store_arg(pre)}'
        elif kind == 'bool':
            line = f'getbool {head} {1 if kw.get("blank_as_true", True) else 0} {store_arg(pre)}'
        else:
            line = f'getlist {head} {"int" if tr is int else "none"} {store_arg(pre)}'
        if got[0] == 'exc':
            res = {'HTTPMissingParam': 'missing400', 'HTTPInvalidParam': 'invalid400'}.get(got[1], 'EXC:' + got[1])
        else:
            v = got[1]
            is_default = (v is SENT) if 'default' in kw else (v is None)
            res = 'default' if is_default else 'value:' + show_value(kind, v)
        sessg.case(meta)
        sessg.op(line, res + ' | ' + show_store(kind, got[2]))
        ctx.count('model_' + line.split(' ', 1)[0] + '_' + res.split(':', 1)[0])

    def calls_for(m, key, rich):
        """The (kind, kwargs) list to run for one name."""
        vals = (m[key] if isinstance(m[key], list) else [m[key]]) if key in m else []
        last = vals[-1] if vals else None
        out = []

        def rq():
            d = {}
            if rnd.random() < 0.5: d['required'] = True
            if rnd.random() < 0.5: d['default'] = SENT
            return d
        out.append(('param', rq()))
        if rich:
            out.append(('param', {'required': True})); out.append(('param', {'default': SENT}))
        # int: bounds exactly at the value
        try:
            iv = int(last) if last is not None else None
        except ValueError:
            iv = None
        out.append(('int', rq()))
        if iv is not None:
            out.append(('int', dict(rq(), **rnd.choice([dict(max_value=0), dict(min_value=0), dict(min_value=0, max_value=0)]))))
            out.append(('int', dict(rq(), min_value=iv, max_value=iv)))
            out.append(('int', dict(rq(), min_value=iv + 1)))
            out.append(('int', dict(rq(), max_value=iv - 1)))
            if rich:
                out.append(('int', dict(rq(), min_value=iv - 1, max_value=iv + 1)))
                out.append(('int', dict(rq(), min_value=iv + 1, max_value=iv - 1)))
        else:
            out.append(('int', dict(rq(), min_value=0, max_value=10)))
        try:
            fv = float(last) if last is not None else None
        except ValueError:
            fv = None
        out.append(('float', rq()))
        if fv is not None and not math.isnan(fv):
            # bounds that are exactly zero (falsy) must be honoured like any other bound
            zb = rnd.choice([dict(max_value=0), dict(max_value=0.0), dict(min_value=0), dict(min_value=0.0), dict(min_value=0, max_value=0)])
            out.append(('float', dict(rq(), **zb)))
            out.append(('float', dict(rq(), min_value=fv, max_value=fv)))
            if not math.isinf(fv):
                out.append(('float', dict(rq(), min_value=math.nextafter(fv, math.inf))))
                out.append(('float', dict(rq(), max_value=math.nextafter(fv, -math.inf))))
        elif rich:
            out.append(('float', dict(rq(), min_value=-1.0, max_value=1.0)))
        out.append(('bool', rq()))
        out.append(('bool', dict(rq(), blank_as_true=False)))
        out.append(('uuid', rq()))
        out.append(('datetime', rq()))
        out.append(('date', rq()))
        if rich:
            out.append(('datetime', dict(rq(), format_string='%Y-%m-%dT%H:%M:%SZ')))
            out.append(('date', dict(rq(), format_string='%d/%m/%Y')))
        out.append(('json', rq()))
        out.append(('list', rq()))
        out.append(('list', dict(rq(), transform=int)))
        if rich:
            out.append(('list', dict(rq(), transform=upper_strict)))
        return out

    def show_kw(kw):
        return ', '.join(f'{k}={getattr(v, "__name__", None) or repr(v)}' for k, v in kw.items())

    GETTER_ORACLE = ('typed getters: reference conversion of the LAST occurrence; required/default/store/min/max honoured exactly; '
                     'only HTTPInvalidParam / HTTPMissingParam (400) are raised; has_param')

    def check_getters(req, m, case, rich):
        qh = hx(case['query_string'].encode('utf-8'))
        kb_, csv_ = case['keep_blank_qs_values'], case['auto_parse_qs_csv']
        keys = list(m.keys())
        absent = next(k for k in ('zz', 'absent', 'zz1', '\x01none') if k not in m)
        for key in keys + [absent]:
            bad = None
            hp = None
            try:
                hp = req.has_param(key)
            except Exception as e:  # noqa
                bad = f'has_param({key!r}) raised {type(e).__name__}'
            if bad is None and hp != (key in m):
                bad = f'has_param({key!r}) = {hp}, the reference mapping says {key in m}'
            ncalls = 0
            if bad is None:
                for kind, kw in calls_for(m, key, rich):
                    pre = pre_store(key)
                    use_store = pre is not None
                    got = real_get(req, key, kind, kw, pre)
                    want = ref_get(m, key, kind, kw)
                    if use_store:   # the store the statement asks for: untouched unless a value is returned, then exactly store[name] = value
                        exp_store = dict(pre)
                        if want[0] == 'ret' and want[2]:
                            exp_store[key] = want[1]
                    model_getter(qh, kb_, csv_, key, kind, kw, pre, got, (case['query_string'], kb_, csv_, case['entry'], key, kind))
                    ncalls += 1
                    ctx.count('getter_' + kind + '_' + (want[1] if want[0] == 'exc' else 'returned' if want[2] else 'default'))
                    call = f'{METH[kind]}({key!r}{", " if kw else ""}{show_kw(kw)}{", store=" + repr(pre) if use_store else ""})'
                    if got[0] != want[0]:
                        bad = f'{call} -> {got[1]!r}, reference: {want[1]!r}'
                    elif got[0] == 'exc':
                        if got[1] != want[1]:
                            bad = f'{call} raised {got[1]}, reference: {want[1]}'
                        elif use_store and not (same(got[2], exp_store) and list(got[2]) == list(exp_store)):
                            bad = f'{call} raised {got[1]} but changed the store {pre!r} to {got[2]!r}'
                    else:
                        if not same(got[1], want[1]):
                            bad = f'{call} returned {got[1]!r}, reference conversion of the last occurrence gives {want[1]!r}'
                        elif use_store and not (same(got[2], exp_store) and list(got[2]) == list(exp_store)):
                            bad = f'{call} on store {pre!r} left store = {got[2]!r}, expected {exp_store!r}'
                    if bad is None:
                        # reading a parameter is not writing one: after any getter call the request's mapping is still the reference reading
                        try:
                            now = dict(req.params)
                        except Exception as e:  # noqa
                            now = f'{type(e).__name__}'
                        if not (isinstance(now, dict) and same(now, dict(m)) and list(now) == list(m)):
                            bad = f'after {call} the parameter mapping is {now!r}, the reference reading of the query string is {dict(m)!r}'
                    if bad:
                        break
            ctx.oracle(GETTER_ORACLE, bad is None, bad, dict(case, name=key))

    # ------------------------------------------------------------- one query string, all options, three entry points
    sess = ctx.session('parse_query_string / req.params (WSGI, ASGI) = Qs.parseQS model', 'qsdriver')
    sessg = ctx.session('get_param / get_param_as_int / _as_bool / _as_list (WSGI, ASGI; result + store), int(), to_query_str = Gt model', 'qsdriver')
    PARSE_ORACLE = ('params == form-urlencoded reference reading (split on & and first =, %/+ decoding as UTF-8 with replacement, malformed escapes literal, '
                    'repeats collected in order, blank rule, CSV on literal commas only); parsing never raises')

    ROT = [ctx.shard[0]]

    def one_qs(qs, kind, rich, combos=((False, False), (False, True), (True, False), (True, True)), getters_on=('wsgi', 'asgi')):
        h = hx(qs.encode('utf-8'))
        MODEL_P[0] = 0.5 if kind == 'exhaustive' else 1.0
        for kb_conf, csv_conf in combos:
            # besides the three basic entry points, ONE of the five others in rotation (5 entries x 4 option settings: every pair comes up)
            extra = EXTRA_ENTRIES[ROT[0] % len(EXTRA_ENTRIES)]
            ROT[0] += 1
            for iface in (('direct',) if qs.startswith('?') else ('direct', 'wsgi', 'asgi', extra)):   # (create_environ refuses a leading '?')
                # the options in force: what the application / the caller configured; the documented defaults when a request is constructed without options
                kb, csv = DEFAULT_OPTS if iface in NOOPT_ENTRIES else (kb_conf, csv_conf)
                want = ref_parse(qs, kb, csv)
                line = f'{1 if kb else 0} {1 if csv else 0} {h}'
                req = None
                try:
                    if iface == 'direct':
                        got = uri.parse_query_string(qs, kb, csv)
                    else:
                        req = make_req(iface, qs, kb, csv)
                        got = req.params
                    exp = render(got)
                    bad = None if same(got, want) else f'{iface}: params = {got!r}, reference = {want!r}'
                    if bad is None and list(got.keys()) != list(want.keys()):
                        bad = f'{iface}: parameter order {list(got.keys())!r}, reference {list(want.keys())!r}'
                except Exception as e:  # noqa
                    exp = 'EXC:' + type(e).__name__
                    bad = f'{iface}: raised {type(e).__name__}: {e}'
                sess.case({'kind': kind, 'entry': iface})
                sess.op(line, exp)
                case = {'query_string': qs, 'keep_blank_qs_values': kb, 'auto_parse_qs_csv': csv, 'entry': iface}
                if iface in NOOPT_ENTRIES:
                    case['options'] = 'none passed to the constructor: the documented defaults apply'
                elif iface in APP_ENTRIES:
                    case['options'] = 'configured on the application (app.req_options)'
                ctx.oracle(PARSE_ORACLE, bad is None, bad, case)
                ctx.seen((qs, kb, csv, iface), bool(want))
                if iface in EXTRA_ENTRIES:
                    ctx.count('entry_' + iface + ('_default_options' if (kb, csv) == DEFAULT_OPTS else '_non_default_options')
                              + ('_option_sensitive_string' if want != ref_parse(qs, *DEFAULT_OPTS) else ''))
                    # the typed getters on the request the application handed out: on half of the structured / random strings, on 15 % of the exhaustive ones
                    if req is not None and bad is None and rnd.random() < (0.5 if kind != 'exhaustive' else 0.15 if len(qs) < 5 else 0.0):
                        check_getters(req, want, case, rich)
                elif req is not None and bad is None and iface in getters_on:
                    check_getters(req, want, case, rich)

    # 1. the complete bounded space
    L = 4 if ctx.quick else 5
    i, k = ctx.shard
    idx = 0
    for n in range(L + 1):
        for tup in itertools.product(ALPHABET, repeat=n):
            if idx % k == i:
                # length 5 (thorough only): the getters run on one of the two request classes, alternating
                one_qs(''.join(tup), 'exhaustive', False, getters_on=('wsgi', 'asgi') if n < 5 else (('wsgi',) if idx % 2 else ('asgi',)))
                ctx.count(f'exhaustive_len_{n}')
            idx += 1

    # 1b. one extra letter at a time: for each separator-like character and the BOM every string of length <= 3 over {& = a X} that contains X, x 4 options
    for xch in SEPARATORS + ['\ufeff']:
        for n in range(1, 4):
            for tup in itertools.product(['&', '=', 'a', xch], repeat=n):
                if xch not in tup:
                    continue
                if idx % k == i:
                    one_qs(''.join(tup), 'extra_letter', False)
                    ctx.count('extra_letter_exhaustive_len_le_3')
                idx += 1
    # 1c. EVERY ASCII character and every special code point as a would-be separator inside names, values, between fields, next to escapes and CSV lists
    TEMPL = ['X', 'aXb', 'a=bXc', 'a=bXc=d', 'aXb=c', 'a=1Xa=2', 'X=a', 'a=X', 'a=b&Xc=d', 'a=1,2X3', 'Xa=bX', 'a=%41X%42', 'a=b&X', 'a=XX&b=X']
    for xch in [chr(c) for c in range(128)] + SPECIALS:
        for t in TEMPL:
            if idx % k == i:
                one_qs(t.replace('X', xch), 'separator_template', False, combos=[(rnd.random() < 0.5, rnd.random() < 0.5)])
                ctx.count('separator_template_' + ('ascii' if xch < '\x80' else 'special_code_point'))
            idx += 1
    # 1d. every spelling of an escape: all 22 x 22 hex-digit pairs after '%', as a name, as a value, alone, and in continuation / lead position of
    #     2- and 3-byte UTF-8 sequences (neighbouring escapes in mixed case as well)
    PAIR_CTX = ['%XY', 'v=%XY', '%XY=1', 'v=%c3%XY', 'v=%XY%a9', 'v=%E2%82%XY', '%XY%82%aC=1,2']
    for x in HEXD:
        for y in HEXD:
            for t in PAIR_CTX:
                if idx % k == i:
                    one_qs(t.replace('XY', x + y), 'hex_pair_sweep', False, combos=[(rnd.random() < 0.5, rnd.random() < 0.5)])
                    ctx.count('hex_pair_' + ('mixed_case_letters' if (x + y).isalpha() and not (x + y).isupper() and not (x + y).islower() else 'uniform'))
                idx += 1
    # 1e. special code points at the START of a name / value, inside and at the end: raw, escaped (upper / lower / mixed case), raw next to escaped
    def pct(b):
        return '%' + ''.join(rnd.choice([ch.lower(), ch.upper()]) for ch in '%02X' % b)

    def esc_all(t, style):
        e = ''.join('%%%02X' % b for b in t.encode('utf-8'))
        return e if style == 'upper' else e.lower() if style == 'lower' else ''.join(pct(b) for b in t.encode('utf-8'))
    SP_CTX = ['Z', 'v=Z', 'Z=1', 'v=Zabc', 'v=abcZ', 'v=aZb', 'Zk=Zv', 'v=ZZ', 'v=1,Z2', 'v=Z&v=Z%41']
    for sp in SPECIALS:
        for z in (sp, esc_all(sp, 'upper'), esc_all(sp, 'lower'), esc_all(sp, 'mixed'), sp + esc_all(sp, 'upper')):
            for t in SP_CTX:
                if idx % k == i:
                    one_qs(t.replace('Z', z), 'special_code_point', False, combos=[(rnd.random() < 0.5, rnd.random() < 0.5)])
                    ctx.count('special_code_point_' + ('raw' if z == sp else 'escaped'))
                idx += 1

    # 2. random longer strings over the alphabet and escape fragments
    FRAG = ALPHABET + ['%ff', '%fe', '%C3%A9', '%c3', '%A9', '%2C', '%2c', '%26', '%3D', '%2B', '%25', '%00', '%E2%82%AC', '%F0%9F%98%80', '%ED%A0%80',
                       '=', '&', '&&', ',', ',,', 'a', 'b', '4', 'true', '%4', '%g', '%%',
                       # escapes in mixed case (between and WITHIN escapes), separators nobody splits on (raw and escaped), special code points
                       '%c3%A9', '%C3%a9', '%e2%82%aC', '%cE%b1', '%d0%bA', '%Fa', '%bC', '%3B', '%3b', '%23', '%3F',
                       ';', ';', '#', '?', ' ', '/', ':', '@', '\ufeff', '\u200b', '\u2028', '\uffff', '%EF%BB%BF', '%ef%bb%bf', '%Ef%bB%Bf', '%E2%80%8B', '%EF%BF%BE', '%ED%BF%BF']
    for _ in range(ctx.n(3000, 40000)):
        s = ''.join(rnd.choice(FRAG) if rnd.random() < 0.93 else '%' + rnd.choice(HEXD) + rnd.choice(HEXD) for _ in range(rnd.randint(5, rnd.choice([8, 15, 30, 30, 200]))))
        one_qs(s, 'random', False, combos=[(rnd.random() < 0.5, rnd.random() < 0.5)])
        ctx.count('random')
        ctx.count('random_with_raw_semicolon' if ';' in s else 'random_without_raw_semicolon')

    # 2b. names / values made ONLY of '%' and hex digits, 3..20 '%' signs (mostly 7..12: the long decode path), piece lengths unbalanced in every way
    def pct_hex_only():
        n = rnd.choice([3, 6, 7, 7, 7, 8, 8, 9, 10, 11, 12, 12, 20])
        r = rnd.random()
        lens = [0] + [2] * n
        if r < 0.45:      # a truncated escape compensated by surplus digits elsewhere: the total stays 3 n
            for _ in range(rnd.randint(1, 4)):
                a, b = rnd.randrange(n + 1), rnd.randrange(n + 1)
                if a != b and lens[a] > 0:
                    lens[a] -= 1; lens[b] += 1
        elif r < 0.8:
            lens = [rnd.choice([0, 0, 1, 2, 3])] + [rnd.choice([0, 1, 2, 2, 2, 3, 4]) for _ in range(n)]
        else:
            for _ in range(rnd.randint(1, 3)):
                a = rnd.randrange(n + 1)
                lens[a] = max(0, lens[a] + rnd.choice([-2, -1, 1, 2]))
        digits = rnd.choice([HEXD, HEXD, '0123456789', 'abcdef', 'ABCDEF', '4'])
        return '%'.join(''.join(rnd.choice(digits) for _ in range(m)) for m in lens)

    for _ in range(ctx.n(800, 12000)):
        s = rnd.choice(['v=', 'v=', '', 'a=1&v=']) + pct_hex_only() + rnd.choice(['', '', '=1', '&v=2'])
        one_qs(s, 'pct_and_hex_digits_only', False, combos=[(rnd.random() < 0.5, rnd.random() < 0.5)])
        ctx.count('pct_and_hex_digits_only')

    # 3. structured, mostly valid typed values
    u = [str(uuid.UUID(int=rnd.getrandbits(128))) for _ in range(4)]
    POOL = {
        'int': ['0', '1', '-1', '+1', '%2B1', '007', '12', ' 5 ', '1_000', '١٢', '1e3', '9' * 30, '0x10', '4.0', '-0', '1 2'],
        'float': ['1.5', '-0.0', 'nan', 'inf', '-inf', '1e400', '.5', '5.', '1_0.5', 'NaN', 'Infinity', '0x1p3', '１.５', '1e-400', '2.5e3', '1.5f'],
        'bool': sorted(TRUE_S | FALSE_S) + ['TRUE', 'Yes', ' true', '2', 'tRuE', 'ON'],
        'uuid': u + [u[0].replace('-', ''), u[1].upper(), '{' + u[2] + '}', 'urn:uuid:' + u[3], u[0][:-1], u[1][:-1] + 'g', u[2] + '0', '+' + u[0].replace('-', '')[1:]],
        'date': ['2024-02-29', '2023-02-29', '2024-2-9', '2024-13-01', '0001-01-01', '10000-01-01', '29/02/2024', '31/04/2024', '2024-02-29 '],
        'datetime': ['2024-02-29T12:30:00Z', '2024-02-29T12:30:00%2B0100', '2024-02-29T12:30:00+0100', '2024-02-29T12:30:00-0100', '2024-02-29T24:00:00Z',
                     '2024-02-29T12:30:00', '2024-02-29T12:30:00-2400', '2024-02-29T12:30:00%2B01:00'],
        'json': ['{"a":1}', '[1,2]', 'null', 'true', '"é"', '{"a":[1,{"b":null}]}', '{', ' 1 ', 'NaN', '1e999', '"\\ud800"', '[1%2C2]', '{"a"%3A"b%26c"}', "{'a':1}", '1 2'],
        'word': ['a', 'abc', 'x y', 'café', '€', '\U0001F600', 'a%', '%zz', '100%25', 'a=b', '\x00',
                 'text/html;q=0.9', '/shop;jsessionid=A1B2/cart', 'color:red;margin:0', '25;', ';', 'a#b', 'a?b=c', 'user@host:80', 'München', 'к', 'α',
                 '\ufeffabc', 'a\ufeffb', '\ufeff', '\u200bx', 'x\u2028', '\ufffe', '\uffff'],
    }
    # (names that are templates of some formatting mini-language must be handled as plain text on every path, the error paths included)
    KEYS = ['a', 'a', 'b', 'id', 'é', 'a b', '', 'q[]', 'A', 'a%20b', '%61', 'a', 'b',
            'a;b', ';', ';a', '#', 'k@', 'a:b', 'a/b', '\ufeffk', '\ufeff', 'k\u200b', 'ü',
            '{0}', '{}', '{id}', 'filter{name}', '}', '{', '{0!r}', '{a.b}', '{0[0]}', '%s', '%(a)s', '%d', '$a', '${a}', '\\', '\\n', '"', "a'b", '<b>', 'a\nb']

    def enc_some(s):
        out = []
        for c in s:
            r = rnd.random()
            if r < 0.15:
                # each escape in upper case, lower case, or with the case chosen per hex digit (mixed within one escape)
                out.append(''.join((('%%%02X' if rnd.random() < 0.5 else '%%%02x') % b) if rnd.random() < 0.5 else pct(b) for b in c.encode('utf-8')))
            elif c == ' ' and r < 0.6:
                out.append('+')
            else:
                out.append(c)
        return ''.join(out)

    for _ in range(ctx.n(6000, 80000)):
        typ = rnd.choice(list(POOL))
        fields = []
        for _ in range(rnd.randint(1, 6)):
            key = rnd.choice(KEYS[:3]) if rnd.random() < 0.6 else rnd.choice(KEYS)
            r = rnd.random()
            if r < 0.08:
                fields.append(enc_some(key))
            elif r < 0.16:
                fields.append(enc_some(key) + '=')
            elif r < 0.40:
                n = rnd.randint(2, 4)
                fields.append(enc_some(key) + '=' + ','.join(rnd.choice(['', '', enc_some(rnd.choice(POOL[typ])), enc_some(rnd.choice(POOL[typ]))]) for _ in range(n)))
            else:
                fields.append(enc_some(key) + '=' + enc_some(rnd.choice(POOL[typ] if rnd.random() < 0.85 else POOL[rnd.choice(list(POOL))])))
        if rnd.random() < 0.01:
            fields.append('deep=' + '[' * 2400)
        qs = '&'.join(fields)
        if qs.startswith('?'):
            continue
        one_qs(qs, 'structured', True, combos=[(rnd.random() < 0.5, rnd.random() < 0.5)])
        ctx.count('structured_' + typ)
    sess.finish()

    # ------------------------------------------------------------- to_query_str round trip
    CH = list('ab1 &=,+%?#/~.-_') + ['\x00', 'é', '€', '\U0001F600', '%41', '%2C', '\n', '"']
    RT_ORACLE = 'to_query_str(mapping) parses back to the mapping (string values, lists >= 2, no empty name with empty value)'

    def show_mapping(m):
        if not m: return '-'
        h = lambda t: hx(t.encode('utf-8'))
        return ';'.join(h(k_) + '=' + ('1:' + h(v)) if isinstance(v, str) else h(k_) + '=m:' + ','.join(h(x) for x in v) for k_, v in m.items())

    def rstr(lo=0):
        return ''.join(rnd.choice(CH) for _ in range(rnd.randint(lo, rnd.choice([1, 3, 6, 12]))))

    for _ in range(ctx.n(6000, 80000)):
        keep_blank = rnd.random() < 0.7
        lo = 0 if keep_blank else 1
        m = {}
        for _ in range(rnd.randint(0, 5)):
            key = rstr()
            if rnd.random() < 0.35:
                v = [rstr(lo) for _ in range(rnd.randint(2, 4))]
            else:
                v = rstr(lo)
            if key == '' and (v == '' or (isinstance(v, list) and '' in v)):
                continue
            m[key] = v
        cdl = rnd.random() < 0.5
        csv = cdl or rnd.random() < 0.5
        bad = None
        entry = rnd.choice(('direct', 'wsgi', 'asgi', 'direct', 'wsgi', 'asgi') + APP_ENTRIES)
        try:
            qs = to_query_str(m, comma_delimited_lists=cdl, prefix=False)
            if m and to_query_str(m, comma_delimited_lists=cdl) != '?' + qs:
                bad = 'prefix=True is not "?" + the prefix=False rendering'
            if entry == 'direct':
                back = uri.parse_query_string(qs, keep_blank, csv)
            else:
                back = make_req(entry, qs, keep_blank, csv).params
            if bad is None and not same(back, m):
                bad = f'rendered {qs!r}, parsed back ({entry}) as {back!r}'
        except Exception as e:  # noqa
            qs = None
            bad = f'raised {type(e).__name__}: {e}'
        ctx.oracle(RT_ORACLE, bad is None, bad, {'mapping': m, 'comma_delimited_lists': cdl, 'keep_blank_qs_values': keep_blank, 'auto_parse_qs_csv': csv, 'entry': entry})
        ctx.seen(('rt', repr(m), cdl, keep_blank, csv, entry), bool(m))
        ctx.count('roundtrip_' + entry)
        if qs is not None:
            # the Lean toQueryStr renders the same bytes, and the Lean parser reads them back like the real one
            sessg.case({'kind': 'to_query_str', 'mapping': m, 'comma_delimited_lists': cdl})
            sessg.op(f'toqs {1 if cdl else 0} 0 {show_mapping(m)}', hx(qs.encode('utf-8')))
            sessg.op(f'{1 if keep_blank else 0} {1 if csv else 0} {hx(qs.encode("utf-8"))}', render(back))

    # to_query_str alone: also empty and one-element lists, empty mapping, both prefix settings
    for _ in range(ctx.n(1500, 20000)):
        m = {}
        for _ in range(rnd.choice([0, 1, 1, 2, 3, 5])):
            key = rstr()
            m[key] = [rstr() for _ in range(rnd.choice([0, 1, 2, 3]))] if rnd.random() < 0.5 else rstr()
        cdl, pfx = rnd.random() < 0.5, rnd.random() < 0.5
        try:
            exp = hx(to_query_str(m, comma_delimited_lists=cdl, prefix=pfx).encode('utf-8'))
        except Exception as e:  # noqa
            exp = 'EXC:' + type(e).__name__
        sessg.case({'kind': 'to_query_str', 'mapping': m, 'comma_delimited_lists': cdl, 'prefix': pfx})
        sessg.op(f'toqs {1 if cdl else 0} {1 if pfx else 0} {show_mapping(m)}', exp)
        ctx.count('to_query_str_only')

    # ------------------------------------------------------------- to_query_str with NON-STRING values ("a str or something that can be converted into a str, or a list of such values")
    import struct
    from decimal import Decimal
    from fractions import Fraction
    TYPED_ORACLE = ('to_query_str(mapping with non-string values) parses back to {name: str(value)} (a boolean: a text the documented boolean table reads as that boolean), '
                    'and the typed getter of the value\'s type (get_param_as_int / _as_float / _as_bool / _as_uuid / _as_date / _as_list(transform)) returns the value itself')

    class Txt:
        """Something that can be converted into a str."""
        def __init__(self, t): self.t = t
        def __str__(self): return self.t
        def __repr__(self): return f'Txt({self.t!r})'

    FLOATS = [0.0, -0.0, 1.0, 1.5, 0.1, 0.2, -2.5, 123456.789, 1e15, 9999999999999998.0, math.nextafter(1e16, 0.0), 1e16, math.nextafter(1e16, math.inf), -1e16, 1e17, 1e20, 6.02214076e23,
              -1e22, 1.5e300, 1.7976931348623157e308, 5e-324, 2.2250738585072014e-308, 1e-7, 1e-5, math.nextafter(1e-4, 0.0), 1e-4, 0.001, 2.5e-10, math.inf, -math.inf, math.nan]
    INTS = [0, 1, -1, 7, 10, 250, -42, 2 ** 31, 2 ** 63, -2 ** 63 - 1, 10 ** 16, 10 ** 20, -10 ** 22, 10 ** 30, -(10 ** 100), 10 ** 4299, -(10 ** 4299) + 1]
    TZ = datetime.timezone(datetime.timedelta(hours=1))

    def rfloat():
        r = rnd.random()
        if r < 0.4: return rnd.choice(FLOATS)
        if r < 0.65: return struct.unpack('<d', rnd.getrandbits(64).to_bytes(8, 'little'))[0]          # any sign / exponent / mantissa, NaNs included
        if r < 0.85: return rnd.choice([1.0, -1.0, 2.5, 9.999]) * 10.0 ** rnd.randint(-30, 40)         # around both switches of repr to exponent notation
        return rnd.uniform(-1e6, 1e6)

    def rint():
        r = rnd.random()
        if r < 0.5: return rnd.choice(INTS)
        if r < 0.8: return rnd.randint(-1000, 1000)
        return rnd.choice([1, -1]) * rnd.getrandbits(rnd.choice([16, 40, 64, 200, 1000]))

    def rvalue(kind, lo):
        if kind == 'float': return rfloat()
        if kind == 'int': return rint()
        if kind == 'bool': return rnd.random() < 0.5
        if kind == 'str': return rstr(max(lo, 1) if rnd.random() < 0.5 else lo)
        if kind == 'none': return None
        if kind == 'decimal': return rnd.choice([Decimal('1E+20'), Decimal('0.1'), Decimal('-1.5E-7'), Decimal('12.50'), Decimal('Infinity'), Decimal(rnd.randint(-10 ** 6, 10 ** 6)).scaleb(rnd.randint(-12, 25))])
        if kind == 'fraction': return Fraction(rnd.randint(-50, 50), rnd.randint(1, 9))
        if kind == 'complex': return complex(rfloat(), rfloat())
        if kind == 'uuid': return uuid.UUID(int=rnd.getrandbits(128))
        if kind == 'date': return datetime.date(rnd.randint(1, 9999), rnd.randint(1, 12), rnd.randint(1, 28))
        if kind == 'datetime': return datetime.datetime(rnd.randint(1900, 2100), rnd.randint(1, 12), rnd.randint(1, 28), rnd.randint(0, 23), rnd.randint(0, 59), rnd.randint(0, 59), tzinfo=rnd.choice([None, TZ, datetime.timezone.utc]))
        if kind == 'bytes': return rstr(1).encode('utf-8')
        return Txt(rstr(max(lo, 1)))

    KINDS = ['float', 'float', 'float', 'int', 'int', 'bool', 'str', 'none', 'decimal', 'fraction', 'complex', 'uuid', 'date', 'datetime', 'bytes', 'object']

    def texts_for(v):
        """The texts a value may come back as: str(v); for a boolean whatever the documented table reads as that boolean."""
        if v is True: return TRUE_S
        if v is False: return FALSE_S
        return {str(v)}

    def same_typed(a, b):
        if type(a) is not type(b): return False
        if isinstance(a, float):
            return (math.isnan(a) and math.isnan(b)) or (a == b and math.copysign(1.0, a) == math.copysign(1.0, b))
        if isinstance(a, list):
            return len(a) == len(b) and all(same_typed(x, y) for x, y in zip(a, b))
        return a == b

    def typed_getter(req, key, v):
        """(what was called, result) for the getter that corresponds to the type of v, or None."""
        vs = v if isinstance(v, list) else [v]
        t = type(vs[0])
        if any(type(x) is not t for x in vs):
            return None
        if isinstance(v, list):
            tr = {int: int, float: float, str: None, uuid.UUID: uuid.UUID}.get(t, False)
            if tr is False:
                return None
            return (f'get_param_as_list({key!r}, transform={getattr(tr, "__name__", None)})', req.get_param_as_list(key, transform=tr) if tr else req.get_param_as_list(key))
        if t is bool: return (f'get_param_as_bool({key!r})', req.get_param_as_bool(key))
        if t is int: return (f'get_param_as_int({key!r})', req.get_param_as_int(key))
        if t is float: return (f'get_param_as_float({key!r})', req.get_param_as_float(key))
        if t is str: return (f'get_param({key!r})', req.get_param(key))
        if t is uuid.UUID: return (f'get_param_as_uuid({key!r})', req.get_param_as_uuid(key))
        if t is datetime.date: return (f'get_param_as_date({key!r})', req.get_param_as_date(key))
        return None

    def code_text(v, in_list, cdl):
        # what the real function hands to encode_value (the str() step in front of the modelled byte-level rendering): 'true' / 'false' for the
        # singletons True / False except inside a comma-delimited list (map(str, ...)), str(v) otherwise
        if (v is True or v is False) and not (in_list and cdl):
            return 'true' if v else 'false'
        return str(v)

    for _ in range(ctx.n(5000, 70000)):
        keep_blank = rnd.random() < 0.7
        lo = 0 if keep_blank else 1
        m = {}
        for _ in range(rnd.randint(1, 4)):
            key = rstr(1)
            kind = rnd.choice(KINDS)
            if rnd.random() < 0.3:
                # lists: mostly of one type, sometimes mixed
                v = [rvalue(kind if rnd.random() < 0.8 else rnd.choice(KINDS), lo) for _ in range(rnd.randint(2, 4))]
            else:
                v = rvalue(kind, lo)
            m[key] = v
            ctx.count('typed_value_' + kind + ('_list' if isinstance(v, list) else ''))
            for x in (v if isinstance(v, list) else [v]):
                if isinstance(x, float):
                    ctx.count('typed_float_' + ('nonfinite' if not math.isfinite(x) else 'exponent_plus' if 'e+' in repr(x) else 'exponent_minus' if 'e-' in repr(x) else 'positional'))
        cdl = rnd.random() < 0.5
        csv = cdl or rnd.random() < 0.5
        entry = rnd.choice(('direct', 'wsgi', 'asgi', 'wsgi', 'asgi') + APP_ENTRIES)
        bad = None
        qs = back = None
        try:
            qs = to_query_str(m, comma_delimited_lists=cdl, prefix=False)
            if to_query_str(m, comma_delimited_lists=cdl) != '?' + qs:
                bad = 'prefix=True is not "?" + the prefix=False rendering'
            req = None
            if entry == 'direct':
                back = uri.parse_query_string(qs, keep_blank, csv)
            else:
                req = make_req(entry, qs, keep_blank, csv)
                back = req.params
            if bad is None and list(back) != list(m):
                bad = f'rendered {qs[:200]!r}, parsed back ({entry}) with names {list(back)!r}'
            for key, v in m.items():
                if bad is not None:
                    break
                got = back[key]
                if isinstance(v, list):
                    okv = isinstance(got, list) and len(got) == len(v) and all(isinstance(g, str) and g in texts_for(x) for g, x in zip(got, v))
                else:
                    okv = isinstance(got, str) and got in texts_for(v)
                if not okv:
                    exp = [sorted(texts_for(x))[0] if isinstance(x, bool) else str(x) for x in v] if isinstance(v, list) else str(v)
                    bad = f'{key!r}: {v!r} rendered in {qs[:200]!r}, parsed back ({entry}) as {str(got)[:200]!r}, expected {str(exp)[:200]!r}'
                elif req is not None:
                    tg = typed_getter(req, key, v)
                    if tg is not None and not same_typed(tg[1], v):
                        bad = f'{key!r}: {v!r} rendered in {qs[:200]!r}; {tg[0]} returned {tg[1]!r}'
        except Exception as e:  # noqa
            bad = f'raised {type(e).__name__}: {str(e)[:200]}'
        ctx.oracle(TYPED_ORACLE, bad is None, bad, {'mapping': repr(m)[:2000], 'comma_delimited_lists': cdl, 'keep_blank_qs_values': keep_blank, 'auto_parse_qs_csv': csv, 'entry': entry})
        ctx.seen(('typed', repr(m), cdl, keep_blank, csv, entry), True)
        ctx.count('typed_roundtrip_' + entry)
        if qs is not None and back is not None:
            ms = {key: ([code_text(x, True, cdl) for x in v] if isinstance(v, list) else code_text(v, False, cdl)) for key, v in m.items()}
            sessg.case({'kind': 'to_query_str typed', 'mapping': repr(m)[:500], 'comma_delimited_lists': cdl})
            sessg.op(f'toqs {1 if cdl else 0} 0 {show_mapping(ms)}', hx(qs.encode('utf-8')))
            sessg.op(f'{1 if keep_blank else 0} {1 if csv else 0} {hx(qs.encode("utf-8"))}', render(back))

    # ------------------------------------------------------------- to_query_str with TYPED values = Tq model (TypedQuery.lean): conversion + rendering + typed getters
    sesst = ctx.session('to_query_str on typed mappings (str / int / True / False / None / lists of them: the conversion in front of the rendering) and the typed getter of each value on its parse (WSGI, ASGI) = Tq model', 'tqdriver')
    TQ_ORACLE = ('to_query_str(mapping of str / int / bool / None / non-empty lists of them) parsed back: get_param_as_int returns the int, get_param_as_bool the bool, get_param the str (None: "None"), '
                 'get_param_as_list the texts of the items in order (a boolean item: a text of the documented table that reads as it)')
    TQ_INTS = [0, 1, -1, 9, 10, -10, 99, 100, 255, -256, 2 ** 31, -2 ** 63, 10 ** 18, -(10 ** 30) + 1, 10 ** 100, 10 ** 4299, -(10 ** 4300) + 1]

    def tq_scalar():
        r = rnd.random()
        if r < 0.35:
            q = rnd.random()
            if q < 0.4: return rnd.choice(TQ_INTS)
            if q < 0.75: return rnd.randint(-1100, 1100)
            if q < 0.97: return rnd.choice([1, -1]) * rnd.getrandbits(rnd.choice([8, 33, 64, 130, 900]))
            return rnd.choice([1, -1]) * 10 ** rnd.choice([4300, 4301, 5000])          # str() raises ValueError
        if r < 0.6: return rnd.random() < 0.5
        if r < 0.9: return rstr(0 if rnd.random() < 0.2 else 1)
        return None

    def show_scalar(x):
        if x is True: return 'bT'
        if x is False: return 'bF'
        if x is None: return 'n'
        if isinstance(x, int): return 'i' + int_text(x)
        return 's' + hx(x.encode('utf-8'))

    def int_text(n):
        # decimal numeral without str(): beyond sys.int_max_str_digits as well
        if n == 0: return '0'
        sign, n, out = ('-' if n < 0 else ''), abs(n), []
        while n:
            n, d = divmod(n, 10 ** 18)
            out.append(d)
        return sign + str(out[-1]) + ''.join('%018d' % d for d in reversed(out[:-1]))

    def trepr(m):
        one = lambda x: int_text(x) if isinstance(x, int) and not isinstance(x, bool) else repr(x)
        return '{' + ', '.join(repr(k_) + ': ' + ('[' + ', '.join(one(x) for x in v) + ']' if isinstance(v, list) else one(v)) for k_, v in m.items()) + '}'

    def show_typed(m):
        if not m: return '-'
        return ';'.join(hx(k_.encode('utf-8')) + '=' + ('[' + ','.join(show_scalar(x) for x in v) + ']' if isinstance(v, list) else show_scalar(v)) for k_, v in m.items())

    def outcome(f, shown):
        try:
            r = f()
        except falcon.HTTPInvalidParam:
            return 'invalid400', None
        except falcon.HTTPMissingParam:
            return 'missing400', None
        if r is None:
            return 'default', None
        return 'value:' + shown(r), r

    def typed_get(req, key, v):
        if isinstance(v, list):
            return outcome(lambda: req.get_param_as_list(key), lambda r: '[' + ','.join(ss(x) for x in r) + ']')
        if v is True or v is False:
            return outcome(lambda: req.get_param_as_bool(key, blank_as_true=False), lambda r: 'True' if r else 'False')
        if isinstance(v, int):
            return outcome(lambda: req.get_param_as_int(key), str)
        return outcome(lambda: req.get_param(key), ss)

    for _ in range(ctx.n(3000, 40000)):
        m = {}
        for _ in range(rnd.choice([0, 1, 1, 2, 3, 4])):
            key = rstr(0 if rnd.random() < 0.1 else 1)
            if rnd.random() < 0.4:
                v = [tq_scalar() for _ in range(rnd.choice([0, 1, 1, 2, 3, 4]))]
            else:
                v = tq_scalar()
            m[key] = v
            ctx.count('tq_value_' + ('list%d' % min(len(v), 2) if isinstance(v, list) else 'none' if v is None else type(v).__name__))
        cdl, pfx = rnd.random() < 0.5, rnd.random() < 0.5
        keep_blank = rnd.random() < 0.7
        csv = cdl or rnd.random() < 0.5
        entry = rnd.choice(('wsgi', 'asgi', 'wsgi', 'asgi') + APP_ENTRIES)
        sesst.case({'kind': 'typed to_query_str', 'mapping': trepr(m)[:600], 'comma_delimited_lists': cdl, 'prefix': pfx, 'keep_blank_qs_values': keep_blank, 'auto_parse_qs_csv': csv, 'entry': entry})
        raised = None
        try:
            qs = to_query_str(m, comma_delimited_lists=cdl, prefix=pfx)
            qs0 = to_query_str(m, comma_delimited_lists=cdl, prefix=False)
        except ValueError:
            raised = 'VE'
        except Exception as e:  # noqa
            raised = 'EXC:' + type(e).__name__
        flat = [x for v in m.values() for x in (v if isinstance(v, list) else [v])]
        too_big = any(isinstance(x, int) and not isinstance(x, bool) and abs(x) >= 10 ** 4300 for x in flat)
        if raised is not None:
            sesst.op(f'tq {1 if cdl else 0} {1 if pfx else 0} {show_typed(m)}', raised)
            # str(int) is documented to raise ValueError beyond sys.int_max_str_digits: nothing else may
            ctx.oracle(TQ_ORACLE, raised == 'VE' and too_big, None if raised == 'VE' and too_big else f'to_query_str raised {raised}', {'mapping': trepr(m)[:2000], 'comma_delimited_lists': cdl})
            ctx.seen(('tq', trepr(m)[:300], cdl, pfx), True)
            ctx.count('tq_str_int_raises')
            continue
        sesst.op(f'tq {1 if cdl else 0} {1 if pfx else 0} {show_typed(m)}', hx(qs.encode('utf-8')))
        bad = None
        shown = []
        # the oracle's side conditions, on the values themselves
        def text_ok(key, x):
            return x is None or x is True or x is False or isinstance(x, int) or x != '' or (keep_blank and key != '')
        judged = all((len(v) > 0 and all(text_ok(key, x) for x in v)) if isinstance(v, list) else text_ok(key, v) for key, v in m.items())
        try:
            req = make_req(entry, qs0, keep_blank, csv)
            for key, v in m.items():
                line, got = typed_get(req, key, v)
                shown.append(line)
                if not judged or bad is not None:
                    continue
                if isinstance(v, list):
                    okv = isinstance(got, list) and len(got) == len(v) and all(isinstance(g, str) and g in texts_for(x) for g, x in zip(got, v))
                elif v is None:
                    okv = got == 'None'
                else:
                    okv = type(got) is type(v) and got == v
                if not okv:
                    bad = f'{key!r}: {trepr({key: v})} rendered in {qs0[:200]!r} ({entry}); the typed getter answered {line[:200]}'
        except Exception as e:  # noqa
            bad = f'raised {type(e).__name__}: {str(e)[:200]}'
            shown = None
        if judged:
            ctx.oracle(TQ_ORACLE, bad is None, bad, {'mapping': trepr(m)[:2000], 'comma_delimited_lists': cdl, 'keep_blank_qs_values': keep_blank, 'auto_parse_qs_csv': csv, 'entry': entry})
        ctx.seen(('tq', trepr(m)[:300], cdl, pfx, keep_blank, csv, entry), bool(m))
        ctx.count('tq_typed_' + entry + ('_judged' if judged else '_unjudged'))
        if shown is not None:
            sesst.op(f'rt {1 if cdl else 0} {1 if keep_blank else 0} {1 if csv else 0} {show_typed(m)}', ' '.join(shown) if shown else '-')
    sesst.finish()

    # ------------------------------------------------------------- the constants and int() of the getter model
    import unicodedata
    import falcon.request as frq

    def py_int(t):
        try:
            return str(int(t))
        except ValueError:
            return 'VE'

    if ctx.shard[0] == 0:
        zeros = [c for c in range(0x110000) if unicodedata.decimal(chr(c), -1) == 0]
        nd = sum(1 for c in range(0x110000) if unicodedata.decimal(chr(c), -1) >= 0)
        assert nd == 10 * len(zeros) and all(unicodedata.decimal(chr(z + i), -1) == i for z in zeros for i in range(10))
        sessg.case({'kind': 'constants: TRUE_STRINGS / FALSE_STRINGS of falcon/request.py, Unicode decimal digits, sys.int_max_str_digits'})
        sessg.op('tables', 'T ' + ','.join(sorted((ss(x) for x in frq.TRUE_STRINGS), key=TSORT)) + ' F ' + ','.join(sorted((ss(x) for x in frq.FALSE_STRINGS), key=FSORT))
                 + ' Z ' + ','.join(map(str, zeros)) + ' MAXDIGITS ' + str(sys.get_int_max_str_digits()))
        sessg.case({'kind': 'constants: the code points int() strips = str.isspace() minus the ASCII separators 0x1c-0x1f'})
        sessg.op('intws 0 1114112', 'W ' + ','.join(str(c) for c in range(0x110000) if chr(c).isspace() and not 28 <= c <= 31))
        for nd_, sign in ((4299, ''), (4300, ''), (4301, ''), (4300, '-'), (4301, '+'), (4301, ' ')):
            for d in ('9', '0', '1_', '٣'):
                t = sign + (d * nd_).rstrip('_')
                sessg.case({'kind': 'int() digit limit', 'digits': nd_, 'digit': d, 'sign': sign})
                sessg.op('pyint ' + ss(t), py_int(t))
    # int() on every code point (quick: all below 0x3100, the neighbourhood of every digit block, a sample of the rest)
    i, k = ctx.shard
    if ctx.quick:
        cps = set(range(0x3100)) | {z + d for z in [c for c in range(0x3100, 0x110000) if unicodedata.decimal(chr(c), -1) == 0] for d in range(-2, 12)}
        cps |= {rnd.randrange(0x3100, 0x110000) for _ in range(4000)}
        cps = sorted(cps)
    else:
        cps = range(0x110000)
    for c in cps:
        if c % k != i:
            continue
        ch = chr(c)
        sessg.case({'kind': 'int() per code point', 'code_point': c})
        for t in (ch, ch + '5', '5' + ch, '1' + ch + '2', '-' + ch, ch + '-5'):
            sessg.op('pyint ' + ss(t), py_int(t))
        ctx.count('int_code_point')
    # int() grammar: every string up to length 4 (5) over signs, digits of two scripts, underscore, stripped and unstripped spaces, junk
    IA = ['0', '7', '_', '+', '-', ' ', '\x1c', '\xa0', '٣', 'x', '\u2003']
    idx = 0
    for n in range((4 if ctx.quick else 5) + 1):
        for tup in itertools.product(IA, repeat=n):
            if idx % k == i:
                t = ''.join(tup)
                sessg.case({'kind': 'int() grammar', 'text': t})
                sessg.op('pyint ' + ss(t), py_int(t))
                ctx.count('int_grammar')
            idx += 1
    sessg.finish()


LEVEL_TEXT = ('Machine-checked proofs (Lean 4), all for unbounded inputs: the parse_query_string model equals the form-urlencoded reference reading for every byte string and option setting '
              '(parseQS_eq_ref) on top of the proved decoder (all code paths of uri.decode = reference; decode(encode_value(s)) = s); the typed getters get_param, get_param_as_int (with a model of int() on all code points), '
              'get_param_as_bool and get_param_as_list are transcribed statement by statement and proved, for every mapping and all arguments, to use the last occurrence, to honour min/max exactly (0 included), '
              'to follow required/default/store exactly (store[name] = value and nothing else), to have only the documented outcomes (the F06 IndexError exit is unreachable), and to read booleans by the documented table - '
              'also composed with parseQS_eq_ref into statements about the raw query string; to_query_str is modelled and parse(to_query_str(m)) = m is proved for every well-formed mapping, with a witness that each side condition is needed. '
              'Model = code is checked on every run by a complete enumeration of every string up to length 4/5 over a 10-letter alphabet x 4 option settings through uri.parse_query_string, falcon.Request and falcon.asgi.Request, and in rotation through the other entry points that create a request (WSGI app call, ASGI app on http and websocket scopes with the options configured on app.req_options, constructors without options), '
              'by about a million getter calls (result and store), by int() on every code point and by to_query_str renderings, all compared with the compiled Lean model (correspondence), and independently with a reference parser and reference conversions (oracle).')
LEVEL_NOTE = ('Not proved: get_param_as_float / _as_uuid / _as_datetime / _as_date / _as_json (float() and library parsers are not modelled; checked against the same CPython functions by the oracle) and the UTF-8 replacement decoder has no separate specification. '
              'Trusted: float/UUID/strptime/json as reference conversions; the Unicode digit table and the int digit limit are those of the running interpreter.')
TECHNIQUE = 'Lean 4 proofs (parser = reference, typed getters, to_query_str round trip; all unbounded) + exhaustive-bounded differential correspondence (model vs code, 8 entry points incl. WSGI / ASGI http / ASGI websocket app calls under the configured req_options, getters with store, int() per code point) + independent reference-parser and getter oracle'

"""C09 - typed request-header accessors agree with the RFC reading or answer 400."""
PROP = 'C09'
LEAN_MODULES = ['FalconModel.HeaderParsersProofs', 'FalconModel.ForwardedProofs', 'FalconModel.CookiesProofs', 'FalconModel.ReqDatesProofs', 'FalconModel.ReqUrlProofs']
DRIVERS = ['hpdriver', 'fwdriver', 'rudriver']
THEOREMS = [
    'Hp.pyInt_toDigits', 'Hp.pyInt_nonneg_of_no_minus',
    'Hp.contentLength_digits', 'Hp.contentLength_ok_nonneg', 'Hp.contentLengthB_digits', 'Hp.contentLengthB_ok_nonneg',
    'Hp.range_first_last', 'Hp.range_first_open', 'Hp.range_suffix', 'Hp.range_invalid_order_is_400', 'Hp.range_ok_shape',
    'Hp.rangeUnit_of_valid',
    'Hp.parseHost_bare', 'Hp.parseHost_name_port', 'Hp.parseHost_name_empty_port',
    'Hp.parseHost_ipv6_port', 'Hp.parseHost_ipv6_bare',
    'Hp.loads_dumps', 'Hp.parseEtags_single', 'Hp.parseEtags_list', 'Hp.parseEtags_star',
    # Forwarded / access_route (Forwarded.lean, ForwardedProofs.lean)
    'Fw.matchPair_render', 'Fw.unq3_eq_gen', 'Fw.unquoteString_quoted', 'Fw.procValue_render', 'Fw.parseGo_fuel',
    'Fw.run_param', 'Fw.run_elem', 'Fw.forwarded_render_parse', 'Fw.elemOf_eq_rfc', 'Fw.forwarded_valid_eq_rfc',
    'Fw.routeHost_node', 'Fw.finishRoute_last', 'Fw.finishRoute_append', 'Fw.finishRoute_nil_wsgi', 'Fw.accessRoute_valid', 'Fw.memo_idempotent',
    # Cookie (Cookies.lean, CookiesProofs.lean)
    'Ck.stepToken_render', 'Ck.parseCookieHeader_render', 'Ck.lookup_insertVal', 'Ck.cookie_valid_eq_rfc', 'Ck.cookies_first_value', 'Ck.cookies_has_name',
    'Ck.cUnquote_plain', 'Ck.unq_oct', 'Ck.unquote_quote', 'Ck.cUnquote_quote',
    # HTTP-dates (ReqDates.lean, ReqDatesProofs.lean; calendar and rendering reused from Cw)
    'Dt.date_format_parse', 'Dt.date_below_1000_unpadded_not_read_back', 'Dt.dtToHttp_eq_unpadded', 'Dt.date_tz_independent', 'Dt.scan_zone_gmt', 'Dt.date_weekday_not_checked', 'Dt.date_weekday_not_checked_imf', 'Dt.date_any_weekday',
    'Dt.httpDateToDt_valid', 'Dt.rfc850_parse', 'Dt.asctime_parse', 'Dt.rfc850_rejected_without_obs', 'Dt.asctime_rejected_without_obs',
    'Dt.req_date_accessors', 'Dt.getHeaderAsDatetime_required', 'Dt.req_date_reads_response_date', 'Dt.reqDate_ok_valid', 'Dt.obs_forms_rejected_by_properties',
    'Cw.ord2ymd_spec', 'Cw.parseDate_imfDate', 'Cw.weekdayOfOrd_succ', 'Cw.weekday_epoch',
    # URL composition (ReqUrl.lean, ReqUrlProofs.lean)
    'Ru.uri_eq_prefix_path_query', 'Ru.uri_eq_prefix_relative', 'Ru.prefix_relative_eq', 'Ru.uri_eq', 'Ru.forwarded_uri_eq', 'Ru.forwarded_eq_plain',
    'Ru.forwarded_scheme_precedence', 'Ru.forwarded_host_precedence', 'Ru.xforwarded_ignored_with_forwarded', 'Ru.forwarded_valid_eq_rfc',
    'Ru.subdomain_spec', 'Ru.netloc_omits_default_port_only_without_host_header', 'Ru.asgi_netloc_omits_default_port_only_without_host_header',
    'Ru.initPath_ne_nil', 'Ru.initPath_strip', 'Ru.initPath_keep', 'Ru.initPath_root',
    'Ru.access_fresh', 'Ru.run_fresh', 'Ru.run_new', 'Ru.memo_idempotent',
    'Ru.wsgi_forwarded_core', 'Ru.asgi_forwarded_core', 'Ru.intDec_443', 'Ru.intDec_80', 'Ru.agree_netloc', 'Ru.wsgi_asgi_core', 'Ru.wsgi_asgi_agree',
]
STATEMENTS = {
    'Hp.pyInt_toDigits': "Python int() of the decimal representation of n is n",
    'Hp.range_first_last': "for every unit without '=' and first <= last: Range 'unit=first-last' reads (first, last)",
    'Hp.range_first_open': "'unit=first-' reads (first, -1)",
    'Hp.range_suffix': "'unit=-n' with n > 0 reads (-n, -1)",
    'Hp.range_invalid_order_is_400': "'unit=first-last' with last < first is the 400-class HTTPInvalidHeader outcome",
    'Hp.range_ok_shape': "whatever the header value, a returned (first, last) satisfies 0 <= first and (last = -1 or first <= last), or first < 0 and last = -1 (what _set_range relies on)",
    'Hp.contentLength_ok_nonneg': 'a returned Content-Length is never negative',
    'Hp.parseHost_name_port': "reg-name/IPv4 'name:port' (no ':' in name, not starting with '[') splits into name and the numeric port",
    'Hp.parseHost_ipv6_port': "'[addr]:port' (no ']' in addr) gives addr and the numeric port; without port the default",
    'Hp.loads_dumps': 'ETag.loads(ETag.dumps(t)) = t for every opaque tag without a double quote',
    'Fw.matchPair_render': "the native scanner standing for _FORWARDED_PAIR_RE matches name=value (token name; token value or quoted-string with any mix of qdtext and quoted-pairs) exactly up to the end of the value, provided the next character is not a tchar",
    'Fw.unq3_eq_gen': "the two fast paths of unquote_string (no backslash; no double backslash) return what the general split/replace/join path returns, for every string",
    'Fw.unquoteString_quoted': "unquote_string of a quoted-string is the sequence of characters its positions denote (a quoted-pair denotes its second character), for every list of qdtext / quoted-pair positions",
    'Fw.parseGo_fuel': "the element loop advances on every iteration: any two iteration budgets >= len(header) give the same result, so len(header) iterations model the unbounded while loop",
    'Fw.forwarded_render_parse': "for every list of non-empty forwarded-elements built from the grammar (any token as parameter name, token or quoted-string values, optional blanks around pairs, ';' between pairs, ',' between elements) _parse_forwarded_header returns exactly one Forwarded object per element, in order, built pair by pair (repeated parameter: last wins)",
    'Fw.forwarded_valid_eq_rfc': "if in addition the parameter names of each element are pairwise distinct case-insensitively (RFC 7239), src/dest/host are the un-escaped for/by/host values, scheme is the proto value in lower case, absent parameters are None and unknown parameters are ignored",
    'Fw.routeHost_node': "for every node 'name', 'name:port', '[v6]' or '[v6]:port' whose port text is numeric, obfuscated or anything else without ':' and ']', the access-route entry is the bare name (port and brackets dropped), whether parse_host succeeds or the ValueError fallback runs",
    'Fw.accessRoute_valid': "for a grammatical Forwarded header whose for values are such nodes, access_route is the list of node names in order (elements without for skipped) followed by remote_addr unless it equals the last entry; X-Forwarded-For / X-Real-IP are ignored; WSGI and ASGI",
    'Fw.memo_idempotent': "the second access of access_route returns the first result, which is a fresh computation, and leaves the memo cell unchanged",
    'Ck.parseCookieHeader_render': "for every cookie-string of valid pairs (token names, cookie-octet values bare or between DQUOTEs, any white space after ';') _parse_cookie_header enters every pair in order, quoted values without their DQUOTEs",
    'Ck.cookie_valid_eq_rfc': "for such a cookie-string get_cookie_values(name) is the list of all values given for that name in header order, and None if the name does not occur",
    'Ck.cookies_first_value': "req.cookies[name] is the first value given for the name",
    'Ck.cookies_has_name': "the keys of req.cookies are exactly the names occurring in the header",
    'Ck.unquote_quote': "for every Latin-1 string and every set of legal characters, http.cookies._unquote's scanner inverts _quote-style escaping (backslash before '\"' and '\\', three-digit octal escapes for the rest)",
    'Dt.date_format_parse': "for every date-time a datetime object can hold (1 <= year <= 9999, 1 <= month <= 12, 1 <= day <= days in that month, hour <= 23, minute, second <= 59), in a process with any time zone names (each of three or more letters), http_date_to_dt(dt_to_http(d)) = d, with obs_date=False and True",
    'Dt.date_below_1000_unpadded_not_read_back': "regression witness for F37 (fixed by 8cb1d9b): with the rendering dt_to_http used before the fix (the C library's %Y, which glibc does not pad) every valid date-time before the year 1000 gave a text that http_date_to_dt rejects, because strptime's %Y demands exactly four digits",
    'Dt.dtToHttp_eq_unpadded': "from the year 1000 on the zero-padded rendering equals the old strftime('%Y') rendering",
    'Dt.date_tz_independent': "without obs_date (req.date, if_modified_since, if_unmodified_since, get_header_as_datetime) the result of http_date_to_dt does not depend on the process time zone: the fields are taken as read and labelled UTC",
    'Dt.scan_zone_gmt': "whatever zone names the process time zone adds to %Z (three or more letters each, alternatives ordered longest first as _strptime does), 'GMT' at the end of the value is matched completely",
    'Dt.date_weekday_not_checked': "for any two of the seven day names and any continuation that does not start with a letter or digit, http_date_to_dt gives the same result (obs_date or not): the day name is parsed but never compared with the date",
    'Dt.date_weekday_not_checked_imf': "without obs_date the result is independent of the day name for every continuation whatsoever",
    'Dt.date_any_weekday': "a rendered IMF-fixdate with its day name replaced by any of the seven reads as the same date-time",
    'Dt.httpDateToDt_valid': "whatever http_date_to_dt returns (any input string, any of the five formats) is a real calendar date and time of day with 1 <= year <= 9999",
    'Dt.rfc850_parse': "with obs_date=True the RFC 850 rendering (full day name, two-digit year) of every valid date-time in 1969..2068 reads back as that date-time (POSIX pivot: 00-68 -> 20xx, 69-99 -> 19xx)",
    'Dt.asctime_parse': "with obs_date=True the asctime rendering (day padded with a space, four-digit year) of every valid date-time reads back as that date-time",
    'Dt.req_date_accessors': "req.date / if_modified_since / if_unmodified_since are get_header_as_datetime(header): None if absent, the date-time if http_date_to_dt (IMF-fixdate format only) accepts the value, otherwise HTTPInvalidHeader (400)",
    'Dt.req_date_reads_response_date': "a date header written with dt_to_http (what resp.last_modified / expires do) is read by the three properties as the same date-time (every year 1..9999)",
    'Dt.obs_forms_rejected_by_properties': "known finding F30 as a theorem: for every valid date-time the RFC 850 and asctime renderings are answered with 400 by the three properties, while get_header_as_datetime(..., obs_date=True) returns the date-time",
    'Cw.ord2ymd_spec': "_ord2ymd inverts _ymd2ord on every day number >= 1 and returns a real month and day (the proleptic Gregorian calendar used for the day name)",
    'Ru.uri_eq_prefix_path_query': "req.uri = req.prefix + req.path [+ '?' + req.query_string when it is not empty]",
    'Ru.uri_eq_prefix_relative': "req.uri = req.prefix + req.relative_uri holds if and only if root_path is empty (both prefix and relative_uri contain root_path)",
    'Ru.forwarded_uri_eq': "forwarded_uri = forwarded_scheme + '://' + forwarded_host + relative_uri = forwarded_prefix + path [+ '?' + query]",
    'Ru.forwarded_eq_plain': "without Forwarded, X-Forwarded-Proto and X-Forwarded-Host the forwarded_* properties equal scheme, netloc, prefix and uri",
    'Ru.forwarded_scheme_precedence': "forwarded_scheme is: the first Forwarded element's proto (or the own scheme if it has none / is empty / there is no element) when a Forwarded header is present; else X-Forwarded-Proto lower-cased; else the own scheme",
    'Ru.forwarded_host_precedence': "forwarded_host is: the first Forwarded element's host (or netloc if none / empty / no element) when a Forwarded header is present; else X-Forwarded-Host verbatim; else netloc",
    'Ru.xforwarded_ignored_with_forwarded': "whenever a Forwarded header is present, forwarded_scheme and forwarded_host do not depend on X-Forwarded-Proto / X-Forwarded-Host at all",
    'Ru.forwarded_valid_eq_rfc': "for every Forwarded header built from the RFC 7239 grammar with distinct parameter names per element, forwarded_scheme is the first element's proto value in lower case and forwarded_host its host value (own scheme / netloc when absent or empty)",
    'Ru.subdomain_spec': "subdomain is the text of host before its first '.', None if host has no '.', and a 400 exactly when host is one",
    'Ru.netloc_omits_default_port_only_without_host_header': "WSGI: with a Host header netloc is that header verbatim (an explicit :80 / :443 stays); without one it is SERVER_NAME followed by ':' + SERVER_PORT unless the port text is '443' under https resp. '80' under any other scheme",
    'Ru.asgi_netloc_omits_default_port_only_without_host_header': "ASGI: the same with the server's integer port, wss counting as secure; no server entry in the scope gives 'localhost' without port",
    'Ru.access_fresh': "on a request object whose memo cells are consistent (each unset or holding the fresh value) every one of the thirteen properties returns what a fresh computation gives and leaves the cells consistent",
    'Ru.run_new': "any sequence of property reads on a new request object, in any order and with any repetitions, returns the fresh value at every read",
    'Ru.memo_idempotent': "for each property and every state of the six memo cells: reading it a second time returns the first result and leaves all cells unchanged",
    'Ru.wsgi_asgi_agree': "if a WSGI environ and an ASGI scope describe the same request (same scheme other than wss, Host header, server name, SERVER_PORT = str(port), root path, path, query, Forwarded / X-Forwarded-* headers) every sequence of reads of the thirteen properties returns the same values on falcon.Request and falcon.asgi.Request",
    'Hp.parseEtags_list': "for a comma-separated list of two or more serialized entity-tags (opaque tags without '\"' or ','... see statement) _parse_etags returns exactly those tags with their weakness flags, in order",
}
TRUSTED = [
    "CPython int(): modelled on Latin-1 strings (strip, sign, ASCII digits, single underscores); strings of more than 4300 digits are excluded",
    "re for the entity-tag scanner and _FORWARDED_PAIR_RE (a deterministic pattern: no alternative overlaps), _COOKIE_NAME_RESERVED_CHARS, and CPython 3.12 http.cookies._unquote (its search loop) are replaced by native scanners in the models; their agreement with re/http.cookies is established by the correspondence only",
    "datetime.strptime for the five formats of http_date_to_dt: the regular expression that _strptime.TimeRE builds (CPython 3.12, C locale; %Z = utc|gmt|<lower-cased time.tzname of the process>, longest first) is replaced by a native deterministic scanner and the datetime constructor by its range checks; strftime's %a, %d, %b, %H, %M, %S are modelled for the C locale (and glibc's unpadded %Y for the pre-8cb1d9b regression witness); their agreement with CPython is established by the correspondence only",
    "the undoing of the PEP 3333 Latin-1 tunnelling of PATH_INFO (path.encode('iso-8859-1').decode('utf-8', 'replace')) and scope['query_string'].decode() are applied by the harness before the model sees path and query string",
    "str.lower() is modelled on Latin-1 (A-Z and 0xC0-0xDE except 0xD7 move by 32)",
]
ASSUMPTIONS = [
    'header values are Latin-1 strings (what WSGI/ASGI can deliver); suffix-length 0 ("bytes=-0") is outside the comparable domain: the (first, last) API cannot represent it and Falcon answers 400',
    'quoted cookie values: RFC 6265 leaves open whether the DQUOTEs belong to the value; either reading is accepted',
]
RULE_EXTRA = (' HTTP-dates additionally: all five strptime formats with one- or two-digit fields, any letter case, str.isspace separators, out-of-range fields, other zone names, '
              '1-2 character edits, and dt_to_http output for years 1..9999; the worker shards run under the process time zones UTC0, CET-1, EST5, JST-9 in turn. URL composition: scheme (http, https, HTTPS, ws, wss, absent), Host header (absent, authority forms, hostile), server name / port '
              '(default and non-default, absent), root_path, path (empty, trailing slash, non-ASCII) with and without strip_url_path_trailing_slash, query string, Forwarded (absent, grammatical, hostile), '
              'X-Forwarded-Proto / X-Forwarded-Host; 4-12 property reads in random order with repetitions on one request object, then every property twice')
RULE = ('values generated from the ABNFs (Range, HTTP-date in three forms, entity-tag lists, cookie-string, Forwarded elements incl. quoted IPv6 and obfuscated node/port, '
        'Host authority forms) and from 1-2 character edits of valid values and of a hostile seed list; header names in random casing; WSGI and ASGI request objects; '
        'every accessor is read twice; non-trivial = at least one accessor returned a non-None value or a 400.' + RULE_EXTRA)
PARTIAL = ('proved cores: Content-Length, Range/range_unit, parse_host (host/port), ETag loads/dumps and _parse_etags, Forwarded (_parse_forwarded_header, unquote_string), '
           'access_route (all three header sources modelled; the theorem covers the Forwarded source), Cookie (_parse_cookie_header, _unquote, cookies, get_cookie_values), '
           'HTTP-dates (http_date_to_dt with all five strptime formats, dt_to_http, get_header_as_datetime, date / if_modified_since / if_unmodified_since), and URL composition '
           '(scheme, netloc, host, root_path, forwarded_scheme, forwarded_host, prefix, forwarded_prefix, uri/url, forwarded_uri, relative_uri, subdomain with the six memo cells, WSGI and ASGI). '
           'Not proved: a characterisation of ALL strings http_date_to_dt accepts (the theorems cover the rendered forms, the day name, and validity of every returned value; lenient spellings are tied by the '
           'correspondence and shown by examples); that every Forwarded element has a lower-case scheme for non-grammatical headers; the accept checks (client_accepts*, decided by the independent '
           'RFC-level oracle only); content_type / user_agent / referer / auth / expect / if_range are plain header reads (oracle: case-insensitive lookup). '
           'F37 (dates before the year 1000 did not read back) is fixed in /repo (8cb1d9b); the old rendering is kept as a regression witness theorem.')
JOBS = {'quick': 4, 'thorough': 16}
LEVEL_TEXT = ('Lean 4 theorems on the modelled accessor cores (Content-Length, Range, parse_host/host/port, entity tags, Forwarded elements, access_route, cookies, HTTP-dates, URL composition): valid values read as the RFC says '
              '(every header built from the RFC 7239 / RFC 6265 grammars is parsed into exactly its elements / name->values mapping, by induction over the element and pair lists), invalid order is a 400, '
              'every returned range has the documented shape; http_date_to_dt inverts dt_to_http on every date-time (years 1..9999, any process time zone) and ignores the day name; uri = prefix + path [?query], forwarded_* take Forwarded before X-Forwarded-* before the '
              "request's own values, the memo cells never change a value in any sequence of reads, and WSGI and ASGI compose the same URL from agreeing inputs; the models are tied to falcon/request.py, falcon/asgi/request.py, falcon/forwarded.py, falcon/util/uri.py, falcon/util/misc.py, falcon/util/structures.py and "
              'falcon/request_helpers.py by a differential correspondence on both request classes. All listed accessors (incl. dates, cookies, Forwarded, URL composition) are additionally '
              'judged by an independent RFC-level oracle: valid input -> RFC value, repeated access stable, only 400-class errors. Partial: see PARTIAL in the evidence.')
LEVEL_NOTE = 'Trusted: Lean kernel; CPython int()/re/strptime as described; the oracle parsers written from the RFCs.'
TECHNIQUE = 'Lean 4 theorems on parser models + differential correspondence + independent RFC-level oracle'


def run(ctx):
    import asyncio
    import os
    import time
    # part of the shards run under a non-UTC process time zone: no accessor may depend on it (the harness's own reference values
    # are built from aware UTC datetimes, calendar.monthrange and literal strings only)
    tz = ['UTC0', 'CET-1', 'EST5', 'JST-9'][ctx.shard[0] % 4]
    os.environ['TZ'] = tz; time.tzset(); ctx.count('process_tz_' + tz)
    import calendar
    import datetime as dtm
    import string
    from runner import hx
    import falcon
    import falcon.asgi
    import falcon.testing as ft
    from falcon.util import uri as furi
    from falcon.util.structures import ETag
    from falcon import request_helpers as rh
    rnd = ctx.rng

    def hs(s):  # Latin-1 str -> hex
        return hx(s.encode('latin-1'))

    # ------------------------------------------------------------ generators
    TOKEN = string.ascii_letters + string.digits + "!#$%&'*+-.^_`|~"
    ETAGC = ''.join(chr(c) for c in range(0x21, 0x7f) if chr(c) not in '"') + '\xe9\xff'
    QDTEXT = '\t !' + ''.join(chr(c) for c in range(0x23, 0x7f) if c != 0x5c)
    COOKIE_OCTET = ''.join(chr(c) for c in range(0x21, 0x7f) if chr(c) not in '",;\\')

    def num(maxd=6, lead0=True):
        s = str(rnd.randrange(10 ** rnd.randint(1, maxd)))
        if lead0 and rnd.random() < 0.15:
            s = '0' * rnd.randint(1, 2) + s
        return s

    def gen_range():
        unit = rnd.choice(['bytes', 'bytes', 'bytes', 'items', ''.join(rnd.choice(TOKEN.replace('=', '')) for _ in range(rnd.randint(1, 5)))])
        k = rnd.random()
        if unit != 'bytes' and rnd.random() < 0.3:
            # an other-range whose range-set itself contains '=' (RFC 9110 14.1.1: other-range = 1*VCHAR after the first '='): the unit
            # is what precedes the FIRST '='
            return f"{unit}={rnd.choice(['chapter=2', 'a=b=c', '=', '==1-2', 'x=1-2', '1-2='])}", unit, 'skip'
        if k < 0.4:
            a, b = num(), num()
            r = rnd.random()
            if r < 0.25: b = a                                   # boundary: a one-byte range (first-pos == last-pos) is valid
            elif r < 0.4: b = str(int(a) + rnd.choice([-1, 1]))   # just below (invalid unless negative) / just above
            if int(b) < 0: b = '0'
            exp = (int(a), int(b)) if int(a) <= int(b) else 'bad'
            return f'{unit}={a}-{b}', unit, exp
        if k < 0.7:
            a = num(); return f'{unit}={a}-', unit, (int(a), -1)
        b = num()
        if int(b) == 0:
            return f'{unit}=-{b}', unit, 'skip'
        return f'{unit}=-{b}', unit, (-int(b), -1)

    MON = ['Jan', 'Feb', 'Mar', 'Apr', 'May', 'Jun', 'Jul', 'Aug', 'Sep', 'Oct', 'Nov', 'Dec']
    DAY = ['Mon', 'Tue', 'Wed', 'Thu', 'Fri', 'Sat', 'Sun']
    DAYL = ['Monday', 'Tuesday', 'Wednesday', 'Thursday', 'Friday', 'Saturday', 'Sunday']

    def gen_date(obs=True):
        y = rnd.choice([1970, 1994, 1999, 2000, 2024, rnd.randint(1900, 9999)])
        m = rnd.randint(1, 12); d = rnd.randint(1, calendar.monthrange(y, m)[1])
        H, M, S = rnd.randint(0, 23), rnd.randint(0, 59), rnd.randint(0, 59)
        dt = dtm.datetime(y, m, d, H, M, S, tzinfo=dtm.timezone.utc)
        wd = dt.weekday()
        form = rnd.choice(['imf', 'imf', 'imf', 'rfc850', 'asctime']) if obs else 'imf'
        if form == 'rfc850' and not (1969 <= y <= 2068):
            form = 'imf'
        if form == 'imf':
            return f'{DAY[wd]}, {d:02d} {MON[m-1]} {y:04d} {H:02d}:{M:02d}:{S:02d} GMT', dt, form
        if form == 'rfc850':
            return f'{DAYL[wd]}, {d:02d}-{MON[m-1]}-{y % 100:02d} {H:02d}:{M:02d}:{S:02d} GMT', dt, form
        return f'{DAY[wd]} {MON[m-1]} {d:2d} {H:02d}:{M:02d}:{S:02d} {y:04d}', dt, form

    def gen_etags():
        if rnd.random() < 0.1:
            return '*', ['*']
        n = rnd.choice([1, 1, 2, 3, 4])
        tags = []
        for _ in range(n):
            v = ''.join(rnd.choice(ETAGC) for _ in range(rnd.randint(0, 6)))
            tags.append((v, rnd.random() < 0.4))
        if n > 1:
            tags = [(v.replace(',', 'c'), w) if rnd.random() < 0.5 else (v, w) for v, w in tags]
        sep = rnd.choice([', ', ',', ' , ', ',  '])
        return sep.join(('W/' if w else '') + '"' + v + '"' for v, w in tags), tags

    def gen_cookie():
        n = rnd.randint(1, 4); pairs = []
        for _ in range(n):
            name = ''.join(rnd.choice(string.ascii_letters + string.digits + '_-.') for _ in range(rnd.randint(1, 5)))
            val = ''.join(rnd.choice(COOKIE_OCTET) for _ in range(rnd.randint(0, 6)))
            q = rnd.random() < 0.2
            pairs.append((name, val, q))
        return '; '.join(f'{n}="{v}"' if q else f'{n}={v}' for n, v, q in pairs), pairs

    def gen_node():
        k = rnd.random()
        if k < 0.35: host = '.'.join(str(rnd.randint(0, 255)) for _ in range(4)); quoted = False; br = host
        elif k < 0.6: host = rnd.choice(['2001:db8:cafe::17', '::1', 'fe80::1']); quoted = True; br = '[' + host + ']'
        elif k < 0.8: host = '_' + ''.join(rnd.choice(string.ascii_letters + string.digits + '._-') for _ in range(rnd.randint(1, 6))); quoted = False; br = host
        else: host = 'unknown'; quoted = False; br = host
        port = rnd.choice([None, None, str(rnd.randint(0, 65535)), '_' + ''.join(rnd.choice(string.ascii_letters) for _ in range(3))])
        s = br if port is None else br + ':' + port
        if quoted or port is not None or rnd.random() < 0.2:
            return '"' + s + '"', s, host
        return s, s, host

    def gen_forwarded():
        elems = []; exp = []
        for _ in range(rnd.randint(1, 3)):
            pairs = []; e = {'src': None, 'dest': None, 'host': None, 'scheme': None, 'srchost': None}
            keys = rnd.sample(['for', 'by', 'host', 'proto'], rnd.randint(1, 4))
            for k in keys:
                kk = ''.join(rnd.choice([c.lower(), c.upper()]) for c in k)
                if k == 'for':
                    tok, val, h = gen_node(); e['src'] = val; e['srchost'] = h
                elif k == 'by':
                    tok, val, h = gen_node(); e['dest'] = val
                elif k == 'host':
                    if rnd.random() < 0.5:
                        val = rnd.choice(['example.com', 'a.b.example:8080', 'h']); tok = val if ':' not in val else '"' + val + '"'
                    else:
                        # any quoted-string (RFC 9110 5.6.4): qdtext = HTAB / SP / %x21 / %x23-5B / %x5D-7E, and quoted-pairs
                        val = ''.join(rnd.choice(QDTEXT + '"\\') for _ in range(rnd.randint(1, 8)))
                        tok = '"' + ''.join(('\\' + c) if (c in '"\\' or rnd.random() < 0.1) else c for c in val) + '"'
                    e['host'] = val
                else:
                    val = rnd.choice(['http', 'https']); tok = val; e['scheme'] = val
                pairs.append(kk + '=' + tok)
            elems.append(rnd.choice([';', '; ']).join(pairs) if rnd.random() < 0.9 else ';'.join(pairs)); exp.append(e)
        # RFC 9110 5.6.1 list rule: elements are separated by OWS "," OWS, and OWS = *( SP / HTAB )
        return rnd.choice([', ', ',', ', ', ',\t', ' ,', '\t,\t', ', \t', ' \t, ']).join(elems), exp

    def gen_ip():
        return rnd.choice(['.'.join(str(rnd.randint(0, 255)) for _ in range(4)), '127.0.0.1', '2001:db8::1', 'unknown'])

    def gen_xff():
        ips = [gen_ip() for _ in range(rnd.randint(1, 3))]
        return rnd.choice([', ', ',', ' ,\t']).join(ips), ips

    def gen_cookie_esc():
        """cookie pairs as old user agents send them: quoted values with backslash / octal escapes, odd spacing, repeated and bad names"""
        pairs = []
        for _ in range(rnd.randint(1, 4)):
            name = rnd.choice(['a', 'b', 'SID', 'x-y', 'a b', 'n(', '', 'a'])
            body = ''.join(rnd.choice(['x', '1', ' ', ',', '\\"', '\\\\', '\\101', '\\3', '\\377', '\\400', '\\;', '\\n', '\\\n', '\\', '"', '=']) for _ in range(rnd.randint(0, 5)))
            val = rnd.choice(['"' + body + '"', '"' + body + '"', body, '""', '"'])
            pairs.append(rnd.choice(['', ' ', '  ']) + name + rnd.choice(['=', '=', ' = ', '']) + val)
        return rnd.choice([';', '; ', ' ;']).join(pairs)

    MTYPES = ['application/json', 'application/xml', 'text/html', 'text/plain', 'application/x-msgpack', 'image/png']

    def gen_accept():
        """An Accept header from the media-range grammar (no parameters other than q) and its ranges [(type, subtype, q)]."""
        ranges = []
        for _ in range(rnd.randint(1, 4)):
            k = rnd.random()
            if k < 0.3: t, st = '*', '*'
            elif k < 0.5: t, st = rnd.choice(MTYPES).split('/')[0], '*'
            else: t, st = rnd.choice(MTYPES).split('/')
            q = rnd.choice([None, None, '1', '1.0', '0', '0.0', '0.000', '0.5', '0.8', '0.001', '.5'])
            ranges.append((t, st, q))
        sep = rnd.choice([', ', ','])
        return sep.join(f'{t}/{st}' + ('' if q is None else rnd.choice([';q=', '; q=', ';Q=']) + q) for t, st, q in ranges), ranges

    def rfc_accepts(ranges, media):
        """RFC 9110 12.5.1: the most specific matching range decides; q=0 means not acceptable."""
        mt, ms = media.split('/')
        best = None
        for t, st, q in ranges:
            if t == '*' and st == '*': spec = 0
            elif t == mt and st == '*': spec = 1
            elif t == mt and st == ms: spec = 2
            else: continue
            qv = 1.0 if q is None else float(q)
            if best is None or spec > best[0] or (spec == best[0] and qv > best[1]): best = (spec, qv)
        return best is not None and best[1] > 0

    def gen_host():
        k = rnd.random()
        if k < 0.5: h = rnd.choice(['example.com', 'a.b-c.example', 'localhost', '192.0.2.7', 'x']); lit = h
        else: h = rnd.choice(['::1', '2001:db8::1', 'fe80::a:b']); lit = '[' + h + ']'
        p = rnd.choice([None, None, '', str(rnd.randint(0, 65535)), '0080', rnd.choice(['0', '00', '1', '80', '443', '65535', '000000', '0000080'])])   # boundary ports: RFC 3986 port = *DIGIT, 0 is a port
        return (lit if p is None else lit + ':' + p), h, (None if not p else int(p))

    HOSTILE = {
        'Host': ['h:\x1c80', 'h:80\x85', 'example.com:abc', 'a:b:c', '[::1', '::1]:8', ':80', '[]:1', 'x:\xb3', 'h:1_0', 'h:+80', 'h: 8 ', 'h:-1'],
        'Content-Length': ['', 'x', '-1', ' 7 ', '\x1c5', '5\x1f', '\x855', '\x0b5\x0c', '1_0', '+3', '1e3', '\xb2', '0x10', '9' * 40],
        'Range': ['bytes=\x1c1-2', 'bytes=1-\x1f2', 'bytes=\x851-2', 'bytes=a-b', 'bytes=1-2,3-4', 'bytes', '=', 'bytes=', 'bytes=-', 'bytes=--1', 'bytes= 1 - 2 ', 'bytes=1_0-2_0', 'bytes=5-+9', 'bytes=-0', 'bytes=5-3', '=1-2', 'bytes==1-2', 'bytes=1-2=', 'bytes=\xa01-2'],
        'If-Match': ['', 'w/"x"', '"unterminated', 'W/', '"a",,"b"', ', ,', 'W/"a", b', 'a, "b"', '"', 'W/"', '"a" "b"'],
        'If-None-Match': [' ', '*, "a"', '"a", *'],
        'If-Modified-Since': ['garbage', 'Sun, 06 Nov 1994 08:49:37 UTC', 'Sun, 32 Nov 1994 08:49:37 GMT', 'Sun, 06 Nov 10000 08:49:37 GMT', '', 'Sun, 06 Nov 1994 24:00:00 GMT', 'Sun, 06 Nov 1994 08:49:37 EST'],
        'Cookie': ['a=1; a=2', 'a="q\\"x"; b', '=x;;', 'a="\\101\\"";b="\\9"', 'a="', '\xe9=1', 'a=\xe9', 'a==;=', 'a="\\"', 'a=1;;b=2', 'a'],
        'Forwarded': ['garbage;;,', 'for="[::1"', 'for=1.2.3.4:65536', 'for="a\\"b"', 'for=;', 'for="1.2.3.4:"', 'for=unknown, for=_hidden', 'for', '=', 'for="', 'for=a;;by=b'],
        'X-Forwarded-For': ['1.1.1.1, 2.2.2.2', '', ', ,', ' 10.0.0.1 ,\t127.0.0.1'],
        'X-Real-IP': ['9.9.9.9', '', ' 127.0.0.1'],
        'X-Forwarded-Proto': ['HTTPS', ''],
        'X-Forwarded-Host': ['fh.example', 'a:b'],
        'Accept': ['*/*', 'text/html;q=0.5', 'a/b;q=x', 'a', '/', ';', 'a/b;q="1"', 'a/b;"', '\\', 'application/json;q=0'],
    }
    ATTRS = ['content_length', 'host', 'port', 'netloc', 'scheme', 'forwarded_scheme', 'forwarded_host', 'subdomain', 'uri', 'url', 'relative_uri',
             'prefix', 'forwarded_uri', 'forwarded_prefix', 'accept', 'date', 'if_match', 'if_none_match', 'if_modified_since', 'if_unmodified_since',
             'if_range', 'range', 'range_unit', 'cookies', 'access_route', 'remote_addr', 'forwarded', 'client_accepts_json', 'client_accepts_xml', 'content_type', 'user_agent', 'referer', 'auth', 'expect']

    def mutate(v):
        v = list(v)
        for _ in range(rnd.randint(1, 2)):
            k = rnd.random(); i = rnd.randrange(len(v) + 1)
            if k < 0.3 and v: del v[min(i, len(v) - 1)]
            elif k < 0.7: v.insert(i, rnd.choice(' ",;=:-[]_\\\t\x00\xe9\xa0\x1c\x1f\x85W/*0a'))
            elif v: v[min(i, len(v) - 1)] = rnd.choice(' ",;=:-[]_\\\t0a')
        return ''.join(v)

    def casing(n):
        return rnd.choice([n, n.lower(), n.upper(), ''.join(rnd.choice([c.lower(), c.upper()]) for c in n)])

    # ------------------------------------------------------------ request construction (no value stripping: build env/scope directly)
    def mk_wsgi(headers, scheme='http', remote=None):
        env = ft.create_environ(path='/p/q', query_string='x=1', scheme=scheme, host='srv.example', port=8000 if scheme == 'http' else 8443)
        env.pop('HTTP_HOST', None)
        if remote is not None: env['REMOTE_ADDR'] = remote
        for n, v in headers:
            key = n.upper().replace('-', '_')
            if key in ('CONTENT_LENGTH', 'CONTENT_TYPE'): env[key] = v
            else: env['HTTP_' + key] = v
        return falcon.Request(env)

    def mk_asgi(headers, scheme='http', remote=None):
        scope = ft.create_scope(path='/p/q', query_string='x=1', scheme={'ws': 'http', 'wss': 'https'}.get(scheme, scheme), host='srv.example', port=8000 if scheme == 'http' else 8443)
        if scheme in ('ws', 'wss'):            # a WebSocket handshake: same headers, scheme ws / wss (ASGI spec)
            scope['type'] = 'websocket'; scope['scheme'] = scheme
            scope.pop('method', None)
        scope['headers'] = [(n.lower().encode('latin-1'), v.encode('latin-1')) for n, v in headers]
        if remote is not None: scope['client'] = (remote, 4711)

        async def receive():
            return {'type': 'http.request'}
        return falcon.asgi.Request(scope, receive)

    def read(req, attr):
        try:
            v = getattr(req, attr)
        except falcon.HTTPError as e:
            return ('http', int(str(e.status)[:3]))
        except Exception as e:  # noqa
            return ('EXC', type(e).__name__ + ': ' + str(e)[:80])
        if attr == 'forwarded':
            v = None if v is None else [(f.src, f.dest, f.host, f.scheme) for f in v]
        elif attr in ('if_match', 'if_none_match'):
            v = None if v is None else [('*' if not hasattr(t, 'is_weak') else (str(t), bool(t.is_weak))) for t in v]
        return ('ok', v)

    sess = ctx.session('request accessors / uri.parse_host / ETag = Hp model', 'hpdriver')

    sess2 = ctx.session('forwarded / access_route / cookies / get_cookie_values = Fw, Ck models', 'fwdriver')

    sess3 = ctx.session('http_date_to_dt / dt_to_http / date accessors / URL composition = Dt, Ru models', 'rudriver')
    # what _strptime.LocaleTime offers for %Z besides utc / gmt: the process's zone names, lower-cased
    tz_tok = ','.join(hs(n) for n in ([time.tzname[0].lower()] + ([time.tzname[1].lower()] if time.daylight else []))) or '-'

    def show_opt(v):
        return 'none' if v is None else hs(v)

    def rd_civil(d):
        return f'ok {d.year} {d.month} {d.day} {d.hour} {d.minute} {d.second}'

    def rd_dateres(r):
        return 'absent' if r == ('ok', None) else (rd_civil(r[1]) if r[0] == 'ok' else ('invalid' if r[0] == 'http' else 'EXC'))

    CODES = {'sc': 'scheme', 'nl': 'netloc', 'ho': 'host', 'rp': 'root_path', 'sd': 'subdomain', 'fw': 'forwarded', 'fs': 'forwarded_scheme',
             'fh': 'forwarded_host', 'ru': 'relative_uri', 'pf': 'prefix', 'fp': 'forwarded_prefix', 'ur': 'uri', 'fu': 'forwarded_uri'}

    def rd_val(code, r):
        if r[0] == 'http': return 'bad'
        if r[0] != 'ok': return 'EXC'
        v = r[1]
        if code == 'fw': return 'none' if v is None else 'els' + ''.join(',' + '|'.join(show_opt(x) for x in e) for e in v)
        if code == 'sd' and v is None: return 'none'
        if not isinstance(v, str) or any(ord(ch) > 255 for ch in v): return 'PY ' + repr(v).replace(' ', '_')
        return hs(v)

    # the URL properties in the order ATTRS reads them (each twice in a row; `url` is `uri`); access_route, which reads req.forwarded, comes after them
    URL_ORDER = [('ho', 'host'), ('nl', 'netloc'), ('sc', 'scheme'), ('fs', 'forwarded_scheme'), ('fh', 'forwarded_host'), ('sd', 'subdomain'), ('ur', 'uri'), ('ur', 'url'),
                 ('ru', 'relative_uri'), ('pf', 'prefix'), ('fu', 'forwarded_uri'), ('fp', 'forwarded_prefix'), ('fw', 'forwarded')]

    def rd_els(els):  # list of (src, dest, host, scheme)
        return 'els' + ''.join(' ' + '|'.join(show_opt(x) for x in e) for e in els)

    def rd_route(route):
        return 'route' + ''.join(' ' + hs(h) for h in route)

    def rd_jar(jar):
        return 'jar' + ''.join(' ' + hs(n) + '=' + ','.join(hs(v) for v in vs) for n, vs in jar.items())

    def fw_ops(req, stack, hv, obs, obs2):
        """model ops for one request object: forwarded, access_route (both accesses), cookies, get_cookie_values"""
        fv = hv.get('forwarded'); xf = hv.get('x-forwarded-for'); xr = hv.get('x-real-ip'); ck = hv.get('cookie')
        if obs['forwarded'][0] == 'ok' and fv is not None:
            sess2.op(f'forwarded {hs(fv)}', rd_els(obs['forwarded'][1]))
        if obs['access_route'][0] == 'ok' and obs2['access_route'][0] == 'ok' and obs['remote_addr'][0] == 'ok':
            sess2.op(f'route2 {1 if stack == "asgi" else 0} {show_opt(fv)} {show_opt(xf)} {show_opt(xr)} {hs(obs["remote_addr"][1])}',
                     rd_route(obs['access_route'][1]) + ' / ' + rd_route(obs2['access_route'][1]))
        if obs['cookies'][0] == 'ok':
            ckd = obs['cookies'][1]
            sess2.op(f'cookies {show_opt(ck)}', 'ck' + ''.join(' ' + hs(n) + '=' + hs(v) for n, v in ckd.items()))
            for nm in list(ckd)[:3] + ['zz']:
                try:
                    vals = req.get_cookie_values(nm); e = 'none' if vals is None else 'vals' + ''.join(' ' + hs(v) for v in vals)
                except Exception as ex:  # noqa
                    e = 'EXC ' + type(ex).__name__
                sess2.op(f'cvals {show_opt(ck)} {hs(nm)}', e)

    def rd_cl(r):
        return 'bad' if r[0] == 'http' else ('absent' if r[1] is None else f'ok {r[1]}')

    def rd_range(r):
        return 'bad' if r[0] == 'http' else ('absent' if r[1] is None else f'ok {r[1][0]} {r[1][1]}')

    def rd_unit(r):
        return 'bad' if r[0] == 'http' else ('absent' if r[1] is None else f'ok {hs(r[1])}')

    def rd_tags(r):
        if r[1] is None: return 'none'
        if r[1] == ['*']: return 'star'
        return 'tags ' + ','.join('*' if t == '*' else (('W:' if t[1] else 'S:') + hs(t[0])) for t in r[1])

    N = ctx.n(2500, 30000)
    for ci in range(N):
        mode = rnd.choice(['valid', 'valid', 'mutated', 'hostile'])
        stack = rnd.choice(['wsgi', 'asgi'])
        scheme = rnd.choice(['http', 'https'] if stack == 'wsgi' else ['http', 'https', 'http', 'https', 'ws', 'wss'])
        secure = scheme in ('https', 'wss')
        headers = []; expect = {}
        kinds = rnd.sample(['range', 'date', 'etag', 'cookie', 'forwarded', 'host', 'cl', 'accept', 'xff', 'xri'], rnd.randint(1, 4))
        if mode == 'hostile':
            names = rnd.sample(list(HOSTILE), rnd.randint(1, 4))
            headers = [(casing(n), mutate(rnd.choice(HOSTILE[n])) if rnd.random() < 0.5 else rnd.choice(HOSTILE[n])) for n in names]
        else:
            for k in kinds:
                if k == 'range':
                    v, unit, exp = gen_range(); headers.append((casing('Range'), v)); expect['range'] = exp; expect['range_unit'] = unit
                elif k == 'date':
                    name = rnd.choice(['Date', 'If-Modified-Since', 'If-Unmodified-Since'])
                    v, dt, form = gen_date(); headers.append((casing(name), v)); expect[name.lower().replace('-', '_')] = (dt, form, name)
                elif k == 'etag':
                    name = rnd.choice(['If-Match', 'If-None-Match'])
                    v, tags = gen_etags(); headers.append((casing(name), v)); expect[name.lower().replace('-', '_')] = tags
                elif k == 'cookie':
                    v, pairs = gen_cookie(); headers.append((casing('Cookie'), v)); expect['cookies'] = pairs
                elif k == 'forwarded':
                    v, exp = gen_forwarded(); headers.append((casing('Forwarded'), v)); expect['forwarded'] = exp
                elif k == 'host':
                    v, h, p = gen_host(); headers.append((casing('Host'), v)); expect['host'] = h; expect['port'] = p if p is not None else (443 if secure else 80)
                elif k == 'accept':
                    v, ranges = gen_accept(); headers.append((casing('Accept'), v)); expect['accept_ranges'] = ranges
                elif k == 'xff':
                    v, ips = gen_xff(); headers.append((casing('X-Forwarded-For'), v)); expect['xff'] = ips
                elif k == 'xri':
                    v = gen_ip(); headers.append((casing('X-Real-IP'), v)); expect['xri'] = v
                else:
                    v = num(9); headers.append((casing('Content-Length'), v)); expect['content_length'] = int(v)
            if mode == 'mutated':
                i = rnd.randrange(len(headers)); headers[i] = (headers[i][0], mutate(headers[i][1])); expect = {}
        headers = [(n, v) for n, v in headers if all(ord(c) < 256 for c in v)]
        seen_names = set(); hdrs = []
        for n, v in headers:
            if n.lower() not in seen_names:
                seen_names.add(n.lower()); hdrs.append((n, v))
        headers = hdrs
        req = mk_wsgi(headers, scheme) if stack == 'wsgi' else mk_asgi(headers, scheme)
        hv = {n.lower(): v for n, v in headers}
        failed = None; nontriv = False
        obs = {}; obs2 = {}
        for a in ATTRS:
            r1 = read(req, a); r2 = read(req, a)
            obs[a] = r1; obs2[a] = r2
            if r1[0] == 'EXC':
                failed = failed or f'req.{a} raised {r1[1]} (not a 400-class HTTP error)'
            elif r1[0] == 'http' and not (400 <= r1[1] < 500):
                failed = failed or f'req.{a} raised HTTP {r1[1]}'
            if r1 != r2 and not (r1[0] == 'ok' and r2[0] == 'ok' and repr(r1[1]) == repr(r2[1])):
                failed = failed or f'req.{a} is not stable across accesses: {r1!r} then {r2!r}'
            if r1[0] == 'http' or (r1[0] == 'ok' and r1[1] not in (None, {}, [])): nontriv = True
        # header lookup is case-insensitive
        for n, v in headers:
            for nm in (n.lower(), n.upper(), n.title()):
                try:
                    got = req.get_header(nm)
                except Exception as e:  # noqa
                    got = repr(e)
                if got != v: failed = failed or f'get_header({nm!r}) = {got!r}, sent {v!r}'
        # RFC-level expectations on valid input
        if mode == 'valid':
            for a, exp in expect.items():
                r = obs.get(a)
                if a == 'range':
                    if exp == 'skip': continue
                    if exp == 'bad':
                        if r[0] != 'http': failed = failed or f'Range {hv["range"]!r} (last < first) gave {r!r}, expected a 400'
                    elif r != ('ok', exp): failed = failed or f'Range {hv["range"]!r} read as {r!r}, RFC reading {exp!r}'
                elif a in ('date', 'if_modified_since', 'if_unmodified_since'):
                    dt, form, hname = exp
                    try:
                        full = ('ok', req.get_header_as_datetime(hname, obs_date=True))
                    except falcon.HTTPError as e:
                        full = ('http', int(str(e.status)[:3]))
                    except Exception as e:  # noqa
                        full = ('EXC', repr(e))
                    if full != ('ok', dt): failed = failed or f'get_header_as_datetime({hname!r}, obs_date=True) on {hv[hname.lower()]!r} gave {full!r}, RFC reading {dt.isoformat()}'
                    if r != ('ok', dt):
                        if form != 'imf' and r[0] == 'http':
                            ctx.oracle('http-date: all three RFC 9110 forms accepted', False, f'obs-date form ({form}) is rejected with 400 by req.{a} (only IMF-fixdate is read)', {'header': hname, 'value': hv[hname.lower()], 'stack': stack})
                        else:
                            failed = failed or f'{a} {hv[hname.lower()]!r} read as {r!r}, RFC reading {dt.isoformat()}'
                elif a in ('if_match', 'if_none_match'):
                    if r != ('ok', exp): failed = failed or f'{a} {hv[a.replace("_", "-")]!r} read as {r!r}, RFC reading {exp!r}'
                elif a == 'accept_ranges':
                    for media in MTYPES:
                        try:
                            got = req.client_accepts(media)
                        except Exception as e:  # noqa
                            got = repr(e)
                        want = rfc_accepts(exp, media)
                        if got != want: failed = failed or f'client_accepts({media!r}) with Accept {hv["accept"]!r} is {got!r}, RFC 9110 reading {want!r}'
                    for prop, media in (('client_accepts_json', 'application/json'), ('client_accepts_xml', 'application/xml')):
                        if obs[prop] != ('ok', rfc_accepts(exp, media)): failed = failed or f'{prop} with Accept {hv["accept"]!r} is {obs[prop]!r}'
                elif a == 'cookies':
                    first = {}
                    for n, v, q in exp: first.setdefault(n, (v, q))
                    if r[0] != 'ok' or set(r[1]) != set(first) or any(r[1][n] != v and not (q and r[1][n] == '"' + v + '"') for n, (v, q) in first.items()):
                        failed = failed or f'cookies {hv["cookie"]!r} read as {r!r}, RFC reading {first!r}'
                elif a == 'forwarded':
                    want = [(e['src'], e['dest'], e['host'], e['scheme']) for e in exp]
                    if r != ('ok', want): failed = failed or f'Forwarded {hv["forwarded"]!r} read as {r!r}, RFC reading {want!r}'
                    route = [e['srchost'] for e in exp if e['src'] is not None]
                    ra = obs['remote_addr'][1]
                    want_route = (route + [ra]) if (route and route[-1] != ra) else (route or [ra])
                    if obs['access_route'] != ('ok', want_route): failed = failed or f'access_route for {hv["forwarded"]!r} is {obs["access_route"]!r}, expected {want_route!r}'
                elif a in ('xff', 'xri'):
                    if 'forwarded' in expect or (a == 'xri' and 'xff' in expect): continue
                    base = exp if a == 'xff' else [exp]
                    ra = obs['remote_addr'][1]
                    want_route = base if base[-1] == ra else base + [ra]
                    if obs['access_route'] != ('ok', want_route): failed = failed or f'access_route for {hv} is {obs["access_route"]!r}, expected {want_route!r}'
                else:
                    if r != ('ok', exp): failed = failed or f'{a} for {hv}: {r!r}, RFC reading {exp!r}'
        ctx.oracle('accessors: RFC value on valid input, stable on repeat, only 400-class errors, case-insensitive lookup',
                   failed is None, failed, {'stack': stack, 'scheme': scheme, 'headers': headers, 'mode': mode, 'process_tz': tz})
        ctx.seen((stack, scheme, tuple(headers)), nontriv)
        ctx.count('mode_' + mode); ctx.count('stack_' + stack)
        # ---- model correspondence on the modelled cores
        sess.case({'stack': stack, 'headers': headers})
        clv = hv.get('content-length'); rgv = hv.get('range'); hov = hv.get('host')
        sess.op(f'{"cl" if stack == "wsgi" else "clb"} {show_opt(clv)}', rd_cl(obs['content_length']))
        sess.op(f'range {show_opt(rgv)}', rd_range(obs['range']))
        sess.op(f'unit {show_opt(rgv)}', rd_unit(obs['range_unit']))
        sess.op(f'host {show_opt(hov)} {hs("srv.example")}', 'bad' if obs['host'][0] == 'http' else 'ok ' + hs(obs['host'][1]))
        sp = 8000 if scheme == 'http' else 8443
        sess.op(f'port {show_opt(hov)} {1 if secure else 0} {sp}', 'bad' if obs['port'][0] == 'http' else f'ok {"none" if obs["port"][1] is None else obs["port"][1]}')
        for a in ('if_match', 'if_none_match'):
            v = hv.get(a.replace('_', '-'))
            if v is not None and obs[a][0] == 'ok':
                sess.op(f'etags {hs(v)}', rd_tags(obs[a]))
        if hov is not None:
            d = rnd.choice([None, 80, 443])
            try:
                h, p = furi.parse_host(hov, d); e = f'ok {hs(h)} {"none" if p is None else p}'
            except ValueError:
                e = 'valueError'
            sess.op(f'phost {hs(hov)} {"none" if d is None else d}', e)
        sess2.case({'stack': stack, 'headers': headers})
        fw_ops(req, stack, hv, obs, obs2)
        # ---- dates and URL composition of the same request object (the memo cells see the reads in ATTRS order)
        sess3.case({'stack': stack, 'scheme': scheme, 'headers': headers})
        for a, hname in (('date', 'date'), ('if_modified_since', 'if-modified-since'), ('if_unmodified_since', 'if-unmodified-since')):
            sess3.op(f'reqdate {show_opt(hv.get(hname))}', rd_dateres(obs[a]))
        if stack == 'wsgi':
            uline = (f'wsgi {hs(scheme)} {show_opt(hov)} {hs("srv.example")} {hs(str(sp))} {hs("")} {hs("/p/q")} 0 {hs("x=1")} '
                     f'{show_opt(hv.get("forwarded"))} {show_opt(hv.get("x-forwarded-proto"))} {show_opt(hv.get("x-forwarded-host"))}')
        else:
            uline = (f'asgi {hs(scheme)} {1 if scheme in ("ws", "wss") else 0} {show_opt(hov)} {hs("srv.example")} {sp} {hs("")} {hs("/p/q")} 0 {hs("x=1")} '
                     f'{show_opt(hv.get("forwarded"))} {show_opt(hv.get("x-forwarded-proto"))} {show_opt(hv.get("x-forwarded-host"))}')
        sess3.op(uline + ' ' + ','.join(c for c, _a in URL_ORDER for _i in (0, 1)),
                 ' '.join(rd_val(c, o[a]) for c, a in URL_ORDER for o in (obs, obs2)))
    # ---- Forwarded / access_route / Cookie: the parsing functions directly, and access_route with all header sources and remote addresses
    import http.cookies as hcookies
    from falcon.forwarded import _parse_forwarded_header
    for _ in range(ctx.n(1500, 15000)):
        k = rnd.random(); fexp = None
        if k < 0.3: v, fexp = gen_forwarded()
        elif k < 0.45: v, _p = gen_cookie()
        elif k < 0.65: v = gen_cookie_esc()
        elif k < 0.8: v = rnd.choice(HOSTILE['Forwarded'] + HOSTILE['Cookie'])
        else: v = ''.join(rnd.choice('for=by;, \t"\\host=proto=HTTPS~a1_:[]\n\x00\xe9\xc007013') for _ in range(rnd.randint(0, 14)))
        if rnd.random() < 0.45:
            fexp = None
            for _m in range(rnd.randint(1, 2)): v = mutate(v)
        v = ''.join(c for c in v if ord(c) < 256)
        sess2.case({'value': v})
        sess2.op(f'forwarded {hs(v)}', rd_els([(f.src, f.dest, f.host, f.scheme) for f in _parse_forwarded_header(v)]))
        sess2.op(f'unquote {hs(v)}', hs(furi.unquote_string(v)))
        sess2.op(f'cunquote {hs(v)}', hs(hcookies._unquote(v)))
        sess2.op(f'jar {hs(v)}', rd_jar(rh._parse_cookie_header(v) if v else {}))
        q = '"' + ''.join(rnd.choice(['a', '~', ' ', '\\\\', '\\"', '\\a', '\\', ',', ';']) for _ in range(rnd.randint(0, 6))) + '"'
        sess2.op(f'unquote {hs(q)}', hs(furi.unquote_string(q)))
        sess2.op(f'cunquote {hs(q)}', hs(hcookies._unquote(q)))
        # DQUOTE handling is uniform: the empty quoted value is treated like every other quoted value
        qv = ''.join(rnd.choice(COOKIE_OCTET) for _ in range(rnd.randint(1, 4)))
        ch = rnd.choice(['e=""; f="%s"', 'f="%s"; e=""', 'f="%s";e=""']) % qv
        rq = mk_wsgi([('Cookie', ch)]) if rnd.random() < 0.5 else mk_asgi([('Cookie', ch)])
        cr = read(rq, 'cookies')
        ok = cr[0] == 'ok' and ((cr[1].get('e'), cr[1].get('f')) in (('', qv), ('""', '"' + qv + '"')))
        ctx.oracle('cookies: a quoted value is read the same way whether it is empty or not (DQUOTEs either always or never part of the value)', ok,
                   None if ok else f'Cookie {ch!r} read as {cr!r}', {'cookie': ch})
        # access_route: Forwarded / X-Forwarded-For / X-Real-IP present or not, remote address sometimes equal to the last hop
        stack = rnd.choice(['wsgi', 'asgi']); hdrs = []; want = None
        if rnd.random() < 0.6: hdrs.append((casing('Forwarded'), v))
        xff = xri = None
        if rnd.random() < 0.5:
            if rnd.random() < 0.7: xff, ips = gen_xff()
            else: xff = rnd.choice(HOSTILE['X-Forwarded-For']); ips = [x.strip() for x in xff.split(',')]
            hdrs.append((casing('X-Forwarded-For'), xff))
        if rnd.random() < 0.4:
            xri = gen_ip() if rnd.random() < 0.7 else rnd.choice(HOSTILE['X-Real-IP']); hdrs.append((casing('X-Real-IP'), xri))
        if hdrs and hdrs[0][0].lower() == 'forwarded':
            if fexp is not None: want = [e['srchost'] for e in fexp if e['src'] is not None]
        elif xff is not None: want = ips
        elif xri is not None: want = [xri]
        else: want = []
        cands = ['127.0.0.1', '10.1.2.3', '::1'] + ([want[-1]] * 3 if want else [])
        if stack == 'asgi' and rnd.random() < 0.03: cands = ['']
        remote = rnd.choice(cands)
        req = mk_wsgi(hdrs, remote=remote) if stack == 'wsgi' else mk_asgi(hdrs, remote=remote)
        r1 = read(req, 'access_route'); r2 = read(req, 'access_route')
        hv = {n.lower(): x for n, x in hdrs}
        ok = r1[0] == 'ok' and r1 == r2; what = None
        if not ok: what = f'access_route gave {r1!r} then {r2!r}'
        elif want is not None:
            want_route = (want if want[-1] == remote else want + [remote]) if want else ([remote] if remote else [])
            if r1[1] != want_route: ok = False; what = f'access_route is {r1[1]!r}, expected the hops {want!r} then remote_addr {remote!r} unless equal to the last: {want_route!r}'
        ctx.oracle('access_route: hops of the first present header among Forwarded / X-Forwarded-For / X-Real-IP, then remote_addr unless equal to the last; stable; no exception',
                   ok, what, {'stack': stack, 'headers': hdrs, 'remote_addr': remote})
        if r1[0] == 'ok' and r2[0] == 'ok':
            sess2.op(f'route2 {1 if stack == "asgi" else 0} {show_opt(hv.get("forwarded"))} {show_opt(xff)} {show_opt(xri)} {hs(remote)}', rd_route(r1[1]) + ' / ' + rd_route(r2[1]))
        ctx.seen(('route', stack, tuple(hdrs), remote, v), True)
        ctx.count('route_' + ('forwarded' if 'forwarded' in hv else 'xff' if xff is not None else 'xri' if xri is not None else 'none'))
    # ---- direct ETag / _parse_etags / response->request read-back
    for _ in range(ctx.n(1500, 15000)):
        v, tags = gen_etags()
        if rnd.random() < 0.4: v = mutate(v)
        v = ''.join(c for c in v if ord(c) < 256)
        sess.case({'etags': v})
        got = rh._parse_etags(v)
        sess.op(f'etags {hs(v)}', 'none' if got is None else ('star' if (len(got) == 1 and not hasattr(got[0], 'is_weak')) else 'tags ' + ','.join(('W:' if t.is_weak else 'S:') + hs(str(t)) for t in got)))
        if ',' not in v and v.strip() and v.strip() != '*':
            t = ETag.loads(v); sess.op(f'loads {hs(v)}', ('W:' if t.is_weak else 'S:') + hs(str(t)))
        val = ''.join(rnd.choice(ETAGC) for _ in range(rnd.randint(1, 5))); wk = rnd.random() < 0.5
        t = ETag(val); t.is_weak = wk
        sess.op(f'dumps {"W" if wk else "S"} {hs(val)}', hs(t.dumps()))
        # values written by the response API read back to the same values
        resp = falcon.Response(); dstr, dt, _ = gen_date(obs=False)
        resp.last_modified = dt; resp.etag = ('W/"' + val + '"') if wk else val
        hd = dict(resp.headers)
        rq = mk_wsgi([('If-Modified-Since', hd['last-modified']), ('If-None-Match', hd['etag'])])
        back_dt = read(rq, 'if_modified_since'); back_tag = read(rq, 'if_none_match')
        ok = back_dt == ('ok', dt) and back_tag == ('ok', [(val, wk)])
        ctx.oracle('response-written date and entity-tag read back unchanged', ok,
                   None if ok else f'wrote last_modified={dt.isoformat()} etag={(val, wk)!r}; headers {hd!r}; read back {back_dt!r} {back_tag!r}', {'date': dt.isoformat(), 'etag': val, 'weak': wk})
        ctx.seen(('etag', v, val, wk), True)
    # ---- HTTP-dates: http_date_to_dt / dt_to_http directly (all five strptime formats, lenient spellings, mutations), the request
    #      accessors on both classes, and the two obsolete renderings used by the theorems
    import warnings
    from falcon.util import misc as fmisc

    def gen_date_loose():
        y = rnd.choice([1970, 1994, 2000, 2024, rnd.randint(1, 9999), rnd.randint(1900, 2100)])
        m = rnd.randint(1, 12); d = rnd.randint(1, 31 if rnd.random() < 0.15 else calendar.monthrange(y, m)[1])
        H, M, S = rnd.randint(0, 24 if rnd.random() < 0.1 else 23), rnd.randint(0, 60 if rnd.random() < 0.1 else 59), rnd.randint(0, 62 if rnd.random() < 0.1 else 59)
        wd = rnd.randint(0, 6)
        p2 = lambda n: rnd.choice([f'{n:02d}', f'{n:02d}', f'{n:02d}', f'{n}'])  # noqa: E731
        sp = lambda: rnd.choice([' ', ' ', ' ', ' ', '  ', '\t', '\xa0', '\x1c'])  # noqa: E731
        z = rnd.choice(['GMT', 'GMT', 'GMT', 'gmt', 'UTC', 'utc', 'EST', 'Z', ''])
        t = f'{p2(H)}:{p2(M)}:{p2(S)}'
        form = rnd.choice(['imf', 'imf', 'imf', 'imfz', 'dash4', 'rfc850', 'asctime'])
        if form == 'imf': return f'{DAY[wd]},{sp()}{p2(d)}{sp()}{MON[m-1]}{sp()}{y:04d}{sp()}{t}{sp()}GMT'
        if form == 'imfz': return f'{DAY[wd]},{sp()}{p2(d)}{sp()}{MON[m-1]}{sp()}{y:04d}{sp()}{t}{sp()}{z}'
        if form == 'dash4': return f'{DAY[wd]},{sp()}{p2(d)}-{MON[m-1]}-{y:04d}{sp()}{t}{sp()}{z}'
        if form == 'rfc850': return f'{DAYL[wd]},{sp()}{p2(d)}-{MON[m-1]}-{y % 100:02d}{sp()}{t}{sp()}{z}'
        return f'{DAY[wd]}{sp()}{MON[m-1]}{sp()}{d:2d}{sp()}{t}{sp()}{y:04d}'

    def mutate_date(v):
        v = list(v)
        for _ in range(rnd.randint(1, 2)):
            k = rnd.random(); i = rnd.randrange(len(v) + 1)
            if k < 0.3 and v: del v[min(i, len(v) - 1)]
            elif k < 0.7: v.insert(i, rnd.choice(' ,:-0123456789\t\x00\xe9\xa0\x1c\x1f\x85aGMTSu\xb5\xdf\xcd'))
            elif v: v[min(i, len(v) - 1)] = rnd.choice(' ,:-09aZ')
        return ''.join(v)

    for _ in range(ctx.n(1500, 15000)):
        v = gen_date_loose()
        k = rnd.random()
        if k < 0.35: v = mutate_date(v)
        elif k < 0.45: v = ''.join(rnd.choice([c.lower(), c.upper()]) for c in v)
        if any(ord(c) > 255 for c in v): continue
        sess3.case({'date': v})
        for ob in (0, 1):
            try:
                d = fmisc.http_date_to_dt(v, bool(ob)); e = rd_civil(d) if d.tzinfo is dtm.timezone.utc else 'naive'
            except ValueError:
                e = 'bad'
            except Exception as ex:  # noqa
                e = 'EXC ' + type(ex).__name__
            sess3.op(f'date {tz_tok} {ob} {hs(v)}', e)
        # the request side: the three properties and get_header_as_datetime on both classes
        name = rnd.choice(['Date', 'If-Modified-Since', 'If-Unmodified-Since'])
        present = rnd.random() < 0.9
        rq = (mk_wsgi if rnd.random() < 0.5 else mk_asgi)([(casing(name), v)] if present else [])
        r1 = read(rq, name.lower().replace('-', '_'))
        sess3.op(f'reqdate {hs(v) if present else "none"}', rd_dateres(r1))
        rqd, ob = rnd.random() < 0.3, rnd.random() < 0.5
        try:
            d = rq.get_header_as_datetime(casing(name), required=rqd, obs_date=ob); e = 'absent' if d is None else rd_civil(d)
        except falcon.HTTPMissingHeader:
            e = 'missing'
        except falcon.HTTPInvalidHeader:
            e = 'invalid'
        except Exception as ex:  # noqa
            e = 'EXC ' + type(ex).__name__
        sess3.op(f'getdt {tz_tok} {1 if rqd else 0} {1 if ob else 0} {hs(v) if present else "none"}', e)
        # rendering: dt_to_http on every year a datetime can hold (the year is zero-padded since 8cb1d9b / F37), the rendering used before
        # that fix (the C library's %Y) as a regression witness, and the two obsolete renderings
        y = rnd.choice([rnd.randint(1, 9999), rnd.randint(1, 999), rnd.randint(1000, 9999)]); m = rnd.randint(1, 12)
        dd = rnd.randint(1, calendar.monthrange(y, m)[1]); H, M, S = rnd.randint(0, 23), rnd.randint(0, 59), rnd.randint(0, 59)
        dt0 = dtm.datetime(y, m, dd, H, M, S, tzinfo=dtm.timezone.utc)
        txt = fmisc.dt_to_http(dt0)
        sess3.op(f'fmt {y} {m} {dd} {H} {M} {S}', hs(txt))
        try:
            back = rd_civil(fmisc.http_date_to_dt(txt))
        except ValueError:
            back = 'bad'
        sess3.op(f'date {tz_tok} 0 {hs(txt)}', back)
        rq = (mk_wsgi if rnd.random() < 0.5 else mk_asgi)([('Date', txt)])
        back_req = read(rq, 'date')
        ok = back == rd_civil(dt0) and back_req == ('ok', dt0)
        ctx.oracle('http-date: http_date_to_dt(dt_to_http(d)) == d and req.date reads it back, for every year 1..9999 and whatever the process time zone', ok,
                   None if ok else f'{dt0.isoformat()} rendered {txt!r} read back {back} / req.date {back_req!r} (process TZ={tz})', {'datetime': dt0.isoformat(), 'process_tz': tz})
        old_txt = dt0.strftime('%a, %d %b %Y %H:%M:%S GMT')   # dt_to_http before 8cb1d9b
        sess3.op(f'fmtold {y} {m} {dd} {H} {M} {S}', hs(old_txt))
        try:
            old_back = rd_civil(fmisc.http_date_to_dt(old_txt))
        except ValueError:
            old_back = 'bad'
        sess3.op(f'date {tz_tok} 0 {hs(old_txt)}', old_back)
        wd = dt0.weekday()
        sess3.op(f'rfc850 {y} {m} {dd} {H} {M} {S}', hs(f'{DAYL[wd]}, {dd:02d}-{MON[m-1]}-{y % 100:02d} {H:02d}:{M:02d}:{S:02d} GMT'))
        sess3.op(f'asctime {y} {m} {dd} {H} {M} {S}', hs(f'{DAY[wd]} {MON[m-1]} {dd:2d} {H:02d}:{M:02d}:{S:02d} {y:04d}'))
        ctx.seen(('date', v, y, m, dd, H, M, S), True)

    # ---- URL composition: scheme / netloc / host / root_path / forwarded_* / prefix / uri / relative_uri / subdomain through the memo cells
    def latin1(s):
        return all(ord(c) < 256 for c in s)

    for _ in range(ctx.n(1500, 15000)):
        stack = rnd.choice(['wsgi', 'asgi'])
        scheme = rnd.choice(['http', 'http', 'https', 'https', 'HTTPS', 'ws', 'wss'] + ([None] if stack == 'asgi' else []))
        websocket = stack == 'asgi' and rnd.random() < 0.2
        k = rnd.random(); hexp = None
        if k < 0.4: hostv = None
        elif k < 0.8: hostv, hexp, _p = gen_host()
        elif k < 0.9: hostv = rnd.choice(['example.com:80', 'example.com:443', 'a.b.example:8080', 'sub.example.com'])
        else: hostv = rnd.choice(HOSTILE['Host'])
        sname = rnd.choice(['srv.example', 'localhost', '10.0.0.1', '::1', 'a.b.c'])
        sport = rnd.choice([80, 443, 80, 443, 8000, 8443, 0, 65535])
        sport_txt = str(sport) if rnd.random() < 0.9 else rnd.choice(['0080', '+80', ' 443', '443 '])
        no_server = stack == 'asgi' and rnd.random() < 0.1
        root = rnd.choice([None, '', '', '/app', '/a/b', 'noslash', '/r\xe9'])
        path = rnd.choice(['/', '', '/p/q', '/p/q/', '//', '/x/', '/caf\xe9', '/a?b'])
        strip = rnd.random() < 0.4
        query = rnd.choice(['', '', 'x=1', 'a=b&c=d', '?', 'q=caf\xe9', None if stack == 'wsgi' else ''])
        k = rnd.random(); fexp = None
        if k < 0.4: fwd = None
        elif k < 0.7: fwd, fexp = gen_forwarded()
        elif k < 0.85: fwd = rnd.choice(['', 'proto=HTTPS;host=fh.example', 'for=1.2.3.4', 'host=""', 'proto=""', 'proto=""; host=x', 'host=a.b;proto=wss, proto=http', ',proto=https', 'by=x'])
        else: fwd = mutate(rnd.choice(HOSTILE['Forwarded'] + ['proto=https;host=fh.example']))
        xfp = rnd.choice([None, None, 'https', 'HTTPS', 'Http', '', '\xc9x'])
        xfh = rnd.choice([None, None, 'fh.example', 'a:b', '', 'x.y:8080'])
        if not all(latin1(x) for x in (fwd or '', hostv or '')): continue
        opts = falcon.RequestOptions(); opts.strip_url_path_trailing_slash = strip
        hdrs = [(n, v) for n, v in (('Host', hostv), ('Forwarded', fwd), ('X-Forwarded-Proto', xfp), ('X-Forwarded-Host', xfh)) if v is not None]
        if stack == 'wsgi':
            env = ft.create_environ(path='/', scheme='http', host='h', port=1)
            env.pop('HTTP_HOST', None)
            env['wsgi.url_scheme'] = scheme; env['SERVER_NAME'] = sname; env['SERVER_PORT'] = sport_txt
            env['PATH_INFO'] = path.encode('utf-8').decode('latin-1')   # PEP 3333 tunnelling
            if root is None: env.pop('SCRIPT_NAME', None)
            else: env['SCRIPT_NAME'] = root
            if query is None: env.pop('QUERY_STRING', None)
            else: env['QUERY_STRING'] = query
            for n, v in hdrs: env['HTTP_' + n.upper().replace('-', '_')] = v
            req = falcon.Request(env, options=opts)
            line = (f'wsgi {hs(scheme)} {show_opt(hostv)} {hs(sname)} {hs(sport_txt)} {show_opt(root)} {hs(path)} {1 if strip else 0} {show_opt(query)} '
                    f'{show_opt(fwd)} {show_opt(xfp)} {show_opt(xfh)}')
            fwline = f'wsgifw {hs(scheme)} {show_opt(hostv)} {hs(sname)} {hs(sport_txt)} {show_opt(fwd)} {show_opt(xfp)} {show_opt(xfh)} 1'
        else:
            scope = ft.create_scope(path='/', scheme='http', host='h', port=1)
            if websocket: scope['type'] = 'websocket'
            if scheme is None: scope.pop('scheme', None)
            else: scope['scheme'] = scheme
            if no_server: scope.pop('server', None) if rnd.random() < 0.5 else scope.__setitem__('server', None)
            else: scope['server'] = rnd.choice([(sname, sport), [sname, sport]])
            scope['path'] = path
            if root is None: scope.pop('root_path', None)
            else: scope['root_path'] = root
            scope['query_string'] = (query or '').encode('utf-8')
            scope['headers'] = [(n.lower().encode('latin-1'), v.encode('latin-1')) for n, v in hdrs]

            async def receive():
                return {'type': 'http.request'}
            req = falcon.asgi.Request(scope, receive, options=opts)
            srv = 'none 0' if no_server else f'{hs(sname)} {sport}'
            line = (f'asgi {show_opt(scheme)} {1 if websocket else 0} {show_opt(hostv)} {srv} {show_opt(root)} {hs(path)} {1 if strip else 0} {hs(query or "")} '
                    f'{show_opt(fwd)} {show_opt(xfp)} {show_opt(xfh)}')
            fwline = f'asgifw {show_opt(scheme)} {1 if websocket else 0} {show_opt(hostv)} {srv} {show_opt(fwd)} {show_opt(xfp)} {show_opt(xfh)} 1'
        order = [rnd.choice(list(CODES)) for _ in range(rnd.randint(4, 12))]
        got = [read(req, CODES[c]) for c in order]
        sess3.case({'stack': stack, 'line': line, 'order': order})
        sess3.op(line + ' ' + ','.join(order), ' '.join(rd_val(c, r) for c, r in zip(order, got)))
        # every property once more, in a fixed order, for the oracle (memo cells are now partly filled)
        o = {c: read(req, CODES[c]) for c in CODES}
        o2 = {c: read(req, CODES[c]) for c in CODES}
        sess3.op(fwline, (hs(o['fs'][1]) if o['fs'][0] == 'ok' else 'bad') + ' ' + (hs(o['fh'][1]) if o['fh'][0] == 'ok' else 'bad'))
        bad = None
        for c in CODES:
            if o[c][0] == 'EXC' or (o[c][0] == 'http' and not 400 <= o[c][1] < 500): bad = bad or f'req.{CODES[c]}: {o[c]!r}'
            if repr(o[c]) != repr(o2[c]): bad = bad or f'req.{CODES[c]} not stable: {o[c]!r} then {o2[c]!r}'
        for c, r in zip(order, got):
            if repr(r) != repr(o[c]): bad = bad or f'req.{CODES[c]} changed between accesses: {r!r} then {o[c]!r}'
        if bad is None:
            sch = scheme if scheme is not None else ('ws' if websocket else 'http')
            dport = 443 if sch in (('https', 'wss') if stack == 'asgi' else ('https',)) else 80
            if hostv is not None: want_netloc = hostv
            elif no_server: want_netloc = 'localhost'
            elif stack == 'wsgi': want_netloc = sname if sport_txt == str(dport) else sname + ':' + sport_txt
            else: want_netloc = sname if sport == dport else f'{sname}:{sport}'
            p = path or '/'
            if strip and len(p) != 1 and p.endswith('/'): p = p[:-1]
            rootv = root or ''
            rel = rootv + p + ('?' + query if query else '')
            want = {'sc': sch, 'rp': rootv, 'ru': rel}
            if sch == sch.lower() and (stack == 'asgi' or hostv is not None or sport_txt == str(sport)):   # canonical server data only
                want.update({'nl': want_netloc, 'pf': sch + '://' + want_netloc + rootv, 'ur': sch + '://' + want_netloc + rel})
            else:
                want_netloc = o['nl'][1]
            if o['nl'][0] == 'ok':
                if o['pf'] != ('ok', sch + '://' + o['nl'][1] + rootv): bad = bad or f'prefix {o["pf"]!r} is not scheme://netloc + root_path'
                if o['ur'] != ('ok', sch + '://' + o['nl'][1] + rel): bad = bad or f'uri {o["ur"]!r} is not scheme://netloc + relative_uri'
            if fwd is None:
                want['fs'] = xfp.lower() if xfp is not None else sch
                want['fh'] = xfh if xfh is not None else want_netloc
            elif fexp is not None:
                want['fs'] = fexp[0]['scheme'] or sch
                want['fh'] = fexp[0]['host'] or want_netloc
            if hexp is not None and ':' not in hexp and not hexp[0].isdigit():
                want['sd'] = hexp.split('.')[0] if '.' in hexp else None
            elif hostv is None and not no_server and ':' not in sname and not sname[0].isdigit():
                want['sd'] = sname.split('.')[0] if '.' in sname else None
            for c, w in want.items():
                if o[c] != ('ok', w): bad = bad or f'req.{CODES[c]} is {o[c]!r}, expected {w!r}'
            if o['fs'][0] == 'ok' and o['fh'][0] == 'ok':
                if o['fp'] != ('ok', o['fs'][1] + '://' + o['fh'][1] + rootv): bad = bad or f'forwarded_prefix {o["fp"]!r} is not forwarded_scheme://forwarded_host + root_path'
                if o['fu'] != ('ok', o['fs'][1] + '://' + o['fh'][1] + rel): bad = bad or f'forwarded_uri {o["fu"]!r} is not forwarded_scheme://forwarded_host + relative_uri'
            with warnings.catch_warnings():
                warnings.simplefilter('ignore')
                ap = read(req, 'app'); ul = read(req, 'url')
            if ap != o['rp']: bad = bad or f'req.app {ap!r} differs from root_path {o["rp"]!r}'
            if ul != o['ur']: bad = bad or f'req.url {ul!r} differs from uri {o["ur"]!r}'
        ctx.oracle('url composition: scheme://netloc + root_path + path [?query]; forwarded_* from Forwarded, else X-Forwarded-*, else own; default port omitted only without Host header; subdomain; stable; only 400s',
                   bad is None, bad, {'stack': stack, 'scheme': scheme, 'websocket': websocket, 'host': hostv, 'server': None if no_server else (sname, sport_txt if stack == 'wsgi' else sport),
                                      'root_path': root, 'path': path, 'strip': strip, 'query': query, 'forwarded': fwd, 'x-forwarded-proto': xfp, 'x-forwarded-host': xfh})
        ctx.seen(('url', line, tuple(order)), True)
        ctx.count('url_' + stack)
    sess.finish()
    sess2.finish()
    sess3.finish()

"""C09 - typed request-header accessors agree with the RFC reading or answer 400."""
PROP = 'C09'
LEAN_MODULES = ['FalconModel.HeaderParsersProofs', 'FalconModel.ForwardedProofs', 'FalconModel.CookiesProofs']
DRIVERS = ['hpdriver', 'fwdriver']
THEOREMS = [
    'Hp.pyInt_toDigits', 'Hp.pyInt_nonneg_of_no_minus',
    'Hp.contentLength_digits', 'Hp.contentLength_ok_nonneg', 'Hp.contentLengthB_digits', 'Hp.contentLengthB_ok_nonneg',
    'Hp.range_first_last', 'Hp.range_first_open', 'Hp.range_suffix', 'Hp.range_invalid_order_is_400', 'Hp.range_ok_shape',
    'Hp.rangeUnit_of_valid',
    'Hp.parseHost_bare', 'Hp.parseHost_name_port', 'Hp.parseHost_name_empty_port',
    'Hp.parseHost_ipv6_port', 'Hp.parseHost_ipv6_bare',
    'Hp.loads_dumps', 'Hp.parseEtags_single', 'Hp.parseEtags_list', 'Hp.parseEtags_star',
    # Forwarded / access_route (Forwarded.lean, ForwardedProofs.lean)
    'Fw.matchPair_render', 'Fw.unq3_eq_gen', 'Fw.unquoteString_quoted', 'Fw.procValue_render', 'Fw.parseGo_fuel',
    'Fw.run_param', 'Fw.run_elem', 'Fw.forwarded_render_parse', 'Fw.elemOf_eq_rfc', 'Fw.forwarded_valid_eq_rfc',
    'Fw.routeHost_node', 'Fw.finishRoute_last', 'Fw.finishRoute_append', 'Fw.finishRoute_nil_wsgi', 'Fw.accessRoute_valid', 'Fw.memo_idempotent',
    # Cookie (Cookies.lean, CookiesProofs.lean)
    'Ck.stepToken_render', 'Ck.parseCookieHeader_render', 'Ck.lookup_insertVal', 'Ck.cookie_valid_eq_rfc', 'Ck.cookies_first_value', 'Ck.cookies_has_name',
    'Ck.cUnquote_plain', 'Ck.unq_oct', 'Ck.unquote_quote', 'Ck.cUnquote_quote',
]
STATEMENTS = {
    'Hp.pyInt_toDigits': "Python int() of the decimal representation of n is n",
    'Hp.range_first_last': "for every unit without '=' and first <= last: Range 'unit=first-last' reads (first, last)",
    'Hp.range_first_open': "'unit=first-' reads (first, -1)",
    'Hp.range_suffix': "'unit=-n' with n > 0 reads (-n, -1)",
    'Hp.range_invalid_order_is_400': "'unit=first-last' with last < first is the 400-class HTTPInvalidHeader outcome",
    'Hp.range_ok_shape': "whatever the header value, a returned (first, last) satisfies 0 <= first and (last = -1 or first <= last), or first < 0 and last = -1 (what _set_range relies on)",
    'Hp.contentLength_ok_nonneg': 'a returned Content-Length is never negative',
    'Hp.parseHost_name_port': "reg-name/IPv4 'name:port' (no ':' in name, not starting with '[') splits into name and the numeric port",
    'Hp.parseHost_ipv6_port': "'[addr]:port' (no ']' in addr) gives addr and the numeric port; without port the default",
    'Hp.loads_dumps': 'ETag.loads(ETag.dumps(t)) = t for every opaque tag without a double quote',
    'Fw.matchPair_render': "the native scanner standing for _FORWARDED_PAIR_RE matches name=value (token name; token value or quoted-string with any mix of qdtext and quoted-pairs) exactly up to the end of the value, provided the next character is not a tchar",
    'Fw.unq3_eq_gen': "the two fast paths of unquote_string (no backslash; no double backslash) return what the general split/replace/join path returns, for every string",
    'Fw.unquoteString_quoted': "unquote_string of a quoted-string is the sequence of characters its positions denote (a quoted-pair denotes its second character), for every list of qdtext / quoted-pair positions",
    'Fw.parseGo_fuel': "the element loop advances on every iteration: any two iteration budgets >= len(header) give the same result, so len(header) iterations model the unbounded while loop",
    'Fw.forwarded_render_parse': "for every list of non-empty forwarded-elements built from the grammar (any token as parameter name, token or quoted-string values, optional blanks around pairs, ';' between pairs, ',' between elements) _parse_forwarded_header returns exactly one Forwarded object per element, in order, built pair by pair (repeated parameter: last wins)",
    'Fw.forwarded_valid_eq_rfc': "if in addition the parameter names of each element are pairwise distinct case-insensitively (RFC 7239), src/dest/host are the un-escaped for/by/host values, scheme is the proto value in lower case, absent parameters are None and unknown parameters are ignored",
    'Fw.routeHost_node': "for every node 'name', 'name:port', '[v6]' or '[v6]:port' whose port text is numeric, obfuscated or anything else without ':' and ']', the access-route entry is the bare name (port and brackets dropped), whether parse_host succeeds or the ValueError fallback runs",
    'Fw.accessRoute_valid': "for a grammatical Forwarded header whose for values are such nodes, access_route is the list of node names in order (elements without for skipped) followed by remote_addr unless it equals the last entry; X-Forwarded-For / X-Real-IP are ignored; WSGI and ASGI",
    'Fw.memo_idempotent': "the second access of access_route returns the first result, which is a fresh computation, and leaves the memo cell unchanged",
    'Ck.parseCookieHeader_render': "for every cookie-string of valid pairs (token names, cookie-octet values bare or between DQUOTEs, any white space after ';') _parse_cookie_header enters every pair in order, quoted values without their DQUOTEs",
    'Ck.cookie_valid_eq_rfc': "for such a cookie-string get_cookie_values(name) is the list of all values given for that name in header order, and None if the name does not occur",
    'Ck.cookies_first_value': "req.cookies[name] is the first value given for the name",
    'Ck.cookies_has_name': "the keys of req.cookies are exactly the names occurring in the header",
    'Ck.unquote_quote': "for every Latin-1 string and every set of legal characters, http.cookies._unquote's scanner inverts _quote-style escaping (backslash before '\"' and '\\', three-digit octal escapes for the rest)",
    'Hp.parseEtags_list': "for a comma-separated list of two or more serialized entity-tags (opaque tags without '\"' or ','... see statement) _parse_etags returns exactly those tags with their weakness flags, in order",
}
TRUSTED = [
    "CPython int(): modelled on Latin-1 strings (strip, sign, ASCII digits, single underscores); strings of more than 4300 digits are excluded",
    "re for the entity-tag scanner and _FORWARDED_PAIR_RE (a deterministic pattern: no alternative overlaps), _COOKIE_NAME_RESERVED_CHARS, and CPython 3.12 http.cookies._unquote (its search loop) are replaced by native scanners in the models; their agreement with re/http.cookies is established by the correspondence only",
    "datetime.strptime/strftime (all HTTP-date forms): not modelled - covered by the independent RFC-level oracle only",
    "str.lower() is modelled on Latin-1 (A-Z and 0xC0-0xDE except 0xD7 move by 32)",
]
ASSUMPTIONS = [
    'header values are Latin-1 strings (what WSGI/ASGI can deliver); suffix-length 0 ("bytes=-0") is outside the comparable domain: the (first, last) API cannot represent it and Falcon answers 400',
    'quoted cookie values: RFC 6265 leaves open whether the DQUOTEs belong to the value; either reading is accepted',
]
RULE = ('values generated from the ABNFs (Range, HTTP-date in three forms, entity-tag lists, cookie-string, Forwarded elements incl. quoted IPv6 and obfuscated node/port, '
        'Host authority forms) and from 1-2 character edits of valid values and of a hostile seed list; header names in random casing; WSGI and ASGI request objects; '
        'every accessor is read twice; non-trivial = at least one accessor returned a non-None value or a 400')
PARTIAL = ('proved cores: Content-Length, Range/range_unit, parse_host (host/port), ETag loads/dumps and _parse_etags, Forwarded (_parse_forwarded_header, unquote_string), '
           'access_route (all three header sources modelled; the theorem covers the Forwarded source), Cookie (_parse_cookie_header, _unquote, cookies, get_cookie_values). Dates, '
           'forwarded_scheme/forwarded_host, uri/prefix/relative_uri composition, subdomain and accept checks are decided by the independent RFC-level oracle and the exception-class / repeat-access checks only.')
JOBS = {'quick': 4, 'thorough': 16}
LEVEL_TEXT = ('Lean 4 theorems on the modelled accessor cores (Content-Length, Range, parse_host/host/port, entity tags, Forwarded elements, access_route, cookies): valid values read as the RFC says '
              '(every header built from the RFC 7239 / RFC 6265 grammars is parsed into exactly its elements / name->values mapping, by induction over the element and pair lists), invalid order is a 400, '
              'every returned range has the documented shape; the models are tied to falcon/request.py, falcon/asgi/request.py, falcon/forwarded.py, falcon/util/uri.py, falcon/util/structures.py and '
              'falcon/request_helpers.py by a differential correspondence on both request classes. All listed accessors (incl. dates, cookies, Forwarded, URL composition) are additionally '
              'judged by an independent RFC-level oracle: valid input -> RFC value, repeated access stable, only 400-class errors. Partial: see PARTIAL in the evidence.')
LEVEL_NOTE = 'Trusted: Lean kernel; CPython int()/re/strptime as described; the oracle parsers written from the RFCs.'
TECHNIQUE = 'Lean 4 theorems on parser models + differential correspondence + independent RFC-level oracle'


def run(ctx):
    import asyncio
    import calendar
    import datetime as dtm
    import string
    from runner import hx
    import falcon
    import falcon.asgi
    import falcon.testing as ft
    from falcon.util import uri as furi
    from falcon.util.structures import ETag
    from falcon import request_helpers as rh
    rnd = ctx.rng

    def hs(s):  # Latin-1 str -> hex
        return hx(s.encode('latin-1'))

    # ------------------------------------------------------------ generators
    TOKEN = string.ascii_letters + string.digits + "!#$%&'*+-.^_`|~"
    ETAGC = ''.join(chr(c) for c in range(0x21, 0x7f) if chr(c) not in '"') + '\xe9\xff'
    QDTEXT = '\t !' + ''.join(chr(c) for c in range(0x23, 0x7f) if c != 0x5c)
    COOKIE_OCTET = ''.join(chr(c) for c in range(0x21, 0x7f) if chr(c) not in '",;\\')

    def num(maxd=6, lead0=True):
        s = str(rnd.randrange(10 ** rnd.randint(1, maxd)))
        if lead0 and rnd.random() < 0.15:
            s = '0' * rnd.randint(1, 2) + s
        return s

    def gen_range():
        unit = rnd.choice(['bytes', 'bytes', 'bytes', 'items', ''.join(rnd.choice(TOKEN.replace('=', '')) for _ in range(rnd.randint(1, 5)))])
        k = rnd.random()
        if k < 0.4:
            a, b = num(), num()
            exp = (int(a), int(b)) if int(a) <= int(b) else 'bad'
            return f'{unit}={a}-{b}', unit, exp
        if k < 0.7:
            a = num(); return f'{unit}={a}-', unit, (int(a), -1)
        b = num()
        if int(b) == 0:
            return f'{unit}=-{b}', unit, 'skip'
        return f'{unit}=-{b}', unit, (-int(b), -1)

    MON = ['Jan', 'Feb', 'Mar', 'Apr', 'May', 'Jun', 'Jul', 'Aug', 'Sep', 'Oct', 'Nov', 'Dec']
    DAY = ['Mon', 'Tue', 'Wed', 'Thu', 'Fri', 'Sat', 'Sun']
    DAYL = ['Monday', 'Tuesday', 'Wednesday', 'Thursday', 'Friday', 'Saturday', 'Sunday']

    def gen_date(obs=True):
        y = rnd.choice([1970, 1994, 1999, 2000, 2024, rnd.randint(1900, 9999)])
        m = rnd.randint(1, 12); d = rnd.randint(1, calendar.monthrange(y, m)[1])
        H, M, S = rnd.randint(0, 23), rnd.randint(0, 59), rnd.randint(0, 59)
        dt = dtm.datetime(y, m, d, H, M, S, tzinfo=dtm.timezone.utc)
        wd = dt.weekday()
        form = rnd.choice(['imf', 'imf', 'imf', 'rfc850', 'asctime']) if obs else 'imf'
        if form == 'rfc850' and not (1969 <= y <= 2068):
            form = 'imf'
        if form == 'imf':
            return f'{DAY[wd]}, {d:02d} {MON[m-1]} {y:04d} {H:02d}:{M:02d}:{S:02d} GMT', dt, form
        if form == 'rfc850':
            return f'{DAYL[wd]}, {d:02d}-{MON[m-1]}-{y % 100:02d} {H:02d}:{M:02d}:{S:02d} GMT', dt, form
        return f'{DAY[wd]} {MON[m-1]} {d:2d} {H:02d}:{M:02d}:{S:02d} {y:04d}', dt, form

    def gen_etags():
        if rnd.random() < 0.1:
            return '*', ['*']
        n = rnd.choice([1, 1, 2, 3, 4])
        tags = []
        for _ in range(n):
            v = ''.join(rnd.choice(ETAGC) for _ in range(rnd.randint(0, 6)))
            tags.append((v, rnd.random() < 0.4))
        if n > 1:
            tags = [(v.replace(',', 'c'), w) if rnd.random() < 0.5 else (v, w) for v, w in tags]
        sep = rnd.choice([', ', ',', ' , ', ',  '])
        return sep.join(('W/' if w else '') + '"' + v + '"' for v, w in tags), tags

    def gen_cookie():
        n = rnd.randint(1, 4); pairs = []
        for _ in range(n):
            name = ''.join(rnd.choice(string.ascii_letters + string.digits + '_-.') for _ in range(rnd.randint(1, 5)))
            val = ''.join(rnd.choice(COOKIE_OCTET) for _ in range(rnd.randint(0, 6)))
            q = rnd.random() < 0.2
            pairs.append((name, val, q))
        return '; '.join(f'{n}="{v}"' if q else f'{n}={v}' for n, v, q in pairs), pairs

    def gen_node():
        k = rnd.random()
        if k < 0.35: host = '.'.join(str(rnd.randint(0, 255)) for _ in range(4)); quoted = False; br = host
        elif k < 0.6: host = rnd.choice(['2001:db8:cafe::17', '::1', 'fe80::1']); quoted = True; br = '[' + host + ']'
        elif k < 0.8: host = '_' + ''.join(rnd.choice(string.ascii_letters + string.digits + '._-') for _ in range(rnd.randint(1, 6))); quoted = False; br = host
        else: host = 'unknown'; quoted = False; br = host
        port = rnd.choice([None, None, str(rnd.randint(0, 65535)), '_' + ''.join(rnd.choice(string.ascii_letters) for _ in range(3))])
        s = br if port is None else br + ':' + port
        if quoted or port is not None or rnd.random() < 0.2:
            return '"' + s + '"', s, host
        return s, s, host

    def gen_forwarded():
        elems = []; exp = []
        for _ in range(rnd.randint(1, 3)):
            pairs = []; e = {'src': None, 'dest': None, 'host': None, 'scheme': None, 'srchost': None}
            keys = rnd.sample(['for', 'by', 'host', 'proto'], rnd.randint(1, 4))
            for k in keys:
                kk = ''.join(rnd.choice([c.lower(), c.upper()]) for c in k)
                if k == 'for':
                    tok, val, h = gen_node(); e['src'] = val; e['srchost'] = h
                elif k == 'by':
                    tok, val, h = gen_node(); e['dest'] = val
                elif k == 'host':
                    if rnd.random() < 0.5:
                        val = rnd.choice(['example.com', 'a.b.example:8080', 'h']); tok = val if ':' not in val else '"' + val + '"'
                    else:
                        # any quoted-string (RFC 9110 5.6.4): qdtext = HTAB / SP / %x21 / %x23-5B / %x5D-7E, and quoted-pairs
                        val = ''.join(rnd.choice(QDTEXT + '"\\') for _ in range(rnd.randint(1, 8)))
                        tok = '"' + ''.join(('\\' + c) if (c in '"\\' or rnd.random() < 0.1) else c for c in val) + '"'
                    e['host'] = val
                else:
                    val = rnd.choice(['http', 'https']); tok = val; e['scheme'] = val
                pairs.append(kk + '=' + tok)
            elems.append(rnd.choice([';', '; ']).join(pairs) if rnd.random() < 0.9 else ';'.join(pairs)); exp.append(e)
        return rnd.choice([', ', ',']).join(elems), exp

    def gen_ip():
        return rnd.choice(['.'.join(str(rnd.randint(0, 255)) for _ in range(4)), '127.0.0.1', '2001:db8::1', 'unknown'])

    def gen_xff():
        ips = [gen_ip() for _ in range(rnd.randint(1, 3))]
        return rnd.choice([', ', ',', ' ,\t']).join(ips), ips

    def gen_cookie_esc():
        """cookie pairs as old user agents send them: quoted values with backslash / octal escapes, odd spacing, repeated and bad names"""
        pairs = []
        for _ in range(rnd.randint(1, 4)):
            name = rnd.choice(['a', 'b', 'SID', 'x-y', 'a b', 'n(', '', 'a'])
            body = ''.join(rnd.choice(['x', '1', ' ', ',', '\\"', '\\\\', '\\101', '\\3', '\\377', '\\400', '\\;', '\\n', '\\\n', '\\', '"', '=']) for _ in range(rnd.randint(0, 5)))
            val = rnd.choice(['"' + body + '"', '"' + body + '"', body, '""', '"'])
            pairs.append(rnd.choice(['', ' ', '  ']) + name + rnd.choice(['=', '=', ' = ', '']) + val)
        return rnd.choice([';', '; ', ' ;']).join(pairs)

    MTYPES = ['application/json', 'application/xml', 'text/html', 'text/plain', 'application/x-msgpack', 'image/png']

    def gen_accept():
        """An Accept header from the media-range grammar (no parameters other than q) and its ranges [(type, subtype, q)]."""
        ranges = []
        for _ in range(rnd.randint(1, 4)):
            k = rnd.random()
            if k < 0.3: t, st = '*', '*'
            elif k < 0.5: t, st = rnd.choice(MTYPES).split('/')[0], '*'
            else: t, st = rnd.choice(MTYPES).split('/')
            q = rnd.choice([None, None, '1', '1.0', '0', '0.0', '0.000', '0.5', '0.8', '0.001', '.5'])
            ranges.append((t, st, q))
        sep = rnd.choice([', ', ','])
        return sep.join(f'{t}/{st}' + ('' if q is None else rnd.choice([';q=', '; q=', ';Q=']) + q) for t, st, q in ranges), ranges

    def rfc_accepts(ranges, media):
        """RFC 9110 12.5.1: the most specific matching range decides; q=0 means not acceptable."""
        mt, ms = media.split('/')
        best = None
        for t, st, q in ranges:
            if t == '*' and st == '*': spec = 0
            elif t == mt and st == '*': spec = 1
            elif t == mt and st == ms: spec = 2
            else: continue
            qv = 1.0 if q is None else float(q)
            if best is None or spec > best[0] or (spec == best[0] and qv > best[1]): best = (spec, qv)
        return best is not None and best[1] > 0

    def gen_host():
        k = rnd.random()
        if k < 0.5: h = rnd.choice(['example.com', 'a.b-c.example', 'localhost', '192.0.2.7', 'x']); lit = h
        else: h = rnd.choice(['::1', '2001:db8::1', 'fe80::a:b']); lit = '[' + h + ']'
        p = rnd.choice([None, None, '', str(rnd.randint(0, 65535)), '0080'])
        return (lit if p is None else lit + ':' + p), h, (None if not p else int(p))

    HOSTILE = {
        'Host': ['h:\x1c80', 'h:80\x85', 'example.com:abc', 'a:b:c', '[::1', '::1]:8', ':80', '[]:1', 'x:\xb3', 'h:1_0', 'h:+80', 'h: 8 ', 'h:-1'],
        'Content-Length': ['', 'x', '-1', ' 7 ', '\x1c5', '5\x1f', '\x855', '\x0b5\x0c', '1_0', '+3', '1e3', '\xb2', '0x10', '9' * 40],
        'Range': ['bytes=\x1c1-2', 'bytes=1-\x1f2', 'bytes=\x851-2', 'bytes=a-b', 'bytes=1-2,3-4', 'bytes', '=', 'bytes=', 'bytes=-', 'bytes=--1', 'bytes= 1 - 2 ', 'bytes=1_0-2_0', 'bytes=5-+9', 'bytes=-0', 'bytes=5-3', '=1-2', 'bytes==1-2', 'bytes=1-2=', 'bytes=\xa01-2'],
        'If-Match': ['', 'w/"x"', '"unterminated', 'W/', '"a",,"b"', ', ,', 'W/"a", b', 'a, "b"', '"', 'W/"', '"a" "b"'],
        'If-None-Match': [' ', '*, "a"', '"a", *'],
        'If-Modified-Since': ['garbage', 'Sun, 06 Nov 1994 08:49:37 UTC', 'Sun, 32 Nov 1994 08:49:37 GMT', 'Sun, 06 Nov 10000 08:49:37 GMT', '', 'Sun, 06 Nov 1994 24:00:00 GMT', 'Sun, 06 Nov 1994 08:49:37 EST'],
        'Cookie': ['a=1; a=2', 'a="q\\"x"; b', '=x;;', 'a="\\101\\"";b="\\9"', 'a="', '\xe9=1', 'a=\xe9', 'a==;=', 'a="\\"', 'a=1;;b=2', 'a'],
        'Forwarded': ['garbage;;,', 'for="[::1"', 'for=1.2.3.4:65536', 'for="a\\"b"', 'for=;', 'for="1.2.3.4:"', 'for=unknown, for=_hidden', 'for', '=', 'for="', 'for=a;;by=b'],
        'X-Forwarded-For': ['1.1.1.1, 2.2.2.2', '', ', ,', ' 10.0.0.1 ,\t127.0.0.1'],
        'X-Real-IP': ['9.9.9.9', '', ' 127.0.0.1'],
        'X-Forwarded-Proto': ['HTTPS', ''],
        'X-Forwarded-Host': ['fh.example', 'a:b'],
        'Accept': ['*/*', 'text/html;q=0.5', 'a/b;q=x', 'a', '/', ';', 'a/b;q="1"', 'a/b;"', '\\', 'application/json;q=0'],
    }
    ATTRS = ['content_length', 'host', 'port', 'netloc', 'scheme', 'forwarded_scheme', 'forwarded_host', 'subdomain', 'uri', 'url', 'relative_uri',
             'prefix', 'forwarded_uri', 'forwarded_prefix', 'accept', 'date', 'if_match', 'if_none_match', 'if_modified_since', 'if_unmodified_since',
             'if_range', 'range', 'range_unit', 'cookies', 'access_route', 'remote_addr', 'forwarded', 'client_accepts_json', 'client_accepts_xml', 'content_type', 'user_agent', 'referer', 'auth', 'expect']

    def mutate(v):
        v = list(v)
        for _ in range(rnd.randint(1, 2)):
            k = rnd.random(); i = rnd.randrange(len(v) + 1)
            if k < 0.3 and v: del v[min(i, len(v) - 1)]
            elif k < 0.7: v.insert(i, rnd.choice(' ",;=:-[]_\\\t\x00\xe9\xa0\x1c\x1f\x85W/*0a'))
            elif v: v[min(i, len(v) - 1)] = rnd.choice(' ",;=:-[]_\\\t0a')
        return ''.join(v)

    def casing(n):
        return rnd.choice([n, n.lower(), n.upper(), ''.join(rnd.choice([c.lower(), c.upper()]) for c in n)])

    # ------------------------------------------------------------ request construction (no value stripping: build env/scope directly)
    def mk_wsgi(headers, scheme='http', remote=None):
        env = ft.create_environ(path='/p/q', query_string='x=1', scheme=scheme, host='srv.example', port=8000 if scheme == 'http' else 8443)
        env.pop('HTTP_HOST', None)
        if remote is not None: env['REMOTE_ADDR'] = remote
        for n, v in headers:
            key = n.upper().replace('-', '_')
            if key in ('CONTENT_LENGTH', 'CONTENT_TYPE'): env[key] = v
            else: env['HTTP_' + key] = v
        return falcon.Request(env)

    def mk_asgi(headers, scheme='http', remote=None):
        scope = ft.create_scope(path='/p/q', query_string='x=1', scheme=scheme, host='srv.example', port=8000 if scheme == 'http' else 8443)
        scope['headers'] = [(n.lower().encode('latin-1'), v.encode('latin-1')) for n, v in headers]
        if remote is not None: scope['client'] = (remote, 4711)

        async def receive():
            return {'type': 'http.request'}
        return falcon.asgi.Request(scope, receive)

    def read(req, attr):
        try:
            v = getattr(req, attr)
        except falcon.HTTPError as e:
            return ('http', int(str(e.status)[:3]))
        except Exception as e:  # noqa
            return ('EXC', type(e).__name__ + ': ' + str(e)[:80])
        if attr == 'forwarded':
            v = None if v is None else [(f.src, f.dest, f.host, f.scheme) for f in v]
        elif attr in ('if_match', 'if_none_match'):
            v = None if v is None else [('*' if not hasattr(t, 'is_weak') else (str(t), bool(t.is_weak))) for t in v]
        return ('ok', v)

    sess = ctx.session('request accessors / uri.parse_host / ETag = Hp model', 'hpdriver')

    sess2 = ctx.session('forwarded / access_route / cookies / get_cookie_values = Fw, Ck models', 'fwdriver')

    def show_opt(v):
        return 'none' if v is None else hs(v)

    def rd_els(els):  # list of (src, dest, host, scheme)
        return 'els' + ''.join(' ' + '|'.join(show_opt(x) for x in e) for e in els)

    def rd_route(route):
        return 'route' + ''.join(' ' + hs(h) for h in route)

    def rd_jar(jar):
        return 'jar' + ''.join(' ' + hs(n) + '=' + ','.join(hs(v) for v in vs) for n, vs in jar.items())

    def fw_ops(req, stack, hv, obs, obs2):
        """model ops for one request object: forwarded, access_route (both accesses), cookies, get_cookie_values"""
        fv = hv.get('forwarded'); xf = hv.get('x-forwarded-for'); xr = hv.get('x-real-ip'); ck = hv.get('cookie')
        if obs['forwarded'][0] == 'ok' and fv is not None:
            sess2.op(f'forwarded {hs(fv)}', rd_els(obs['forwarded'][1]))
        if obs['access_route'][0] == 'ok' and obs2['access_route'][0] == 'ok' and obs['remote_addr'][0] == 'ok':
            sess2.op(f'route2 {1 if stack == "asgi" else 0} {show_opt(fv)} {show_opt(xf)} {show_opt(xr)} {hs(obs["remote_addr"][1])}',
                     rd_route(obs['access_route'][1]) + ' / ' + rd_route(obs2['access_route'][1]))
        if obs['cookies'][0] == 'ok':
            ckd = obs['cookies'][1]
            sess2.op(f'cookies {show_opt(ck)}', 'ck' + ''.join(' ' + hs(n) + '=' + hs(v) for n, v in ckd.items()))
            for nm in list(ckd)[:3] + ['zz']:
                try:
                    vals = req.get_cookie_values(nm); e = 'none' if vals is None else 'vals' + ''.join(' ' + hs(v) for v in vals)
                except Exception as ex:  # noqa
                    e = 'EXC ' + type(ex).__name__
                sess2.op(f'cvals {show_opt(ck)} {hs(nm)}', e)

    def rd_cl(r):
        return 'bad' if r[0] == 'http' else ('absent' if r[1] is None else f'ok {r[1]}')

    def rd_range(r):
        return 'bad' if r[0] == 'http' else ('absent' if r[1] is None else f'ok {r[1][0]} {r[1][1]}')

    def rd_unit(r):
        return 'bad' if r[0] == 'http' else ('absent' if r[1] is None else f'ok {hs(r[1])}')

    def rd_tags(r):
        if r[1] is None: return 'none'
        if r[1] == ['*']: return 'star'
        return 'tags ' + ','.join('*' if t == '*' else (('W:' if t[1] else 'S:') + hs(t[0])) for t in r[1])

    N = ctx.n(2500, 30000)
    for ci in range(N):
        mode = rnd.choice(['valid', 'valid', 'mutated', 'hostile'])
        stack = rnd.choice(['wsgi', 'asgi'])
        scheme = rnd.choice(['http', 'https'])
        headers = []; expect = {}
        kinds = rnd.sample(['range', 'date', 'etag', 'cookie', 'forwarded', 'host', 'cl', 'accept', 'xff', 'xri'], rnd.randint(1, 4))
        if mode == 'hostile':
            names = rnd.sample(list(HOSTILE), rnd.randint(1, 4))
            headers = [(casing(n), mutate(rnd.choice(HOSTILE[n])) if rnd.random() < 0.5 else rnd.choice(HOSTILE[n])) for n in names]
        else:
            for k in kinds:
                if k == 'range':
                    v, unit, exp = gen_range(); headers.append((casing('Range'), v)); expect['range'] = exp; expect['range_unit'] = unit
                elif k == 'date':
                    name = rnd.choice(['Date', 'If-Modified-Since', 'If-Unmodified-Since'])
                    v, dt, form = gen_date(); headers.append((casing(name), v)); expect[name.lower().replace('-', '_')] = (dt, form, name)
                elif k == 'etag':
                    name = rnd.choice(['If-Match', 'If-None-Match'])
                    v, tags = gen_etags(); headers.append((casing(name), v)); expect[name.lower().replace('-', '_')] = tags
                elif k == 'cookie':
                    v, pairs = gen_cookie(); headers.append((casing('Cookie'), v)); expect['cookies'] = pairs
                elif k == 'forwarded':
                    v, exp = gen_forwarded(); headers.append((casing('Forwarded'), v)); expect['forwarded'] = exp
                elif k == 'host':
                    v, h, p = gen_host(); headers.append((casing('Host'), v)); expect['host'] = h; expect['port'] = p if p is not None else (443 if scheme == 'https' else 80)
                elif k == 'accept':
                    v, ranges = gen_accept(); headers.append((casing('Accept'), v)); expect['accept_ranges'] = ranges
                elif k == 'xff':
                    v, ips = gen_xff(); headers.append((casing('X-Forwarded-For'), v)); expect['xff'] = ips
                elif k == 'xri':
                    v = gen_ip(); headers.append((casing('X-Real-IP'), v)); expect['xri'] = v
                else:
                    v = num(9); headers.append((casing('Content-Length'), v)); expect['content_length'] = int(v)
            if mode == 'mutated':
                i = rnd.randrange(len(headers)); headers[i] = (headers[i][0], mutate(headers[i][1])); expect = {}
        headers = [(n, v) for n, v in headers if all(ord(c) < 256 for c in v)]
        seen_names = set(); hdrs = []
        for n, v in headers:
            if n.lower() not in seen_names:
                seen_names.add(n.lower()); hdrs.append((n, v))
        headers = hdrs
        req = mk_wsgi(headers, scheme) if stack == 'wsgi' else mk_asgi(headers, scheme)
        hv = {n.lower(): v for n, v in headers}
        failed = None; nontriv = False
        obs = {}; obs2 = {}
        for a in ATTRS:
            r1 = read(req, a); r2 = read(req, a)
            obs[a] = r1; obs2[a] = r2
            if r1[0] == 'EXC':
                failed = failed or f'req.{a} raised {r1[1]} (not a 400-class HTTP error)'
            elif r1[0] == 'http' and not (400 <= r1[1] < 500):
                failed = failed or f'req.{a} raised HTTP {r1[1]}'
            if r1 != r2 and not (r1[0] == 'ok' and r2[0] == 'ok' and repr(r1[1]) == repr(r2[1])):
                failed = failed or f'req.{a} is not stable across accesses: {r1!r} then {r2!r}'
            if r1[0] == 'http' or (r1[0] == 'ok' and r1[1] not in (None, {}, [])): nontriv = True
        # header lookup is case-insensitive
        for n, v in headers:
            for nm in (n.lower(), n.upper(), n.title()):
                try:
                    got = req.get_header(nm)
                except Exception as e:  # noqa
                    got = repr(e)
                if got != v: failed = failed or f'get_header({nm!r}) = {got!r}, sent {v!r}'
        # RFC-level expectations on valid input
        if mode == 'valid':
            for a, exp in expect.items():
                r = obs.get(a)
                if a == 'range':
                    if exp == 'skip': continue
                    if exp == 'bad':
                        if r[0] != 'http': failed = failed or f'Range {hv["range"]!r} (last < first) gave {r!r}, expected a 400'
                    elif r != ('ok', exp): failed = failed or f'Range {hv["range"]!r} read as {r!r}, RFC reading {exp!r}'
                elif a in ('date', 'if_modified_since', 'if_unmodified_since'):
                    dt, form, hname = exp
                    try:
                        full = ('ok', req.get_header_as_datetime(hname, obs_date=True))
                    except falcon.HTTPError as e:
                        full = ('http', int(str(e.status)[:3]))
                    except Exception as e:  # noqa
                        full = ('EXC', repr(e))
                    if full != ('ok', dt): failed = failed or f'get_header_as_datetime({hname!r}, obs_date=True) on {hv[hname.lower()]!r} gave {full!r}, RFC reading {dt.isoformat()}'
                    if r != ('ok', dt):
                        if form != 'imf' and r[0] == 'http':
                            ctx.oracle('http-date: all three RFC 9110 forms accepted', False, f'obs-date form ({form}) is rejected with 400 by req.{a} (only IMF-fixdate is read)', {'header': hname, 'value': hv[hname.lower()], 'stack': stack})
                        else:
                            failed = failed or f'{a} {hv[hname.lower()]!r} read as {r!r}, RFC reading {dt.isoformat()}'
                elif a in ('if_match', 'if_none_match'):
                    if r != ('ok', exp): failed = failed or f'{a} {hv[a.replace("_", "-")]!r} read as {r!r}, RFC reading {exp!r}'
                elif a == 'accept_ranges':
                    for media in MTYPES:
                        try:
                            got = req.client_accepts(media)
                        except Exception as e:  # noqa
                            got = repr(e)
                        want = rfc_accepts(exp, media)
                        if got != want: failed = failed or f'client_accepts({media!r}) with Accept {hv["accept"]!r} is {got!r}, RFC 9110 reading {want!r}'
                    for prop, media in (('client_accepts_json', 'application/json'), ('client_accepts_xml', 'application/xml')):
                        if obs[prop] != ('ok', rfc_accepts(exp, media)): failed = failed or f'{prop} with Accept {hv["accept"]!r} is {obs[prop]!r}'
                elif a == 'cookies':
                    first = {}
                    for n, v, q in exp: first.setdefault(n, (v, q))
                    if r[0] != 'ok' or set(r[1]) != set(first) or any(r[1][n] != v and not (q and r[1][n] == '"' + v + '"') for n, (v, q) in first.items()):
                        failed = failed or f'cookies {hv["cookie"]!r} read as {r!r}, RFC reading {first!r}'
                elif a == 'forwarded':
                    want = [(e['src'], e['dest'], e['host'], e['scheme']) for e in exp]
                    if r != ('ok', want): failed = failed or f'Forwarded {hv["forwarded"]!r} read as {r!r}, RFC reading {want!r}'
                    route = [e['srchost'] for e in exp if e['src'] is not None]
                    ra = obs['remote_addr'][1]
                    want_route = (route + [ra]) if (route and route[-1] != ra) else (route or [ra])
                    if obs['access_route'] != ('ok', want_route): failed = failed or f'access_route for {hv["forwarded"]!r} is {obs["access_route"]!r}, expected {want_route!r}'
                elif a in ('xff', 'xri'):
                    if 'forwarded' in expect or (a == 'xri' and 'xff' in expect): continue
                    base = exp if a == 'xff' else [exp]
                    ra = obs['remote_addr'][1]
                    want_route = base if base[-1] == ra else base + [ra]
                    if obs['access_route'] != ('ok', want_route): failed = failed or f'access_route for {hv} is {obs["access_route"]!r}, expected {want_route!r}'
                else:
                    if r != ('ok', exp): failed = failed or f'{a} for {hv}: {r!r}, RFC reading {exp!r}'
        ctx.oracle('accessors: RFC value on valid input, stable on repeat, only 400-class errors, case-insensitive lookup',
                   failed is None, failed, {'stack': stack, 'scheme': scheme, 'headers': headers, 'mode': mode})
        ctx.seen((stack, scheme, tuple(headers)), nontriv)
        ctx.count('mode_' + mode); ctx.count('stack_' + stack)
        # ---- model correspondence on the modelled cores
        sess.case({'stack': stack, 'headers': headers})
        clv = hv.get('content-length'); rgv = hv.get('range'); hov = hv.get('host')
        sess.op(f'{"cl" if stack == "wsgi" else "clb"} {show_opt(clv)}', rd_cl(obs['content_length']))
        sess.op(f'range {show_opt(rgv)}', rd_range(obs['range']))
        sess.op(f'unit {show_opt(rgv)}', rd_unit(obs['range_unit']))
        sess.op(f'host {show_opt(hov)} {hs("srv.example")}', 'bad' if obs['host'][0] == 'http' else 'ok ' + hs(obs['host'][1]))
        sp = 8000 if scheme == 'http' else 8443
        sess.op(f'port {show_opt(hov)} {1 if scheme == "https" else 0} {sp}', 'bad' if obs['port'][0] == 'http' else f'ok {"none" if obs["port"][1] is None else obs["port"][1]}')
        for a in ('if_match', 'if_none_match'):
            v = hv.get(a.replace('_', '-'))
            if v is not None and obs[a][0] == 'ok':
                sess.op(f'etags {hs(v)}', rd_tags(obs[a]))
        if hov is not None:
            d = rnd.choice([None, 80, 443])
            try:
                h, p = furi.parse_host(hov, d); e = f'ok {hs(h)} {"none" if p is None else p}'
            except ValueError:
                e = 'valueError'
            sess.op(f'phost {hs(hov)} {"none" if d is None else d}', e)
        sess2.case({'stack': stack, 'headers': headers})
        fw_ops(req, stack, hv, obs, obs2)
    # ---- Forwarded / access_route / Cookie: the parsing functions directly, and access_route with all header sources and remote addresses
    import http.cookies as hcookies
    from falcon.forwarded import _parse_forwarded_header
    for _ in range(ctx.n(1500, 15000)):
        k = rnd.random(); fexp = None
        if k < 0.3: v, fexp = gen_forwarded()
        elif k < 0.45: v, _p = gen_cookie()
        elif k < 0.65: v = gen_cookie_esc()
        elif k < 0.8: v = rnd.choice(HOSTILE['Forwarded'] + HOSTILE['Cookie'])
        else: v = ''.join(rnd.choice('for=by;, \t"\\host=proto=HTTPS~a1_:[]\n\x00\xe9\xc007013') for _ in range(rnd.randint(0, 14)))
        if rnd.random() < 0.45:
            fexp = None
            for _m in range(rnd.randint(1, 2)): v = mutate(v)
        v = ''.join(c for c in v if ord(c) < 256)
        sess2.case({'value': v})
        sess2.op(f'forwarded {hs(v)}', rd_els([(f.src, f.dest, f.host, f.scheme) for f in _parse_forwarded_header(v)]))
        sess2.op(f'unquote {hs(v)}', hs(furi.unquote_string(v)))
        sess2.op(f'cunquote {hs(v)}', hs(hcookies._unquote(v)))
        sess2.op(f'jar {hs(v)}', rd_jar(rh._parse_cookie_header(v) if v else {}))
        q = '"' + ''.join(rnd.choice(['a', '~', ' ', '\\\\', '\\"', '\\a', '\\', ',', ';']) for _ in range(rnd.randint(0, 6))) + '"'
        sess2.op(f'unquote {hs(q)}', hs(furi.unquote_string(q)))
        sess2.op(f'cunquote {hs(q)}', hs(hcookies._unquote(q)))
        # DQUOTE handling is uniform: the empty quoted value is treated like every other quoted value
        qv = ''.join(rnd.choice(COOKIE_OCTET) for _ in range(rnd.randint(1, 4)))
        ch = rnd.choice(['e=""; f="%s"', 'f="%s"; e=""', 'f="%s";e=""']) % qv
        rq = mk_wsgi([('Cookie', ch)]) if rnd.random() < 0.5 else mk_asgi([('Cookie', ch)])
        cr = read(rq, 'cookies')
        ok = cr[0] == 'ok' and ((cr[1].get('e'), cr[1].get('f')) in (('', qv), ('""', '"' + qv + '"')))
        ctx.oracle('cookies: a quoted value is read the same way whether it is empty or not (DQUOTEs either always or never part of the value)', ok,
                   None if ok else f'Cookie {ch!r} read as {cr!r}', {'cookie': ch})
        # access_route: Forwarded / X-Forwarded-For / X-Real-IP present or not, remote address sometimes equal to the last hop
        stack = rnd.choice(['wsgi', 'asgi']); hdrs = []; want = None
        if rnd.random() < 0.6: hdrs.append((casing('Forwarded'), v))
        xff = xri = None
        if rnd.random() < 0.5:
            if rnd.random() < 0.7: xff, ips = gen_xff()
            else: xff = rnd.choice(HOSTILE['X-Forwarded-For']); ips = [x.strip() for x in xff.split(',')]
            hdrs.append((casing('X-Forwarded-For'), xff))
        if rnd.random() < 0.4:
            xri = gen_ip() if rnd.random() < 0.7 else rnd.choice(HOSTILE['X-Real-IP']); hdrs.append((casing('X-Real-IP'), xri))
        if hdrs and hdrs[0][0].lower() == 'forwarded':
            if fexp is not None: want = [e['srchost'] for e in fexp if e['src'] is not None]
        elif xff is not None: want = ips
        elif xri is not None: want = [xri]
        else: want = []
        cands = ['127.0.0.1', '10.1.2.3', '::1'] + ([want[-1]] * 3 if want else [])
        if stack == 'asgi' and rnd.random() < 0.03: cands = ['']
        remote = rnd.choice(cands)
        req = mk_wsgi(hdrs, remote=remote) if stack == 'wsgi' else mk_asgi(hdrs, remote=remote)
        r1 = read(req, 'access_route'); r2 = read(req, 'access_route')
        hv = {n.lower(): x for n, x in hdrs}
        ok = r1[0] == 'ok' and r1 == r2; what = None
        if not ok: what = f'access_route gave {r1!r} then {r2!r}'
        elif want is not None:
            want_route = (want if want[-1] == remote else want + [remote]) if want else ([remote] if remote else [])
            if r1[1] != want_route: ok = False; what = f'access_route is {r1[1]!r}, expected the hops {want!r} then remote_addr {remote!r} unless equal to the last: {want_route!r}'
        ctx.oracle('access_route: hops of the first present header among Forwarded / X-Forwarded-For / X-Real-IP, then remote_addr unless equal to the last; stable; no exception',
                   ok, what, {'stack': stack, 'headers': hdrs, 'remote_addr': remote})
        if r1[0] == 'ok' and r2[0] == 'ok':
            sess2.op(f'route2 {1 if stack == "asgi" else 0} {show_opt(hv.get("forwarded"))} {show_opt(xff)} {show_opt(xri)} {hs(remote)}', rd_route(r1[1]) + ' / ' + rd_route(r2[1]))
        ctx.seen(('route', stack, tuple(hdrs), remote, v), True)
        ctx.count('route_' + ('forwarded' if 'forwarded' in hv else 'xff' if xff is not None else 'xri' if xri is not None else 'none'))
    # ---- direct ETag / _parse_etags / response->request read-back
    for _ in range(ctx.n(1500, 15000)):
        v, tags = gen_etags()
        if rnd.random() < 0.4: v = mutate(v)
        v = ''.join(c for c in v if ord(c) < 256)
        sess.case({'etags': v})
        got = rh._parse_etags(v)
        sess.op(f'etags {hs(v)}', 'none' if got is None else ('star' if (len(got) == 1 and not hasattr(got[0], 'is_weak')) else 'tags ' + ','.join(('W:' if t.is_weak else 'S:') + hs(str(t)) for t in got)))
        if ',' not in v and v.strip() and v.strip() != '*':
            t = ETag.loads(v); sess.op(f'loads {hs(v)}', ('W:' if t.is_weak else 'S:') + hs(str(t)))
        val = ''.join(rnd.choice(ETAGC) for _ in range(rnd.randint(1, 5))); wk = rnd.random() < 0.5
        t = ETag(val); t.is_weak = wk
        sess.op(f'dumps {"W" if wk else "S"} {hs(val)}', hs(t.dumps()))
        # values written by the response API read back to the same values
        resp = falcon.Response(); dstr, dt, _ = gen_date(obs=False)
        resp.last_modified = dt; resp.etag = ('W/"' + val + '"') if wk else val
        hd = dict(resp.headers)
        rq = mk_wsgi([('If-Modified-Since', hd['last-modified']), ('If-None-Match', hd['etag'])])
        back_dt = read(rq, 'if_modified_since'); back_tag = read(rq, 'if_none_match')
        ok = back_dt == ('ok', dt) and back_tag == ('ok', [(val, wk)])
        ctx.oracle('response-written date and entity-tag read back unchanged', ok,
                   None if ok else f'wrote last_modified={dt.isoformat()} etag={(val, wk)!r}; headers {hd!r}; read back {back_dt!r} {back_tag!r}', {'date': dt.isoformat(), 'etag': val, 'weak': wk})
        ctx.seen(('etag', v, val, wk), True)
    sess.finish()
    sess2.finish()

"""C10 - URI encode/decode are total, lossless inverses with RFC 3986 output."""
PROP = 'C10'
LEAN_MODULES = ['FalconModel.UriEncodeProofs', 'FalconModel.Utf8', 'FalconModel.Utf8Enc', 'FalconModel.Utf8Proofs', 'FalconModel.UriStr', 'FalconModel.UriStrProofs',
                'FalconModel.Forwarded', 'FalconModel.ForwardedProofs', 'FalconModel.UnquoteStringProofs']
DRIVERS = ['uddriver', 'fwdriver']
THEOREMS = [
    # falcon.util.uri.decode: the three code paths = the left-to-right reference decoder (round 0)
    'Probe.decodeImpl_eq_ref', 'Probe.joinTokensBA_eq', 'Probe.decode_pct_tokens', 'Probe.splitPct_spec', 'Probe.decode_encode',
    # the four encoders of _create_str_encoder, generic in the allowed set, then instantiated with the tables of uri.py
    'Uri.encodeWith_charset', 'Uri.encodeWith_wf', 'Uri.encode_grammar', 'Uri.encodeValue_grammar',
    'Uri.decode_encodeWith', 'Uri.decodePlus_encodeWith', 'Uri.decode_encode_value', 'Uri.decode_encode_uri',
    'Uri.decode_encode_uri_plus_witness',
    'Uri.allowedValue_pct', 'Uri.allowedValue_plus', 'Uri.allowedUri_pct', 'Uri.hex_allowedValue', 'Uri.hex_allowedUri',
    # check-escaped heuristic
    'Uri.escaped_looksEscaped', 'Uri.encodeCheck_fixpoint', 'Uri.encodeCheck_idem', 'Uri.wfEsc_escaped',
    'Uri.encodeCheckEscaped_fixpoint', 'Uri.encodeValueCheckEscaped_fixpoint',
    'Uri.encodeCheckEscaped_idem', 'Uri.encodeValueCheckEscaped_idem',
    'Uri.checkEscaped_rejects_G1', 'Uri.checkEscaped_keeps_lower',
    # parse_host on the valid authority forms
    'Uri.parseHost_plain', 'Uri.parseHost_port', 'Uri.parseHost_v6', 'Uri.parseHost_v6_port',
    # UTF-8: bytes.decode('utf-8','replace') (U8.decodeReplace) against str.encode() (U8.encode)
    'U8.decodeReplace_encode', 'U8.decodeReplace_encodeCp', 'U8.decodeReplace_encode_surrogate_witness', 'U8.decodeReplace_total', 'U8.decodeFuel_stable',
    'U8.decodeReplace_cons', 'U8.decodeReplace_ascii', 'U8.decodeReplace_length_le', 'U8.step_val', 'U8.decodeReplace_scalar', 'U8.decodeReplace_no_surrogates',
    'U8.encode?_decodeReplace', 'U8.decodeReplace_encode_decodeReplace', 'U8.encodeCp_high', 'U8.mem_encode_ascii', 'U8.encode_map_toNat', 'U8.encode_injective',
    # str level: the transcription of decode / the four encoders / parse_host on code points (Us.*) refines the byte-level model, and the lifted theorems
    'Us.decode_eq_bytes', 'Us.encodeStr_eq_bytes', 'Us.encodeCheckStr_eq_bytes', 'Us.encode_replacePlus', 'Us.contains_encode', 'Us.all_allowedCp', 'Us.looksEscapedS_eq',
    'Us.decode_encode_value_str', 'Us.decode_encode_uri_str', 'Us.decode_encodeStr', 'Us.decode_encode_uri_str_plus_witness', 'Us.decode_str_total',
    'Us.encodeStr_charset', 'Us.encodeValue_charset', 'Us.encode_charset', 'Us.encodeStr_grammar', 'Us.encodeValue_grammar', 'Us.encode_grammar', 'Us.encode_encodeStr',
    'Us.allowedValue_ascii', 'Us.allowedUri_ascii',
    'Us.encodeCheckStr_idem', 'Us.encodeCheckStr_fixpoint', 'Us.encodeCheckEscaped_idem', 'Us.encodeValueCheckEscaped_idem',
    'Us.encodeCheckEscaped_fixpoint', 'Us.encodeValueCheckEscaped_fixpoint',
    # falcon.util.uri.unquote_string = Fw.unquoteString (Forwarded.lean, shared with C09): all three paths, any characters
    'Fw.unquoteString_general', 'Fw.unquoteString_quote', 'Fw.unquoteString_unchanged', 'Fw.unqGen_items_general', 'Fw.unq3_eq_gen', 'Fw.unquoteString_quoted',
    'Us.parseHost_plain', 'Us.parseHost_port', 'Us.parseHost_v6', 'Us.parseHost_v6_port', 'Us.parseHost_bytes_differs_witness',
]
STATEMENTS = {
    'Probe.decodeImpl_eq_ref': 'for every byte string, the implementation of decode (no-% fast path; < 8 tokens in-place loop; >= 8 tokens bytearray joiner) equals the left-to-right reference decoder: well-formed %XX -> byte, anything else literal',
    'Uri.encodeWith_wf': 'for every allowed set without % and every byte string, the encoder output matches ( allowed | % UPPERHEX UPPERHEX )* - no stray %, no lower-case escape',
    'Uri.encodeWith_charset': 'every output byte of an encoder is an allowed character, % or an upper-case hex digit',
    'Uri.decode_encode_value': 'decode(encode_value(s), unquote_plus) = s for every byte string s and both settings of unquote_plus (all three decode paths, both encoder paths)',
    'Uri.decode_encode_uri': 'decode(encode(s), unquote_plus=False) = s for every byte string s',
    'Uri.decode_encode_uri_plus_witness': 'decode(encode("a+b")) with unquote_plus=True is not "a+b": whole-URI encoding keeps the delimiter +, so the side condition unquote_plus=False is necessary',
    'Uri.encodeCheck_fixpoint': 'if s matches ( allowed | % HEXDIG HEXDIG )* (either case) then the check-escaped encoder returns s unchanged (needs: hex digits are allowed, proved for both tables)',
    'Uri.encodeCheck_idem': 'f(f(s)) = f(s) for both check-escaped encoders and every byte string',
    'Uri.checkEscaped_rejects_G1': 'encode_value_check_escaped("%G1") = "%25G1": a non-hex escape does not pass the heuristic',
    'Uri.parseHost_port': 'for host without ":" and not starting with "[" and a port text without ":": parse_host(host ":" port) = (host, int(port) or the default when the port is empty)',
    'Uri.parseHost_v6_port': 'parse_host("[" inner "]:" port) = (inner, port | default) whenever the port text contains no "]" - whatever the bracketed text contains (the LAST "]:" splits)',
    'Uri.parseHost_v6': 'parse_host("[" inner "]") = (inner, default) when inner contains no "]"',
    'Uri.parseHost_plain': 'a host without ":" that does not start with "[" is returned whole with the default port',
    'U8.decodeReplace_encode': 'for every string s of Unicode scalar values: s.encode("utf-8").decode("utf-8", "replace") = s (the replace-decoder inverts the encoder; per code point for each of the 1/2/3/4-byte classes, with arbitrary bytes following)',
    'U8.decodeReplace_encode_surrogate_witness': 'the scalar-value hypothesis is necessary: the 3-byte pattern of U+D800 decodes to three U+FFFD',
    'U8.decodeReplace_total': 'the fuel of the decoder model never runs out: any fuel >= the input length gives the same result, i.e. the whole input is consumed',
    'U8.decodeReplace_ascii': 'on bytes < 0x80 the decoder is the identity',
    'U8.decodeReplace_length_le': 'the decoder emits at most one code point per input byte',
    'U8.step_val': 'each iteration emits an ASCII value, U+FFFD, or a code point in 0x80..0x7FF / 0x800..0xD7FF / 0xE000..0xFFFF / 0x10000..0x10FFFF',
    'U8.decodeReplace_scalar': 'for EVERY byte string, every code point of the decoded str is a Unicode scalar value (no surrogate, < 0x110000)',
    'U8.encode?_decodeReplace': 'the decoded str can always be encoded again (no UnicodeEncodeError)',
    'U8.mem_encode_ascii': 'an ASCII byte occurs in s.encode() iff that character occurs in s (so "%" in s / "+" in s can be tested on either side)',
    'U8.encode_injective': 'distinct strings of scalar values have distinct UTF-8 encodings',
    'Us.decode_eq_bytes': 'for every str s of scalar values, the str-level transcription of decode (str tests, str.replace, the short-circuit returning the str itself, encode() only on the slow path) = decodeReplace(byte-level decode(s.encode()))',
    'Us.encodeStr_eq_bytes': 'the str-level encoder (rstrip fast path returning the str, join of encode_char results) = the byte-level encoder on s.encode(), read as ASCII characters (needs: the allowed table is ASCII, proved for both tables)',
    'Us.encodeCheckStr_eq_bytes': 'the same refinement for the check-escaped encoders, including str.split("%") and the hex-digit test on characters',
    'Fw.unquoteString_general': 'unquote_string on ANY input bracketed by double quotes whose inside is a sequence of positions - a plain character other than the backslash (any character at all otherwise: controls, non-ASCII, a bare double quote) or a backslash followed by any character - returns exactly the characters the positions denote: left-to-right removal of the quotes and of each quoted-pair backslash; all three code paths (no backslash / no double backslash / split-replace-join, joined by Fw.unq3_eq_gen)',
    'Fw.unquoteString_quote': 'round trip: unquote_string inverts the quoted-string writer (backslash before " and \\, everything else verbatim) for EVERY string',
    'Fw.unquoteString_unchanged': 'input shorter than 2 characters or not starting AND ending with a double quote is returned unchanged',
    'Us.decode_encode_value_str': 'decode(encode_value(s), unquote_plus) = s for EVERY str s of Unicode scalar values and both settings of unquote_plus - at str level, through str.encode() and bytes.decode("utf-8","replace")',
    'Us.decode_encode_uri_str': 'decode(encode(s), unquote_plus=False) = s for every str s of Unicode scalar values',
    'Us.decode_encode_uri_str_plus_witness': 'decode(encode("a+b"), unquote_plus=True) = "a b" (str level): why whole-URI encoding needs unquote_plus=False',
    'Us.decode_str_total': 'decode returns a str of Unicode scalar values for every input str of scalar values (never a lone surrogate; re-encodable)',
    'Us.encodeStr_charset': 'every character of an encoder result is ASCII: an allowed character, "%" or an upper-case hex digit',
    'Us.encodeStr_grammar': 'the encoder result is an ASCII str matching ( allowed | % UPPERHEX UPPERHEX )*',
    'Us.encodeCheckStr_idem': 'f(f(s)) = f(s) for both check-escaped encoders and every str of scalar values',
    'Us.encodeCheckStr_fixpoint': 'a str whose UTF-8 bytes match ( allowed | % HEXDIG HEXDIG )* is returned unchanged by the check-escaped encoders',
    'Us.parseHost_port': 'str level (characters, not bytes; non-ASCII reg-names included): parse_host(host ":" port) = (host, port text | default when empty) for host, port without ":" and host not starting with "["',
    'Us.parseHost_v6_port': 'str level: parse_host("[" inner "]:" port) = (inner, port | default) whenever the port text has no "]"',
    'Us.parseHost_bytes_differs_witness': 'on "[é" (no closing bracket) host[1:-1] removes the CHARACTER é; the byte-level model Uri.parseHost would leave the lone byte C3 - the str-level model Us.parseHost is the faithful one for non-ASCII input',
}
TRUSTED = [
    'CPython str.encode() / bytes.decode("utf-8","replace") themselves: modelled by U8.encode / U8.decodeReplace (transcriptions, compared with CPython on every generated string incl. all UTF-8 length-class boundaries, '
    'the surrogate gap and ill-formed escapes); what IS proved is that the two models are inverse on scalar values and that the decoder only emits scalar values',
    'urllib.parse.unquote_to_bytes and the re module inside the independent oracle',
    'int() on ASCII digit strings (parse_host port)',
]
ASSUMPTIONS = [
    'str arguments consist of Unicode scalar values (a lone surrogate makes str.encode() raise UnicodeEncodeError inside encode/decode; such strings cannot come from a WSGI/ASGI server and are outside the quantifier)',
    'parse_host is specified on RFC 3986 authorities host[:port] (reg-name, IPv4, bracketed IP-literal; port = *DIGIT); on other input it may raise ValueError (C09 covers the request accessors)',
    'unquote_string is specified on RFC 7230 quoted-strings (oracle); the model Fw.unquoteString transcribes all three paths of the function and is compared with it on every generated input of code points < 256 (the fwdriver line protocol is Latin-1); the theorems hold for arbitrary characters',
    'the Cython twin falcon/cyutil/uri.pyx cannot be rebuilt offline and is not exercised (source mode blocks falcon.cyutil)',
]
RULE = ('ALL strings of length <= 3 (quick) / <= 4 (thorough) over the 18-letter alphabet {% + 0 9 A F a f g / ? - ~ space NUL e-acute euro U+1F600} '
        '(6 175 / 111 151 strings, enumerated completely, split over the shards), plus all pairs over the UTF-8 boundary code points U+007F U+0080 U+07FF U+0800 U+D7FF U+E000 U+FFFD U+FFFF U+10000 U+10FFFF '
        '(also next to % / + / escapes), plus ALL 22 x 22 spellings of a hex-digit pair after "%" (both cases, mixed within one escape) in 8 contexts (alone, between literals, as continuation / lead byte of 2-, 3-, 4-byte '
        'UTF-8 sequences, behind 7 escapes = long path), plus for each of 26 separator-like ASCII characters (; # : @ & = , ? space / [ ] ! * \' ( ) $ . _ \\ " | TAB LF CR) and 20 special code points '
        '(U+FEFF, zero-width / bidi marks, U+2028/9, NEL, NBSP, SHY, non-characters U+FFFE U+FFFF U+FDD0 U+1FFFE, U+FFFD, both neighbours of the surrogate gap, a tag character, U+10FFFF) every string of length <= 3 / 4 over {% + 4 a F X} containing X, '
        'plus every special code point raw / escaped in upper, lower and mixed case / partially escaped / raw next to escaped, and 7 escapes of the surrogate range, x 7 prefixes x 7 suffixes (at the START of the result, inside, at the end; '
        'short path and long path), plus strings made ONLY of "%" and hex digits with 3..20 "%" signs (mostly 7..12) whose piece lengths are unbalanced (total kept at 3n by compensating moves, independent lengths, +-1/2 edits), '
        'plus random code-point strings over the whole range (10 % with a lone surrogate: str.encode() only, UnicodeEncodeError expected), plus random strings built from alphabet letters, well-formed escapes '
        '(ASCII, valid multi-byte UTF-8, invalid UTF-8), malformed escapes, separators, special code points and "+" with 0..2 000 pieces (15 % start with a special code point, raw or escaped) (up to ~8 KB; a quarter have 5..10 "%" to sit on the 8-token '
        'path switch), plus RFC 3986 authorities (reg-name / IPv4 / IP-literal x port absent, empty, 1-5 digits) with single-character mutations, plus RFC 7230 quoted-strings. '
        'Each string goes through decode (unquote_plus True/False), encode, encode_value, encode_check_escaped, encode_value_check_escaped - every call is compared with the byte-level model '
        '(on s.encode()) AND with the str-level model (on the code points), together with s.encode(), s.encode().decode("utf-8","replace") and decode(encode*(s)); authorities also with non-ASCII characters (str-level parse_host). '
        'non-trivial = some function changed the string (an escape, a "+" or a character that needs escaping); distinct = distinct (kind, input string)')
PARTIAL = ('proved on UTF-8 bytes AND on str (code points): decode = reference, output grammar (ASCII), both round trips, check-escaped fixpoint/idempotence, parse_host on valid '
           'authorities; the str-level functions are separate transcriptions proved to refine the byte-level ones through U8.encode / U8.decodeReplace, with decodeReplace(encode(s)) = s proved. '
           'Not proved: that U8.encode / U8.decodeReplace are CPython\'s codecs (transcribed, tied by correspondence); what decode does with an ill-formed UTF-8 escape sequence is only characterised as '
           '"scalar values out, U+FFFD for ill-formed parts" (no theorem pins the maximal-subpart grouping); int() beyond ASCII digits. unquote_string: proved (all three paths = left-to-right unquoting for arbitrary characters, inverse of the quoted-string writer, non-bracketed input unchanged); what it returns for a bracketed input whose inside ends in a lone backslash is only shown by example (the backslash is dropped).')
JOBS = {'quick': 4, 'thorough': 16}

ALPHABET = ['%', '+', '0', '9', 'A', 'F', 'a', 'f', 'g', '/', '?', '-', '~', ' ', '\x00', 'é', '€', '\U0001F600']

# first / last code point of every UTF-8 length class, both sides of the surrogate gap, U+FFFD itself
BOUNDARY = ['\x7f', '\x80', '\u07ff', '\u0800', '\ud7ff', '\ue000', '\ufffd', '\uffff', '\U00010000', '\U0010ffff']

# every spelling of a hex digit: the 22 x 22 pairs after '%' are all swept (both cases, mixed within one escape)
HEXD = '0123456789ABCDEFabcdef'
# characters nothing in uri.py splits on or rewrites - but somebody might (RFC 3986 gen-delims / sub-delims, space)
SEPS = [';', '#', ':', '@', '&', '=', ',', '?', ' ', '/', '[', ']', '!', '*', "'", '(', ')', '$', '.', '_', '\\', '"', '|', '\t', '\n', '\r']
# code points some codec / text layer treats specially: BOM / ZWNBSP (utf-8-sig strips it at the start), zero-width and bidi marks, line/paragraph
# separators, NEL, NBSP, soft hyphen, non-characters, the last code point before / first after the surrogate gap, a tag character, the last code point
SPECIALS = ['\ufeff', '\u200b', '\u200d', '\u200e', '\u2028', '\u2029', '\u2060', '\ufffe', '\uffff', '\xa0', '\x85', '\xad', '\u061c', '\ud7ff', '\ue000',
            '\ufdd0', '\ufffd', '\U0001fffe', '\U000e0001', '\U0010ffff']
# escapes of the surrogate range (ill-formed UTF-8: CESU-8 style) and of its two neighbours
SURROGATE_ESC = ['%ED%A0%80', '%ED%AF%BF', '%ED%B0%80', '%ED%BF%BF', '%ED%A0%80%ED%B0%80', '%ed%a0%80', '%eD%Bf%bF']

# RFC 3986 section 2.2 / 2.3, typed out here (NOT imported from falcon)
RFC_UNRESERVED = 'ABCDEFGHIJKLMNOPQRSTUVWXYZabcdefghijklmnopqrstuvwxyz0123456789-._~'
RFC_GEN_DELIMS = ':/?#[]@'
RFC_SUB_DELIMS = "!$&'()*+,;="
RFC_RESERVED = RFC_GEN_DELIMS + RFC_SUB_DELIMS


def run(ctx):
    import itertools
    import re
    from urllib.parse import unquote_to_bytes
    from runner import hx
    from falcon.util import uri
    rnd = ctx.rng
    assert uri._cy_uri is None and uri.decode.__module__ == 'falcon.util.uri', 'pure-Python uri functions expected'

    HEX = '0123456789ABCDEFabcdef'

    def ref_decode(s, plus):
        """Left-to-right reading of the statement, on the UTF-8 bytes."""
        if plus:
            s = s.replace('+', ' ')
        b = s.encode('utf-8')
        out = bytearray()
        i = 0
        while i < len(b):
            if b[i] == 0x25 and i + 2 < len(b) and chr(b[i + 1]) in HEX and chr(b[i + 2]) in HEX:
                out.append(int(b[i + 1:i + 3].decode(), 16)); i += 3
            else:
                out.append(b[i]); i += 1
        return out.decode('utf-8', 'replace')

    def ref_decode_urllib(s, plus):
        if plus:
            s = s.replace('+', ' ')
        return unquote_to_bytes(s.encode('utf-8')).decode('utf-8', 'replace')

    def ref_encode(s, allowed):
        return ''.join(c if c in allowed else ''.join('%%%02X' % x for x in c.encode('utf-8')) for c in s)

    def cls(chars):
        return '[' + re.escape(chars) + ']'
    ALLOWED = {False: RFC_UNRESERVED + RFC_RESERVED, True: RFC_UNRESERVED}
    G_OUT = {v: re.compile('(?:%s|%%[0-9A-F]{2})*' % cls(a), re.S) for v, a in ALLOWED.items()}
    G_ESC = {v: re.compile('(?:%s|%%[0-9A-Fa-f]{2})*' % cls(a), re.S) for v, a in ALLOWED.items()}

    def call(f, *a, **kw):
        try:
            return f(*a, **kw)
        except Exception as e:  # noqa
            return e

    def cps(s):
        return '.'.join(str(ord(c)) for c in s) if s else '-'

    sess = ctx.session('uri.decode / encode* / parse_host = Uri model', 'uddriver', norm=_norm_host)

    # the model's tables are the real constants
    sess.case({'kind': 'tables'})
    sess.op('tables', hx(uri._UNRESERVED.encode()) + ' ' + hx(uri._DELIMITERS.encode()))
    ok = set(uri._UNRESERVED) == set(RFC_UNRESERVED) and set(uri._DELIMITERS) == set(RFC_RESERVED)
    ctx.oracle('allowed tables are the RFC 3986 unreserved / reserved sets', ok,
               None if ok else f'_UNRESERVED={uri._UNRESERVED!r} _DELIMITERS={uri._DELIMITERS!r}', {'tables': True})

    ENC = [(0, uri.encode, False), (1, uri.encode_value, True)]
    CHK = [(2, uri.encode_check_escaped, False), (3, uri.encode_value_check_escaped, True)]

    def one_string(s, kind):
        h = hx(s.encode('utf-8'))
        c = cps(s)
        sess.case({'kind': kind, 'len': len(s)})
        changed = False
        # ---- str <-> bytes: CPython's str.encode() = U8.encode, and bytes.decode('utf-8','replace') inverts it (decodeReplace_encode)
        sess.op(f'u8enc {c}', h)
        sess.op(f'roundtrip {c}', cps(s.encode('utf-8').decode('utf-8', 'replace')))
        # ---- decode
        bad = None
        for plus in (True, False):
            d = call(uri.decode, s, unquote_plus=plus) if not plus else call(uri.decode, s)
            sess.op(f'decode {1 if plus else 0} {h}', cps(d) if isinstance(d, str) else 'EXC:' + type(d).__name__)
            sess.op(f'sdecode {1 if plus else 0} {c}', cps(d) if isinstance(d, str) else 'EXC:' + type(d).__name__)   # str-level model (Us.decode)
            if not isinstance(d, str):
                bad = bad or f'decode(unquote_plus={plus}) raised {type(d).__name__}: {d}'
                continue
            changed = changed or d != s
            r1, r2 = ref_decode(s, plus), ref_decode_urllib(s, plus)
            if d != r1:
                bad = bad or f'decode(unquote_plus={plus}) = {d[:80]!r}, left-to-right reference gives {r1[:80]!r}'
            elif d != r2:
                bad = bad or f'decode(unquote_plus={plus}) = {d[:80]!r}, urllib.unquote_to_bytes gives {r2[:80]!r}'
        ctx.oracle('decode == reference decoder (own left-to-right scanner and urllib.parse.unquote_to_bytes), never raises',
                   bad is None, bad, {'fn': 'decode', 'input': s})
        # ---- encode / encode_value
        bad = None; badrt = None
        for k, f, isval in ENC:
            e = call(f, s)
            sess.op(f'enc {k} {h}', hx(e.encode('utf-8')) if isinstance(e, str) else 'EXC:' + type(e).__name__)
            sess.op(f'senc {k} {c}', cps(e) if isinstance(e, str) else 'EXC:' + type(e).__name__)                     # str-level model (Us.encode*)
            if not isinstance(e, str):
                bad = bad or f'{f.__name__} raised {type(e).__name__}: {e}'
                continue
            changed = changed or e != s
            if not G_OUT[isval].fullmatch(e):
                bad = bad or f'{f.__name__} output {e[:80]!r} is not ( {"unreserved" if isval else "unreserved|reserved"} | %XX upper-case )*'
            elif e != ref_encode(s, ALLOWED[isval]):
                bad = bad or f'{f.__name__} = {e[:80]!r}, reference %XX-of-UTF-8 encoding is {ref_encode(s, ALLOWED[isval])[:80]!r}'
            if isval:
                for plus in (True, False):
                    d = call(uri.decode, e, unquote_plus=plus)
                    sess.op(f'srt 1 {1 if plus else 0} {c}', cps(d) if isinstance(d, str) else 'EXC:' + type(d).__name__)
                    if d != s:
                        badrt = badrt or f'decode(encode_value(s), unquote_plus={plus}) = {str(d)[:80]!r} != s'
            else:
                d = call(uri.decode, e, unquote_plus=False)
                sess.op(f'srt 0 0 {c}', cps(d) if isinstance(d, str) else 'EXC:' + type(d).__name__)
                if d != s:
                    badrt = badrt or f'decode(encode(s), unquote_plus=False) = {str(d)[:80]!r} != s'
        ctx.oracle('encode / encode_value == RFC 3986 reference encoder: allowed characters verbatim, upper-case %XX of the UTF-8 bytes otherwise',
                   bad is None, bad, {'fn': 'encode', 'input': s})
        ctx.oracle('round trip: decode(encode_value(s)) == s (both unquote_plus), decode(encode(s), unquote_plus=False) == s',
                   badrt is None, badrt, {'fn': 'roundtrip', 'input': s})
        # ---- check-escaped variants
        bad = None
        for k, f, isval in CHK:
            e = call(f, s)
            sess.op(f'enc {k} {h}', hx(e.encode('utf-8')) if isinstance(e, str) else 'EXC:' + type(e).__name__)
            sess.op(f'senc {k} {c}', cps(e) if isinstance(e, str) else 'EXC:' + type(e).__name__)                     # str-level model (Us.encode*CheckEscaped)
            if not isinstance(e, str):
                bad = bad or f'{f.__name__} raised {type(e).__name__}: {e}'
                continue
            changed = changed or e != s
            if G_ESC[isval].fullmatch(s) and e != s:
                bad = bad or f'{f.__name__} changed the fully escaped input into {e[:80]!r}'
            elif not G_ESC[isval].fullmatch(e):
                bad = bad or f'{f.__name__} output {e[:80]!r} is not ( allowed | %XX )* - a "%" that is not an escape survived'
            else:
                e2 = call(f, e)
                if e2 != e:
                    bad = bad or f'{f.__name__} is not idempotent: f(s) = {e[:80]!r}, f(f(s)) = {str(e2)[:80]!r}'
        ctx.oracle('check-escaped encoders: fully escaped input unchanged; output is ( allowed | %XX )*; idempotent',
                   bad is None, bad, {'fn': 'check_escaped', 'input': s})
        ctx.seen((kind[0], s), changed)

    # ---------------- 1. the complete bounded space
    L = 3 if ctx.quick else 4
    i, k = ctx.shard
    idx = 0
    for n in range(L + 1):
        for tup in itertools.product(ALPHABET, repeat=n):
            if idx % k == i:
                one_string(''.join(tup), 'exhaustive')
                ctx.count(f'exhaustive_len_{n}')
            idx += 1

    # ---------------- 1b. the boundaries of the four UTF-8 length classes and of the surrogate gap, alone, in pairs, and next to % / + / an escape
    for a in [''] + BOUNDARY:
        for b in [''] + BOUNDARY + ['%', '+', '%41', '%C3%A9', '%ED%A0%80']:
            for t in sorted({a + b, b + a}):
                if idx % k == i:
                    one_string(t, 'boundary')
                    ctx.count('boundary')
                idx += 1
    # ---------------- 1c. every spelling of an escape: all 22 x 22 hex-digit pairs after '%' (both cases, mixed within ONE escape), alone, between
    #                  literals, in continuation / lead position of 2-, 3- and 4-byte UTF-8 sequences, and behind 7 escapes (long path)
    PAIR_CTX = ['%{p}', 'a%{p}b', '%C3%{p}', '%{p}%A9', '%e2%82%{p}', '%{p}%82%aC', '%F0%9f%98%{p}', '%41%42%43%44%45%46%47%{p}']
    for x in HEXD:
        for y in HEXD:
            for c_ in PAIR_CTX:
                if idx % k == i:
                    one_string(c_.replace('{p}', x + y), 'hex_pair_sweep')
                    ctx.count('hex_pair_' + ('mixed_case_letters' if (x + y).isalpha() and not (x + y).isupper() and not (x + y).islower() else 'uniform'))
                idx += 1

    # ---------------- 1d. one extra letter at a time: every string of length <= 3 (4) over {% + 4 a F X} that contains X, for every separator nobody
    #                  splits on and every special code point (raw)
    for xch in SEPS + SPECIALS:
        for n in range(1, L + 1):
            for tup in itertools.product(['%', '+', '4', 'a', 'F', xch], repeat=n):
                if xch not in tup:
                    continue
                if idx % k == i:
                    one_string(''.join(tup), 'extra_letter_sweep')
                    ctx.count('extra_letter_' + ('separator' if xch in SEPS else 'special_code_point'))
                idx += 1

    # ---------------- 1e. special code points at the START, inside and at the end - raw, escaped (upper / lower / mixed case), partially escaped -
    #                  on the short path (<= 6 '%') and on the long path (>= 7 '%'); escapes of the surrogate range
    def esc(t, style):
        out = []
        for b in t.encode('utf-8'):
            h = '%02X' % b
            if style == 'lower': h = h.lower()
            elif style == 'mixed': h = ''.join(rnd.choice([ch.lower(), ch.upper()]) for ch in h)
            out.append('%' + h)
        return out
    spell = []
    for sp in SPECIALS:
        e_up = esc(sp, 'upper')
        spell += [sp, ''.join(e_up), ''.join(esc(sp, 'lower')), ''.join(esc(sp, 'mixed')), ''.join(e_up[:-1]), sp + ''.join(e_up), ''.join(e_up) + sp]
    spell += SURROGATE_ESC
    PRE = ['', 'a', '%41', '+', '%', 'é', '%41%42%43%44%45%46%47']
    SUF = ['', 'a', '%41', '%', '%4', '+', '%41%42%43%44%45%46%47']
    for sp in spell:
        for a in PRE:
            for b in SUF:
                if idx % k == i:
                    t = a + sp + b
                    one_string(t, 'special_code_points')
                    ctx.count('special_' + ('at_start' if a == '' else 'inside_or_end') + ('_long_path' if t.count('%') >= 7 else '_short_path' if '%' in t else '_no_pct'))
                idx += 1

    # str.encode() alone on the whole code-point range (the model of UnicodeEncodeError included: a lone surrogate is refused)
    for _ in range(ctx.n(1500, 15000)):
        r = rnd.random()
        pts = [rnd.choice([0x7f, 0x80, 0x7ff, 0x800, 0xfff, 0x1000, 0xcfff, 0xd000, 0xd7ff, 0xe000, 0xffff, 0x10000, 0x3ffff, 0x40000, 0xfffff, 0x100000, 0x10ffff])
               + rnd.choice([0, 0, 0, -1, 1]) if rnd.random() < 0.5 else
               rnd.randrange(0x80) if rnd.random() < 0.2 else rnd.randrange(0x110000) for _ in range(rnd.randint(1, 6))]
        pts = [min(max(x, 0), 0x10ffff) for x in pts]
        if r < 0.1:
            pts[rnd.randrange(len(pts))] = rnd.choice([0xd800, 0xdbff, 0xdc00, 0xdfff, rnd.randrange(0xd800, 0xe000)])
        t = ''.join(map(chr, pts))
        got = call(t.encode, 'utf-8')
        sess.case({'kind': 'str.encode', 'len': len(t)})
        sess.op(f'u8enc {cps(t)}', hx(got) if isinstance(got, bytes) else 'EXC:' + type(got).__name__)
        if isinstance(got, bytes):
            sess.op(f'roundtrip {cps(t)}', cps(got.decode('utf-8', 'replace')))
            if rnd.random() < 0.3:
                one_string(t, 'codepoints')
        ctx.count('str_encode_' + ('surrogate' if not isinstance(got, bytes) else 'scalars'))

    # ---------------- 2. random strings, up to several KB, crossing the 8-token switch
    WELL = ['%41', '%7e', '%2B', '%25', '%00', '%20', '%2f', '%C3%A9', '%c3%a9', '%E2%82%AC', '%F0%9F%98%80',
            '%C3', '%A9', '%FF', '%fe', '%ED%A0%80', '%C0%AF', '%E2%82', '%F0%9F', '%80',
            '%c3%A9', '%C3%a9', '%e2%82%aC', '%Ef%bB%Bf', '%EF%BB%BF', '%ef%bb%bf', '%E2%80%8B', '%E2%80%A8', '%EF%BF%BE', '%EF%BF%BF', '%ED%BF%BF', '%3B', '%3b', '%Fa', '%cE%b1']
    MAL = ['%', '%%', '%4', '%G1', '%1G', '%g', '% 1', '%+1', '%\x00', '%é', '%4€', '%-1', '%0x', '%x0']

    def piece():
        r = rnd.random()
        if r < 0.36: return rnd.choice(ALPHABET)
        if r < 0.40: return rnd.choice(SEPS + SPECIALS)
        if r < 0.55: return rnd.choice("bcdexyzXYZ12345678._:#[]@!$&'()*,;=\"<>\\^`{|}\n\t\x7f")
        if r < 0.78: return rnd.choice(WELL)
        if r < 0.83: return '%' + rnd.choice(HEXD) + rnd.choice(HEXD)          # any of the 484 spellings
        if r < 0.95: return rnd.choice(MAL)
        return chr(rnd.choice([0x7f, 0x80, 0xff, 0x100, 0x7ff, 0x800, 0xd7ff, 0xe000, 0xfffd, 0xffff, 0x10000, 0x10ffff]))

    def pct_hex_only():
        """Nothing but '%' and hex digits; the lengths of the pieces between the '%' signs are unbalanced in every way: a short piece (truncated
        escape) compensated by surplus digits elsewhere (the total stays 3 x the number of '%'), independent random lengths, or +-1 edits of a fully
        escaped string."""
        n = rnd.choice([3, 5, 6, 7, 7, 7, 8, 8, 9, 10, 11, 12, 12, 20])
        r = rnd.random()
        if r < 0.45:
            lens = [0] + [2] * n
            for _ in range(rnd.randint(1, 4)):
                a, b = rnd.randrange(n + 1), rnd.randrange(n + 1)
                if a != b and lens[a] > 0:
                    lens[a] -= 1; lens[b] += 1
            shape = 'balanced_total'
        elif r < 0.8:
            lens = [rnd.choice([0, 0, 1, 2, 3])] + [rnd.choice([0, 1, 2, 2, 2, 3, 4]) for _ in range(n)]
            shape = 'independent'
        else:
            lens = [0] + [2] * n
            for _ in range(rnd.randint(1, 3)):
                a = rnd.randrange(n + 1)
                lens[a] = max(0, lens[a] + rnd.choice([-2, -1, 1, 2]))
            shape = 'edited'
        digits = rnd.choice([HEXD, HEXD, '0123456789', 'abcdef', 'ABCDEF', 'abcdefABCDEF', '4'])
        return '%'.join(''.join(rnd.choice(digits) for _ in range(m)) for m in lens), shape, n

    for _ in range(ctx.n(3000, 60000)):
        s, shape, n = pct_hex_only()
        one_string(s, 'pct_and_hex_digits_only')
        ctx.count('pct_hex_only_' + shape + ('_short_path' if n < 7 else '_long_path'))
        ctx.count('pct_hex_only_total_' + ('equals_3n' if len(s) == 3 * n else 'differs_from_3n'))

    for _ in range(ctx.n(4000, 80000)):
        shape = rnd.random()
        if shape < 0.25:
            # 5..10 '%' signs: sits on the len(tokens) < 8 switch
            want = rnd.randint(5, 10)
            parts = []
            while sum(p.count('%') for p in parts) < want:
                parts.append(rnd.choice(WELL + MAL + MAL) if rnd.random() < 0.7 else rnd.choice(ALPHABET[1:]))
            rnd.shuffle(parts)
            s = ''.join(parts); kind = 'random_switch'
        elif shape < 0.35:
            # only escapes that are well formed and allowed characters: "already escaped"
            s = ''.join(rnd.choice(WELL + list('azAZ09-._~') + (list(":/?#[]@!$&'()*+,;=") if rnd.random() < 0.5 else []))
                        for _ in range(rnd.randint(1, 40))); kind = 'random_escaped'
        elif shape < 0.47:
            # an "already escaped"-looking string with exactly ONE character that must be encoded, at the end / start / inside
            # (line terminators, controls, space, non-ASCII, a lone or malformed '%'): the heuristic must not wave it through
            body = ''.join(rnd.choice(WELL[:11] + list('azAZ09-._~') + (list(":/?#[]@!$&'()*+,;=") if rnd.random() < 0.5 else []))
                           for _ in range(rnd.randint(0, 12)))
            intr = rnd.choice(['\n', '\n', '\r', '\r\n', '\x00', ' ', '\t', '\x0b', '\x0c', '\x1c', '\x7f', '\x85', '\xa0', '\u2028', '\u2029', 'é', '€', '\U0001f600',
                               '"', '<', '\\', '^', '`', '{', '|', '%', '%4', '%G1', '%\n'])
            pos = rnd.choice([len(body), len(body), 0, rnd.randint(0, len(body))])
            while 0 < pos < len(body) and ('%' in body[max(0, pos - 2):pos]):
                pos -= 1            # (do not split an escape)
            s = body[:pos] + intr + body[pos:]; kind = 'random_escaped_one_intruder'
        else:
            npieces = rnd.choice([3, 8, 8, 20, 20, 60, 200, 600, 2000])
            s = ''.join(piece() for _ in range(rnd.randint(1, npieces))); kind = 'random'
            if rnd.random() < 0.15:
                # a special code point as the very FIRST character of the result, raw or escaped
                sp = rnd.choice(SPECIALS)
                s = (sp if rnd.random() < 0.5 else ''.join(esc(sp, rnd.choice(['upper', 'lower', 'mixed'])))) + s
                ctx.count('random_with_leading_special_code_point')
        one_string(s, kind)
        ctx.count(kind)
        ctx.count('pct_signs_' + ('0' if '%' not in s else '1-6' if s.count('%') < 7 else '7+'))
        ctx.count('bytes_' + ('<100' if len(s.encode()) < 100 else '<1000' if len(s.encode()) < 1000 else '>=1000'))

    # ---------------- 2b. very long inputs (decoded size 60 KB .. 300 KB, around the multiples of 64 KiB): oracle only - the
    # model correspondence stays on the strings above (a 1 MB driver line per call is too slow), the theorems are size-independent
    def big_string(s, kind):
        bad = None
        for plus in (True, False):
            d = call(uri.decode, s, unquote_plus=plus)
            if not isinstance(d, str):
                bad = bad or f'decode(unquote_plus={plus}) raised {type(d).__name__}: {d}'
                continue
            r2 = ref_decode_urllib(s, plus)
            if d != r2:
                i = next((j for j, (x, y) in enumerate(zip(d, r2)) if x != y), min(len(d), len(r2)))
                bad = bad or (f'decode(unquote_plus={plus}) of a {len(s)}-character input differs from urllib.unquote_to_bytes at character {i}: '
                              f'{d[max(0, i - 3):i + 6]!r} vs {r2[max(0, i - 3):i + 6]!r} (lengths {len(d)} / {len(r2)})')
        ctx.oracle('decode == reference decoder (own left-to-right scanner and urllib.parse.unquote_to_bytes), never raises',
                   bad is None, bad, {'fn': 'decode', 'input_len': len(s), 'input_head': s[:60], 'input_unit': kind})
        ctx.seen(('big', kind, len(s)), True)
        ctx.count('huge_' + kind.split(':')[0])

    for _ in range(ctx.n(10, 40)):
        unit = rnd.choice(['€', 'é', '\U0001F600', 'é€', 'a€', '€\U0001F600é', 'Ж'])
        target = rnd.choice([65536, 65536, 131072, 196608]) + rnd.choice([-7, -2, -1, 0, 1, 2, 3, 5, 4000])
        lead = 'x' * rnd.randint(0, 4)
        reps = max(1, (target - len(lead)) // len(unit.encode())) + rnd.randint(0, 3)
        text = lead + unit * reps
        form = rnd.choice(['escaped', 'escaped', 'raw', 'mixed'])
        if form == 'escaped':
            s_big = ''.join('%%%02X' % b if b >= 0x80 else chr(b) for b in text.encode())
        elif form == 'raw':
            s_big = text + '%41'
        else:
            s_big = lead + (unit + ''.join('%%%02x' % b for b in unit.encode())) * (reps // 2 + 1)
        big_string(s_big, f'{form}:{unit.encode().hex()}')
        if form == 'escaped':
            rt = call(uri.decode, call(uri.encode_value, text), unquote_plus=False)
            okrt = rt == text
            ctx.oracle('round trip: decode(encode_value(s)) == s (both unquote_plus), decode(encode(s), unquote_plus=False) == s', okrt,
                       None if okrt else f'decode(encode_value(s)) != s for a {len(text)}-character s = {lead!r} + {unit!r} * {reps}: lengths {len(rt) if isinstance(rt, str) else rt!r} / {len(text)}',
                       {'fn': 'roundtrip', 'input_len': len(text), 'input_unit': unit, 'lead': lead, 'reps': reps})

    # ---------------- 3. parse_host on RFC 3986 authorities
    def reg_name():
        return ''.join(rnd.choice(['a', 'b', 'example', '.', '-', '~', '_', '1', '%41', '!', '$', '&', "'", '(', ')', '*', '+', ',', ';', '=', 'xn--', 'org'])
                       for _ in range(rnd.randint(0, 5)))

    def ipv4():
        return '.'.join(str(rnd.choice([0, 1, 10, 127, 192, 255])) for _ in range(4))

    def ip_literal():
        r = rnd.random()
        if r < 0.2: return rnd.choice(['::', '::1', '1::', '::ffff:192.0.2.1'])
        if r < 0.35: return 'v1.' + ''.join(rnd.choice('ab1:.-~!$') for _ in range(rnd.randint(1, 6)))
        g = [('%x' % rnd.randrange(65536)) for _ in range(rnd.randint(2, 8))]
        if rnd.random() < 0.4 and len(g) < 8:
            g.insert(rnd.randrange(len(g) + 1), '')
        return ':'.join(g)

    def shost(a, g):
        if isinstance(g, tuple):
            sess.op('shost ' + cps(a), cps(g[0]) + ' ' + ('default' if g[1] is None else str(g[1])))
        else:
            sess.op('shost ' + cps(a), '<ValueError>' if isinstance(g, ValueError) else 'EXC:' + type(g).__name__)

    for _ in range(ctx.n(3000, 30000)):
        form = rnd.choice(['reg', 'reg', 'v4', 'v6', 'v6'])
        hostpart = reg_name() if form == 'reg' else ipv4() if form == 'v4' else '[' + ip_literal() + ']'
        want_host = hostpart[1:-1] if form == 'v6' else hostpart
        pk = rnd.choice(['absent', 'empty', 'digits', 'digits', 'digits'])
        port = '' if pk != 'digits' else rnd.choice(['0', '80', '443', '8080', '65535', '00080', str(rnd.randrange(100000)),
                                                    rnd.choice(['000080', '0000000443', '000000', '100000', '4294967296', '0' * 30 + '1', str(rnd.randrange(10 ** 25))])])   # RFC 3986: port = *DIGIT, any length
        auth = hostpart + ('' if pk == 'absent' else ':' + port)
        if form == 'reg' and hostpart.startswith('['):
            continue
        default = rnd.choice([None, 80, 443])
        want = (want_host, int(port) if port else default)
        got = call(uri.parse_host, auth, default) if default is not None else call(uri.parse_host, auth)
        ok = got == want
        ctx.oracle('parse_host(valid host[:port] authority) == (host, numeric port, or the default when absent/empty)', ok,
                   None if ok else f'parse_host({auth!r}, {default}) = {got!r}, expected {want!r}', {'fn': 'parse_host', 'input': auth, 'default_port': default})
        ctx.seen(('h', auth, default), pk == 'digits' or form == 'v6')
        ctx.count(f'authority_{form}_port_{pk}')
        # correspondence: the authority and a single-character mutation of it (no theorem for the latter, the model must still agree)
        for a in (auth, _mutate(rnd, auth)):
            if a != auth and any(c in a for c in '+-_'):
                continue   # int() accepts signs/underscores; the model's int() is ASCII digits only
            g = call(uri.parse_host, a)
            if isinstance(g, tuple):
                exp = hx(g[0].encode()) + ' ' + ('default' if g[1] is None else str(g[1]))
            else:
                exp = None
            sess.case({'kind': 'parse_host', 'authority': a})
            if exp is None:
                # int() refused the port text: the model says 'nonnumeric' for the same host split; compare only that it is a port problem
                sess.op('host ' + hx(a.encode()), '<ValueError>' if isinstance(g, ValueError) else 'EXC:' + type(g).__name__)
            else:
                sess.op('host ' + hx(a.encode()), exp)
            shost(a, g)
        # str-level model only: the same authority with non-ASCII characters put in (slices and rfind count characters, not bytes)
        a = auth
        for _ in range(rnd.randint(1, 2)):
            j = rnd.randrange(len(a) + 1)
            a = a[:j] + rnd.choice(['é', '€', '\U0001F600', '\x80', '\uffff']) + a[j + rnd.choice([0, 0, 1]):]
        if rnd.random() < 0.3:
            a = _mutate(rnd, a)
        if not any(ch in a for ch in '+-_'):
            sess.case({'kind': 'parse_host_str', 'authority': a})
            shost(a, call(uri.parse_host, a))
            ctx.count('authority_non_ascii')

    # ---------------- 4. unquote_string: oracle + correspondence with Fw.unquoteString (fwdriver `unquote`)
    sessq = ctx.session('uri.unquote_string = Fw.unquoteString model (all three paths; Latin-1 inputs)', 'fwdriver')

    def tie_q(x, y):
        if isinstance(y, str) and all(ord(c) < 256 for c in x) and ' ' not in hx(x.encode('latin-1')):
            sessq.case({'fn': 'unquote_string', 'input': x})
            sessq.op('unquote ' + (hx(x.encode('latin-1')) or '-'), hx(y.encode('latin-1')) or '-')
            ctx.count('quoted_string_modelled')
    for _ in range(ctx.n(2000, 20000)):
        parts = []
        for _ in range(rnd.randint(0, 8)):
            r = rnd.random()
            if r < 0.6: parts.append(('t', rnd.choice(['a', 'b', ' ', '\t', '!', '#', '[', ']', '~', 'é', 'xyz', ','])))
            else: parts.append(('q', rnd.choice(['\\', '"', 'a', ' ', '\t', 'é', 'n'])))
        inner = ''.join(v if t == 't' else '\\' + v for t, v in parts)
        want = ''.join(v for _, v in parts)
        q = '"' + inner + '"'
        got = call(uri.unquote_string, q)
        tie_q(q, got)
        if rnd.random() < 0.25:
            # not necessarily a quoted-string: arbitrary characters incl. bare quotes / trailing backslashes (model comparison only)
            junk = ''.join(rnd.choice(['"', '\\', '\\\\', 'a', ' ', '\n', '\x00', 'é', '\xff', ',']) for _ in range(rnd.randint(0, 7)))
            junk = rnd.choice(['', '"', junk, '"' + junk, junk + '"', '"' + junk + '"'])
            tie_q(junk, call(uri.unquote_string, junk))
        ok = got == want
        if ok and rnd.random() < 0.3:
            # not a quoted-string: returned unchanged
            plain = rnd.choice(['', 'a', '"', 'abc', 'a"', '"a', 'a\\b', inner.replace('"', '')])
            if not (len(plain) >= 2 and plain[0] == '"' and plain[-1] == '"'):
                g2 = call(uri.unquote_string, plain)
                tie_q(plain, g2)
                if g2 != plain:
                    ok = False; got = g2; q = plain; want = plain
        ctx.oracle('unquote_string(quoted-string) == left-to-right removal of the quotes and of each quoted-pair backslash; other input unchanged', ok,
                   None if ok else f'unquote_string({q!r}) = {got!r}, expected {want!r}', {'fn': 'unquote_string', 'input': q})
        ctx.seen(('q', q), '\\' in q)
        ctx.count('quoted_string')
    sess.finish()
    sessq.finish()


def _norm_host(s):
    # a port text that int() refuses: the implementation raises ValueError, the model answers '<host> nonnumeric'
    if s.endswith(' nonnumeric') or s == '<ValueError>':
        return '<ValueError>'
    return s


def _mutate(rnd, a):
    if not a:
        return rnd.choice([':', '[', ']', '[]', ']:'])
    i = rnd.randrange(len(a) + 1)
    c = rnd.choice([':', '[', ']', ']:', 'x', '7', ''])
    if rnd.random() < 0.5:
        return a[:i] + c + a[i:]
    return a[:i] + c + a[i + 1:]


LEVEL_TEXT = ('Machine-checked proofs (Lean 4) on UTF-8 byte strings and, lifted through a proved-inverse pair of UTF-8 encoder / replace-decoder models, on str (code points): every code path of falcon.util.uri.decode equals the left-to-right reference decoder; '
              'the encoders emit exactly ( allowed | %XX upper-case )* for both allowed tables; decode(encode_value(s)) = s and decode(encode(s), unquote_plus=False) = s '
              '(with the witness that the latter needs unquote_plus=False); the check-escaped encoders fix every fully escaped string and are idempotent; parse_host returns '
              '(host, port) on reg-name/IPv4/IP-literal authorities with absent, empty or numeric port. The model is tied to falcon/util/uri.py on every run by a differential '
              'correspondence over the complete bounded string space plus long random strings, and an independent oracle written from the statement decides failing inputs.')
LEVEL_NOTE = ('Trusted: Lean kernel + standard axioms; the harness and oracle; that the UTF-8 models are CPython\'s str.encode / replace-decoding (transcribed, tied by correspondence; their inverse law is proved); '
              'unquote_string: model Fw.unquoteString tied by correspondence. The Cython twin is not exercised.')
TECHNIQUE = 'Lean 4 proofs about a transcribed model (3 decode paths, 4 encoders, parse_host, unquote_string; byte level and str level with a refinement theorem between them; UTF-8 codec pair) + exhaustive-bounded and random differential correspondence + statement oracle'

"""C11 - content negotiation and media-handler resolution follow RFC 9110 precedence; never a stale handler."""
PROP = 'C11'
LEAN_MODULES = ['FalconModel.Handlers', 'FalconModel.HandlersRule', 'FalconModel.MediaTypeProofs', 'FalconModel.RequestMedia', 'FalconModel.RequestMediaProofs']
DRIVERS = ['mhdriver']
THEOREMS = [
    'Mt.parsed_type_is_lower', 'Mt.lower_idem',
    # falcon/media/handlers.py: the memoising resolver over the mutable mapping (model Mh, the code after F08/F09)
    'Mh.step_coherent', 'Mh.resolve_on_coherent', 'Mh.history_coherent', 'Mh.resolve_fresh',
    'Mh.xrun_coherent', 'Mh.resolve_fresh_x', 'Mh.copy_preserves_mapping', 'Mh.resolve_rule_fresh',
    # the pre-repair `|=` is not coherent (regression witness, by `decide`)
    'Mh.ior_stale_witness',
    # falcon/request.py + falcon/asgi/request.py: get_media's per-request cache in front of the resolver (model Rq)
    'Rq.trace_refines_spec', 'Rq.getMedia_fresh', 'Rq.e415_not_cached', 'Rq.getMedia_cached', 'Rq.getMedia_frame',
    'Rq.getMedia_sim', 'Rq.step_sim', 'Rq.step_inv', 'Rq.run_inv', 'Rq.xstep_data', 'Rq.xrun_data',
    # falcon/util/mediatypes.py (model Mt)
    'Mt.maxScore_ge', 'Mt.maxScore_mem', 'Mt.quality_is_q_of_most_specific', 'Mt.no_matching_range_quality_zero',
    'Mt.bestLoop_spec', 'Mt.bestMatch_never_q0_or_unmatched', 'Mt.bestMatch_is_first_max', 'Mt.malformed_only_value_errors',
]
STATEMENTS = {
    'Mt.parsed_type_is_lower': 'the type and subtype of every parsed media type / media range are in lower case (lower is idempotent): spellings that differ only in the ASCII case of type or subtype are indistinguishable to quality / best_match / the handler rule (fix a19fe30, finding F43; RFC 9110 8.3.1)',
    'Mh.resolve_fresh': 'for every resolution rule f and every history of set / delete / clear / |= / LRU evictions / resolutions starting from a coherent memo, a resolution returns f of the CURRENT mapping',
    'Mh.resolve_fresh_x': 'the same for histories that also contain update / pop / popitem / setdefault / copy (each is a history of the basic operations)',
    'Mh.resolve_rule_fresh': 'resolve_fresh_x instantiated with the concrete rule of Handlers.resolve (missing or */* type -> default type; exact key; else mediatypes.best_match over the keys; else 415) on an object created with an empty memo',
    'Mh.copy_preserves_mapping': 'copy() has exactly the items of the original (also when it is empty) and an empty memo',
    'Mh.ior_stale_witness': 'with the pre-repair |= (memo not cleared) the history [resolve x; |= {x: h}; resolve x] answers the memoised miss although the mapping designates h',
    'Rq.trace_refines_spec': 'for every history on ONE request (any mutator of the mapping, resolutions by others on the same Handlers object, replacing the Handlers object, changing default_media_type or content_type, get_media with/without default_when_empty) and every behaviour of the handlers, the implementation (resolver memo + per-request cache) produces exactly the outputs of the memo-free specification, in which a get_media that holds no deserialized object and no handler error evaluates the rule on the mapping / default type / content type of that moment',
    'Rq.getMedia_fresh': 'after any such history, get_media on a request with nothing deserialized and no handler error answers what the CURRENT mapping designates for the current content type and default type: that handler is invoked, or 415',
    'Rq.e415_not_cached': 'a get_media that answers 415 leaves the request, the mapping and the default type exactly as they were, so the next call resolves again',
    'Rq.getMedia_cached': 'once a handler has produced the media object, every later get_media returns that object and changes nothing (the documented caching)',
    'Rq.xstep_data': 'every mutator acts on the items of the mapping like the same operation on a plain dict, independently of the resolver memo',
    'Mt.quality_is_q_of_most_specific': 'when quality() returns q, either no range matches and q = 0, or q is the q of a range whose (type, subtype, exact-params, #matching-params, q) tuple is lexicographically >= that of every other range',
    'Mt.no_matching_range_quality_zero': 'if no media range of the header matches the media type, quality() = 0',
    'Mt.bestMatch_never_q0_or_unmatched': 'a non-empty best_match() result is one of the candidates and its quality is > 0',
    'Mt.bestMatch_is_first_max': 'the best_match() result has the maximal quality among the candidates and every earlier candidate has a strictly smaller one; an empty result means every candidate has quality 0',
    'Mt.malformed_only_value_errors': 'quality()/best_match() of the model are total: a value, InvalidMediaType, InvalidMediaRange (or "outside the modelled fragment"); InvalidMediaRange only if some member of the header fails to parse',
}
TRUSTED = [
    "Python's float() on the q value (the model uses exact decimals in units of 1/10000; syntactically valid floats with exponent/underscore/>4 fraction digits are outside the modelled fragment and go to the oracle only)",
    'functools.lru_cache as a sub-memo of its function (entries are only ever f(args); eviction drops entries) - the shape the Mh model gives the memo',
    'what a media handler does in deserialize() is a parameter of the Rq model (returns an object / raises MediaNotFoundError / raises another error); the request stream and the handler bodies are not modelled',
    'collections.UserDict / MutableMapping routing update/pop/popitem/clear/setdefault through __setitem__/__delitem__ (observed by the correspondence on every run)',
]
ASSUMPTIONS = [
    'media types, subtypes and parameter values are compared verbatim (case-sensitively) as the documentation of quality() states; parameter names are case-insensitive',
    'the Accept header is split at every comma, also inside a quoted parameter value, and an empty list member is an invalid range (code and documentation of mediatypes; RFC 9110 would keep a quoted comma and skip empty members) - such headers are only required to produce a value or a documented value error',
    'duplicate parameter names inside one range, whitespace around "=", a lone "*" and a quoted value ending in a backslash are outside the exact oracle (robustness oracle + model correspondence only)',
    'handler objects are truthy; keys and content types of the handler histories are str (or None for the content type)',
    'what a request may remember between get_media() calls is what a handler PRODUCED - the deserialized object (documented: "the result will be cached and returned in subsequent calls") or the error the designated handler raised while consuming the stream; the outcome of the resolution itself (in particular a 415) is not something to remember: every call that has nothing deserialized to return resolves on the current mapping',
    'a Response adopts options.default_media_type as its content_type at its first rendering; the response histories read resp.content_type right before each call and take that as the content type being resolved',
    'a header without members is the empty string, i.e. one empty member (an invalid range)',
]
RULE = ('negotiation: Accept headers rendered from a generated AST of 1..5 media ranges (type/subtype/wildcards, 0..2 parameters, bare or quoted values with ; = space " \\ inside, '
        'q in 0..4 digits or invalid, random OWS and parameter-name case, designated-invalid members) x 1..4 candidates, checked through mediatypes.quality/best_match, '
        'req.client_accepts/client_prefers (WSGI and ASGI Request); '
        'SIZE mode: headers with 0..40 members (half of the draws from the boundary list 0,1,2,3,7,8,9,15..20,31..34,39,40; 3% from 63..66,100,127..130 = the LRU sizes 64/128 of the code), '
        'filler members plus an adversarial family / q=0 exclusion / invalid member placed anywhere and half of the time among the last three, 0..40 parameters per range or candidate from 43 names (same boundary list), '
        'values of 1..4097 characters (boundary lengths 1,2,15..17,31..33,63..65,127..129,255..257,1000,4097; token or quoted with specials), 0..40 (rarely ..130) candidates, same oracles and model; '
        'plus a junk stream of arbitrary header strings (15% of the structured junk with 0..40 members); '
        'handlers: histories of 1..10 operations (set/delete/update/pop/popitem/clear/copy/|=/setdefault/LRU floods/resolve, a fifth via Request.get_media/Response.render_body) over media-type keys with wildcards and parameters, '
        'exhaustive over a 19-operation alphabet on a 3-type universe (x 3 initial mappings) up to length 3 (quick) / 4 (thorough); '
        'ONE-OBJECT histories: a single falcon.Request / falcon.asgi.Request (get_media(), .media, get_media(default_when_empty=...)) or falcon.Response / falcon.asgi.Response (render_body(), resp.media = ...) called several times while '
        'between the calls the mapping is changed (item assignment, del, update, |= on options.media_handlers, pop, clear, setdefault), the Handlers object is replaced (a new one, a copy, a whole new options object), '
        'default_media_type or the content type is changed, or somebody else resolves on the same Handlers object; handlers return / raise MediaNotFoundError / raise another error; half of the random histories start from a mapping that '
        'cannot resolve the request (first call = 415) and mutation keys are drawn from the ranges that would make it resolvable; exhaustive over a 15-operation alphabet (all sequences containing a call) up to length 3 (quick) / 4 (thorough) '
        'x 2 initial mappings x 2 content types x both request stacks, random histories of 2..10 operations over the full universe on all four kinds of object; '
        'non-trivial = a matching range/handler was found through the specificity order (not an exact-string hit) or the history mutated the mapping between two resolutions '
        '(one-object histories: a call had to resolve after something changed since an earlier call on the same object); distinct = distinct input strings / operation lists')
PARTIAL = ''
JOBS = {'quick': 4, 'thorough': 16}
EXHAUSTIVE = {'quick': False, 'thorough': False}



def _copy_protocol(ctx):
    """Every way the language offers to copy a Handlers object - the copy() method, copy.copy(), copy.deepcopy(), pickling is not
    claimed - gives an independent mapping: what is then changed in the copy is resolved by the copy and unknown to the original,
    and the other way round (resolution always follows the CURRENT mapping of the object asked)."""
    import copy
    import falcon
    from falcon import media
    rnd = ctx.rng
    name = 'copies of a Handlers object (copy(), copy.copy, copy.deepcopy) resolve by their own current mapping, the original by its own'

    class H(media.BaseHandler):
        def __init__(self, tag): self.tag = tag
        def serialize(self, m, content_type=None): return self.tag.encode()
        def deserialize(self, stream, content_type, content_length): return self.tag
    KEYS = ['application/json', 'text/plain', 'text/html', 'application/x-a', 'application/x-b', 'image/png', 'text/x-new']
    for ci in range(ctx.n(300, 3000)):
        keys = rnd.sample(KEYS[:-1], rnd.randint(0, 4))
        orig = media.Handlers({k: H('o:' + k) for k in keys})
        for k in keys[:2]:
            try: orig._resolve(k, 'application/json')        # warm the resolver cache of the original
            except falcon.HTTPError: pass
        how = ('method', 'copy.copy', 'copy.deepcopy')[ci % 3]
        c = orig.copy() if how == 'method' else copy.copy(orig) if how == 'copy.copy' else copy.deepcopy(orig)
        added = rnd.choice([k for k in KEYS if k not in keys])
        side = rnd.choice(['copy', 'original'])
        tgt, other = (c, orig) if side == 'copy' else (orig, c)
        tgt[added] = H('n:' + added)
        removed = rnd.choice(keys) if keys and rnd.random() < 0.5 else None
        if removed:
            del tgt[removed]
        what = None

        def res(hs, k):
            try: return hs._resolve(k, 'application/x-none')[0].tag
            except falcon.HTTPUnsupportedMediaType: return 415
        if type(c) is not type(orig) or c is orig: what = f'{how} did not create a new Handlers object'
        elif res(tgt, added) != 'n:' + added: what = f'after {how}: the {side} got {added!r} but resolves it to {res(tgt, added)!r}'
        elif res(other, added) != 415: what = f'after {how}: {added!r} was added to the {side} only, yet the other object resolves it to {res(other, added)!r}'
        elif removed and res(tgt, removed) != 415: what = f'after {how}: {removed!r} was deleted from the {side} but still resolves to {res(tgt, removed)!r}'
        elif removed and res(other, removed) != 'o:' + removed: what = f'after {how}: {removed!r} was deleted from the {side} only, the other object now resolves it to {res(other, removed)!r}'
        else:
            for k in keys:
                if k != removed and (res(c, k), res(orig, k)) != ('o:' + k, 'o:' + k):
                    what = f'after {how}: {k!r} resolves to {res(c, k)!r} on the copy and {res(orig, k)!r} on the original'
        ctx.oracle(name, what is None, what, {'copied_by': how, 'initial_keys': keys, 'then_added_to': side, 'added': added, 'deleted': removed})
        ctx.seen(('copyproto', how, tuple(keys), side, added, removed), True)
        ctx.count('handlers_copy_protocol_' + how)


def _quoted_backslash_end(ctx):
    """A quoted parameter value whose last character is an escaped backslash ("x\\") is a complete quoted-string (RFC 9110 5.6.4); the
    parameters after it (the weight!) belong to the range.  KNOWN FINDING F46: the parameter splitter copied from the CPython 3.8 stdlib
    (`_parse_param_old_stdlib`) decides "inside quotes" by the parity of `"` minus `\"` counts, takes the closing quote of such a value for an
    escaped one, and swallows everything up to the next quote or the end - the weight is lost.  Exactly that class is reported under the `what`
    the known-findings file lists; values with a backslash elsewhere are judged by the general oracle."""
    from falcon.util import mediatypes as mt
    name = 'quoted parameter values ending in an escaped backslash: the following parameters still count'
    for val in ('x\\', '\\', 'a b\\', 'q=1\\'):
        q = '"' + val.replace('\\', '\\\\').replace('"', '\\"') + '"'
        for tail, exp in ((';q=0', 0.0), (';q=0.5', 0.5), (' ; q=0.25;v=1', 0.25)):
            hdr = 'text/html;title=' + q + tail
            what = None
            try:
                got = mt.quality('text/html', hdr)
                if got != exp:
                    what = ('a quoted parameter value ending in an escaped backslash swallows the parameters after it (the weight is lost)'
                            if got == 1.0 else f'quality {got}, the header says {exp}')
            except Exception as e:  # noqa
                what = f'{type(e).__name__}: {e}'
            ctx.oracle(name, what is None, what, {'header': hdr, 'expected_quality': exp})
            ctx.seen(('qbs', hdr), True)

def run(ctx):
    _negotiation(ctx)
    _handlers(ctx)
    _requests(ctx)
    _copy_protocol(ctx)
    if ctx.shard[0] == 0:
        _quoted_backslash_end(ctx)


def hexs(s):
    return s.encode('latin-1').hex() if s else '-'


# ------------------------------------------------------------------ generated media ranges (AST first, string second)

TYPES = ['text', 'application', 'image']
SUBS = {'text': ['plain', 'html'], 'application': ['json', 'vnd.x+json'], 'image': ['png']}
PNAMES = ['charset', 'v', 'level']
PVALS_TOKEN = ['utf-8', '1', '2', 'UTF-8', 'x']
PVALS_QUOTED = ['q;x', 'a=b', 'a b', 'a"b', 'a\\b', ';', 'q=0']
Q_VALID = [('0', 0.0), ('0.', 0.0), ('0.0', 0.0), ('0.000', 0.0), ('0.5', 0.5), ('0.75', 0.75), ('0.001', 0.001), ('0.999', 0.999),
           ('1', 1.0), ('1.0', 1.0), ('1.000', 1.0), ('0.3333', 0.3333), ('0.25', 0.25), ('0.8', 0.8), ('0.80', 0.8), ('0.1', 0.1)]
Q_INVALID = ['2', '-1', 'x', '', 'nan', 'inf', '1.001', '-0.5', '1.5', '0.5.5', '--1']


class Rng:
    """A generated media range / media type: the structure the oracle reasons about."""
    __slots__ = ('main', 'sub', 'params', 'q', 'qstr', 'bad')

    def __init__(s, main, sub, params, q=1.0, qstr=None, bad=None):
        s.main, s.sub, s.params, s.q, s.qstr, s.bad = main, sub, params, q, qstr, bad

    def desc(s):
        return s.bad if s.bad is not None else [s.main, s.sub, s.params, s.qstr]


def gen_type(rnd, wild=0.3):
    if rnd.random() < wild:
        k = rnd.random()
        if k < 0.45:
            return '*', '*'
        if k < 0.9:
            return rnd.choice(TYPES), '*'
        t = rnd.choice(TYPES)                 # not an RFC 9110 media range, but the documented order covers it
        return '*', rnd.choice(SUBS[t])
    t = rnd.choice(TYPES)
    return t, rnd.choice(SUBS[t])


def gen_params(rnd, quoted_ok=True):
    ps = {}
    for _ in range(rnd.choice([0, 0, 0, 1, 1, 2])):
        n = rnd.choice(PNAMES)
        ps[n] = rnd.choice(PVALS_QUOTED) if (quoted_ok and rnd.random() < 0.2) else rnd.choice(PVALS_TOKEN)
    return ps


def gen_range(rnd, bad_p=0.06):
    if rnd.random() < bad_p:
        k = rnd.random()
        if k < 0.4:
            return Rng(None, None, None, bad=rnd.choice(['text', 'plain', 'textplain', 'text;charset=utf-8']))
        t, s = gen_type(rnd)
        return Rng(t, s, gen_params(rnd), q=None, qstr=rnd.choice(Q_INVALID))
    t, s = gen_type(rnd)
    if rnd.random() < 0.6:
        qs, qv = rnd.choice(Q_VALID)
        return Rng(t, s, gen_params(rnd), q=qv, qstr=qs)
    return Rng(t, s, gen_params(rnd))


def render_value(rnd, v):
    tokenish = all(c.isalnum() or c in '-._+' for c in v) and v != ''
    if tokenish and rnd.random() < 0.75:
        return v
    return '"' + v.replace('\\', '\\\\').replace('"', '\\"') + '"'


def render(rnd, r, plain=False):
    """One list member.  plain=True: canonical rendering (handler keys / content types)."""
    if r.bad is not None:
        return r.bad
    out = f'{r.main}/{r.sub}'
    items = [(n, render_value(rnd, v) if not plain else v) for n, v in r.params.items()]
    if r.qstr is not None:
        items.insert(rnd.randint(0, len(items)), (rnd.choice(['q', 'q', 'Q']), r.qstr))
    for n, v in items:
        sep = '; ' if plain else rnd.choice([';', ';', '; ', ' ;', ' ; ', ';\t'])
        if not plain and n not in ('q', 'Q'):
            n = rnd.choice([n, n, n.upper(), n.title()])
        out += f'{sep}{n}={v}'
    return out


def spec_key(r, t):
    """The documented specificity of range r for media type t, or None when it does not match."""
    if r.main != '*' and t.main != '*' and r.main != t.main:
        return None
    if r.sub != '*' and t.sub != '*' and r.sub != t.sub:
        return None
    common = set(r.params) & set(t.params)
    if any(r.params[n] != t.params[n] for n in common):
        return None
    return (int(r.main != '*' and t.main != '*'), int(r.sub != '*' and t.sub != '*'),
            int(set(r.params) == set(t.params)), len(common))


def spec_quality(t, ranges):
    """quality of the most specific matching range; among equally specific ones the highest q; 0.0 when none matches.
    Returns 'error' when the media type or any member is designated invalid."""
    if t.bad is not None or not ranges or any(r.bad is not None or r.q is None for r in ranges):
        return 'error'           # (a header without members is the empty string = one empty member, see ASSUMPTIONS)
    keyed = [(spec_key(r, t), r.q) for r in ranges]
    keyed = [(k, q) for k, q in keyed if k is not None]
    if not keyed:
        return 0.0
    top = max(k for k, _ in keyed)
    return max(q for k, q in keyed if k == top)


def spec_best(cands, ranges):
    """first candidate with the highest quality, '' (index None) when that quality is 0"""
    if not cands:
        return None
    qs = [spec_quality(c, ranges) for c in cands]
    if 'error' in qs:
        return 'error'
    top = max(qs)
    return qs.index(top) if top > 0 else None


# ------------------------------------------------------------------ the SIZE dimension: number of members / parameters / candidates, value lengths
# Boundary values around every size constant found in the real code: functools.lru_cache() default maxsize 128 (quality,
# _parse_media_ranges, _parse_media_type/_range), the Handlers resolver LRU of 64, powers of two in between (a "sanity limit"
# on the number of members / parameters would sit at one of them), and 0 / 1.
COUNT_EDGES = [0, 1, 2, 3, 7, 8, 9, 15, 16, 17, 18, 19, 20, 31, 32, 33, 34, 39, 40]
COUNT_BIG = [63, 64, 65, 66, 100, 127, 128, 129, 130]
LEN_EDGES = [1, 2, 15, 16, 17, 31, 32, 33, 63, 64, 65, 127, 128, 129, 255, 256, 257, 1000, 4097]
PNAMES_MANY = PNAMES + [f'p{i}' for i in range(40)]
TOKCHARS = 'abcdefghijklmnopqrstuvwxyzABCDEFGHIJKLMNOPQRSTUVWXYZ0123456789-._+'


def pick_count(rnd, lo=0, hi=40, big=0.03):
    k = rnd.random()
    if k < big:
        return max(lo, rnd.choice(COUNT_BIG))
    if k < 0.5:
        return max(lo, rnd.choice(COUNT_EDGES))
    return rnd.randint(lo, hi)


def gen_value_long(rnd, quoted_ok=True):
    """a parameter value: usually one of the short ones, sometimes long (boundary lengths), sometimes quoted with specials inside"""
    k = rnd.random()
    if k < 0.78:
        return rnd.choice(PVALS_TOKEN)
    if k < 0.88 and quoted_ok:
        return rnd.choice(PVALS_QUOTED)
    k = rnd.random()
    n = rnd.choice(LEN_EDGES[:-2]) if k < 0.55 else rnd.choice(LEN_EDGES[-2:]) if k < 0.58 else rnd.randint(1, 100)
    c = rnd.choice(TOKCHARS)
    v = rnd.choice([c * n, (TOKCHARS * (n // len(TOKCHARS) + 1))[:n]])
    if quoted_ok and rnd.random() < 0.3:
        # a long value that needs quoting: specials sprinkled into a token
        base = list(v)
        for _ in range(rnd.randint(1, 4)):
            base[rnd.randrange(n)] = rnd.choice(' ;="\\')
        v = ''.join(base)
        # a quoted value ending in a backslash is outside the exact oracle (see ASSUMPTIONS)
        return v[:-1] + 'x' if v.endswith('\\') else v
    return v


def gen_params_many(rnd, n=None, quoted_ok=True):
    if n is None:
        n = rnd.choice([0, 0, 0, 1, 1, 2, 3]) if rnd.random() < 0.8 else pick_count(rnd, 0, 20, 0.0)
    n = min(n, len(PNAMES_MANY))
    return {name: gen_value_long(rnd, quoted_ok) for name in rnd.sample(PNAMES_MANY, n)}


def gen_filler(rnd, i):
    """a member that is there only to be counted: distinct subtype, sometimes weighted / with parameters"""
    r = Rng('application', f'x-filler-{i}', gen_params_many(rnd) if rnd.random() < 0.15 else {})
    if rnd.random() < 0.4:
        r.qstr, r.q = rnd.choice(Q_VALID)
    return r


def tail_biased_pos(rnd, n):
    """an insertion position in a list of n members: half of the time among the last three, else anywhere"""
    if n == 0:
        return 0
    return rnd.randint(max(0, n - 2), n) if rnd.random() < 0.5 else rnd.randint(0, n)


def gen_long_case(rnd):
    """(ranges, candidates): a header with 0..40 (rarely up to 130) members in which the members that decide the answer
    (an adversarial family for one target, an explicit q=0 exclusion, a designated-invalid member) sit anywhere, often at the very end."""
    n = pick_count(rnd)
    t0 = Rng(*gen_type(rnd, 0.0), gen_params_many(rnd, quoted_ok=False))
    fam = []
    for _ in range(min(n, rnd.choice([0, 1, 1, 2, 2, 3, 4]))):
        m, s = rnd.choice([(t0.main, t0.sub), (t0.main, t0.sub), (t0.main, '*'), ('*', '*'), ('*', t0.sub)])
        keep = rnd.choice([0.0, 0.5, 0.9, 1.0])
        ps = {k: v for k, v in t0.params.items() if rnd.random() < keep}
        if rnd.random() < 0.2:
            extra = rnd.choice(PNAMES_MANY)
            ps[extra] = rnd.choice(PVALS_TOKEN)        # an extraneous parameter, or a conflicting value of a shared one
        qs, qv = rnd.choice(Q_VALID + [('0', 0.0), ('0.0', 0.0)])
        fam.append(Rng(m, s, ps, q=qv, qstr=qs) if rnd.random() < 0.8 else Rng(m, s, ps))
    ranges = [gen_filler(rnd, i) if rnd.random() < 0.75 else gen_range(rnd, 0.0) for i in range(n - len(fam))]
    for f in fam:
        ranges.insert(tail_biased_pos(rnd, len(ranges)), f)
    if ranges and rnd.random() < 0.08:
        # a designated-invalid member (its position must not matter)
        k = rnd.random()
        bad = (Rng(None, None, None, bad=rnd.choice(['nonsense', 'text', 'text;charset=utf-8'])) if k < 0.5 else
               Rng(*gen_type(rnd), {}, q=None, qstr=rnd.choice(Q_INVALID)))
        ranges[min(len(ranges) - 1, tail_biased_pos(rnd, len(ranges)))] = bad
    nc = rnd.choice([1, 1, 2, 2, 3, 4]) if rnd.random() < 0.85 else pick_count(rnd, 0, 40, 0.1)
    cands = [t0] if nc else []
    while len(cands) < nc:
        k = rnd.random()
        if k < 0.35 and ranges:
            r = rnd.choice(ranges[-3:] if rnd.random() < 0.5 else ranges)     # a candidate some member names (often one of the last)
            if r.bad is None and r.main != '*' and r.sub != '*':
                cands.append(Rng(r.main, r.sub, {k2: v for k2, v in r.params.items() if rnd.random() < 0.8}))
                continue
        cands.append(Rng(*gen_type(rnd, 0.1), gen_params_many(rnd, quoted_ok=False) if rnd.random() < 0.3 else {}))
    rnd.shuffle(cands)
    return ranges, cands


import contextlib  # noqa: E402


@contextlib.contextmanager
def alarm(seconds=3.0):
    """Like runner.alarm, but on the process's own CPU time (ITIMER_VIRTUAL): a call that loops burns CPU and is caught,
    a worker that is merely descheduled on a loaded machine is not reported as a hang."""
    import signal
    from runner import Hang

    def _fire(signum, frame):
        raise Hang()
    old = signal.signal(signal.SIGVTALRM, _fire)
    signal.setitimer(signal.ITIMER_VIRTUAL, seconds)
    try:
        yield
    finally:
        signal.setitimer(signal.ITIMER_VIRTUAL, 0)
        signal.signal(signal.SIGVTALRM, old)


def observe(fn, *a):
    from falcon import errors
    from runner import Hang
    try:
        with alarm(3):
            return ('ok', fn(*a))
    except Hang:
        return ('hang',)
    except errors.InvalidMediaRange:
        return ('range',)
    except errors.InvalidMediaType:
        return ('type',)
    except Exception as e:  # noqa
        return ('other', type(e).__name__, str(e)[:80])


import re  # noqa: E402
_FLOAT = re.compile(r'^[+-]?(?:\d(?:_?\d)*(?:\.(?P<f1>\d(?:_?\d)*)?)?|\.(?P<f2>\d(?:_?\d)*))(?P<e>[eE][+-]?\d(?:_?\d)*)?$')
_WS = ' \t\n\r\x0b\x0c\x1c\x1d\x1e\x1f'


def model_safe(mt, strings):
    """Inside the fragment the Lean model of mediatypes covers: ASCII, and no q value that is a syntactically valid
    float with exponent / underscores / more than four fractional digits."""
    for s in strings:
        if not s.isascii():
            return False
        for member in s.split(','):
            try:
                q = mt.parse_header(member)[1].get('q')
            except Exception:  # noqa
                return False
            if q is None:
                continue
            m = _FLOAT.match(q.strip(_WS))
            if m and (m.group('e') or '_' in q or len((m.group('f1') or m.group('f2') or '').replace('_', '')) > 4):
                return False
    return True


def q_reply(obs):
    if obs[0] == 'ok':
        q = obs[1]
        n = round(q * 10000)
        return f'q {n}' if abs(q * 10000 - n) < 1e-6 else f'q? {q!r}'
    return {'range': 'err range', 'type': 'err type'}.get(obs[0], 'impl-' + obs[0])


def m_reply(obs):
    if obs[0] == 'ok':
        return 'm ' + hexs(obs[1])
    return {'range': 'err range', 'type': 'err type'}.get(obs[0], 'impl-' + obs[0])


# ------------------------------------------------------------------ first half: quality / best_match / client_accepts / client_prefers

def _negotiation(ctx):
    import falcon
    import falcon.asgi
    import falcon.testing as ft
    from falcon.util import mediatypes as mt
    rnd = ctx.rng
    sess = ctx.session('mediatypes.quality/best_match = MediaType model', 'mhdriver')

    O_Q = 'quality = q of the most specific matching range (type > subtype > exact params > #matching params > q); 0 when none matches; invalid members only raise InvalidMediaType/InvalidMediaRange'
    O_B = 'best_match = first candidate of maximal quality, never one with quality 0 / no matching range; invalid input only raises the documented value errors'
    O_R = 'client_accepts / client_prefers agree with quality / best_match on the Accept header (invalid header: False / None)'
    O_J = 'arbitrary header strings: only a float in [0,1] / a candidate or "" / InvalidMediaType / InvalidMediaRange; best_match consistent with quality'

    def mkreq(accept, asgi):
        if asgi:
            return falcon.asgi.Request(ft.create_scope(headers={'Accept': accept}), None)
        return falcon.Request(ft.create_environ(headers={'Accept': accept}))

    def exact_case(ranges, cands, mode, ci, glue_p=0.5, budget=None):
        """One structured case: the oracle answers from the AST, the code and the model get the rendered strings.
        budget: at most this many header characters are sent to the model for the case (every candidate re-parses the header there);
        the oracle always judges every candidate."""
        header = rnd.choice([',', ', ', ' ,', ' , ']).join(render(rnd, r) for r in ranges)
        cstrs = [render(rnd, c) for c in cands]
        case = {'accept': header, 'candidates': cstrs, 'ast_ranges': [r.desc() for r in ranges], 'ast_candidates': [c.desc() for c in cands],
                'members': len(ranges)}
        safe = model_safe(mt, [header] + cstrs)
        if safe:
            sess.case({'mode': mode})
        nontriv = False
        spent = 0
        # quality of every candidate
        for c, cs in zip(cands, cstrs):
            want = spec_quality(c, ranges)
            got = observe(mt.quality, cs, header)
            if want == 'error':
                ok = got[0] in ('range', 'type')
            else:
                ok = got[0] == 'ok' and isinstance(got[1], float) and abs(got[1] - want) < 1e-12
                nontriv = nontriv or (want > 0 and cs != header)
            ctx.oracle(O_Q, ok, None if ok else f'quality({cs!r}, header) = {got}, documented order gives {want}', dict(case, media_type=cs))
            if safe and (budget is None or spent <= budget):
                sess.op(f'quality {hexs(cs)} {hexs(header)}', q_reply(got))
                spent += len(header) + 1
            ctx.count('quality_' + ('error' if want == 'error' else 'zero' if want == 0 else 'positive'))
        # best match
        wantb = spec_best(cands, ranges)
        gotb = observe(mt.best_match, cstrs, header)
        if wantb == 'error':
            ok = gotb[0] in ('range', 'type')
        else:
            ok = gotb[0] == 'ok' and gotb[1] == ('' if wantb is None else cstrs[wantb])
        ctx.oracle(O_B, ok, None if ok else f'best_match = {gotb}, documented order gives {wantb if wantb in (None, "error") else cstrs[wantb]!r}', case)
        if safe and (budget is None or spent + (len(header) + 1) * len(cstrs) <= 2 * budget):
            sess.op(f'best {",".join(hexs(c) for c in cstrs) if cstrs else "none"} {hexs(header)}', m_reply(gotb))
        ctx.count('best_' + ('error' if wantb == 'error' else 'none' if wantb is None else 'found'))
        # Request glue
        if rnd.random() < glue_p:
            asgi = rnd.random() < 0.4
            req = mkreq(header, asgi)
            if req.accept == header:
                why = None
                for c, cs in zip(cands, cstrs):
                    want = spec_quality(c, ranges)
                    exp = (header == cs) or (header == '*/*') or (want != 'error' and want > 0)
                    g = observe(req.client_accepts, cs)
                    if g != ('ok', exp):
                        why = f'client_accepts({cs!r}) = {g}, expected {exp}'
                expp = None if wantb in (None, 'error') else cstrs[wantb]
                g = observe(req.client_prefers, cstrs)
                if g != ('ok', expp):
                    why = f'client_prefers = {g}, expected {expp!r}'
                ctx.oracle(O_R, why is None, why, dict(case, asgi=asgi))
                ctx.count('request_asgi' if asgi else 'request_wsgi')
        ctx.seen(('x', header, tuple(cstrs)), nontriv)
        if ci < 3:
            ctx.sample({'accept': header if len(header) < 400 else header[:400] + '...', 'candidates': cstrs[:6], 'best': gotb})
        return header, cstrs

    def bucket(n):
        return '0' if n == 0 else '1-5' if n <= 5 else '6-15' if n <= 15 else '16-17' if n <= 17 else '18-32' if n <= 32 else '33-40' if n <= 40 else '41+'

    # ---- exact mode
    for ci in range(ctx.n(40000, 240000)):
        ranges = [gen_range(rnd) for _ in range(rnd.choice([1, 1, 2, 2, 3, 4, 5]))]
        if rnd.random() < 0.5:
            # adversarial ties: several ranges that all match one target with different specificity
            t0 = Rng(*gen_type(rnd, 0.0), gen_params(rnd, False))
            fam = []
            for _ in range(rnd.randint(2, 4)):
                m, s = rnd.choice([(t0.main, t0.sub), (t0.main, '*'), ('*', '*'), (t0.main, t0.sub), ('*', t0.sub)])
                ps = {n: v for n, v in t0.params.items() if rnd.random() < 0.6}
                if rnd.random() < 0.25:
                    ps[rnd.choice(PNAMES)] = rnd.choice(PVALS_TOKEN)
                qs, qv = rnd.choice(Q_VALID)
                fam.append(Rng(m, s, ps, q=qv, qstr=qs))
            ranges = fam + ranges[:2]
            rnd.shuffle(ranges)
            cands = [t0] + [Rng(*gen_type(rnd, 0.1), gen_params(rnd, False)) for _ in range(rnd.randint(0, 2))]
            rnd.shuffle(cands)
        else:
            cands = [Rng(*gen_type(rnd, 0.1), gen_params(rnd)) for _ in range(rnd.randint(1, 4))]
        if rnd.random() < 0.04:
            cands[rnd.randrange(len(cands))] = Rng(None, None, None, bad=rnd.choice(['text', 'json', 'nonsense;v=1']))
        exact_case(ranges, cands, 'exact', ci)

    # ---- size mode: the NUMBER of members / parameters / candidates and the length of values are dimensions of their own
    for ci in range(ctx.n(6000, 40000)):
        ranges, cands = gen_long_case(rnd)
        if cands and rnd.random() < 0.03:
            cands[rnd.randrange(len(cands))] = Rng(None, None, None, bad=rnd.choice(['text', 'json', 'nonsense;v=1']))
        header, cstrs = exact_case(ranges, cands, 'size', ci, glue_p=0.35, budget=6000)
        ctx.count('size_members_' + bucket(len(ranges)))
        ctx.count('size_candidates_' + bucket(len(cands)))
        ctx.count('size_max_params_' + bucket(max([len(r.params) for r in ranges + cands if r.bad is None] or [0])))
        ctx.count('size_header_chars_' + ('<256' if len(header) < 256 else '<1024' if len(header) < 1024 else '<4096' if len(header) < 4096 else '4096+'))

    # ---- junk mode: arbitrary strings from the alphabet of the grammar
    ATOMS = ['text', 'application', 'json', 'plain', '*', '/', '/', ';', ';', '=', ',', ',', ' ', '\t', 'q', 'Q', 'q=', 'q=0', 'q=0.5', 'q=1', '0', '.', '5', '1',
             '"', '"', '\\', 'charset', 'utf-8', 'v', 'Text', '-', '+', 'e', '_', 'nan', 'inf', '1e-1', '0.33333', 'é', 'q=١']
    for ci in range(ctx.n(16000, 100000)):
        k = rnd.random()
        if k < 0.5:
            header = ''.join(rnd.choice(ATOMS) for _ in range(rnd.randint(0, 12)))
        elif k < 0.8:
            # mostly valid header with some corruption / RFC-legal oddities the code treats specially
            nparts = rnd.randint(1, 3) if rnd.random() < 0.85 else pick_count(rnd, 0, 40, 0.03)      # also long lists: the oddity is anywhere in them
            parts = [render(rnd, gen_range(rnd, 0.0)) for _ in range(nparts)]
            ctx.count('junk_long_list' if nparts > 15 else 'junk_short_list')
            odd = rnd.choice(['', '*', 'text/plain;v="a,b"', 'text/plain;v="a\\\\"', 'text/plain;v=1;v=2', 'text/plain; q = 0.5', 'Text/Plain',
                              'text/plain;q=1e-1', 'text/plain;q=0.33333', 'text/plain;q=1_0', 'text/plain;q=" 0.5"', 'text/plain;q="0.5"', 'text / plain', 'text/plain;q=+0.5', 'text/plain;q=-0'])
            parts.insert(rnd.randint(0, len(parts)), odd)
            header = ','.join(parts)
        else:
            header = render(rnd, gen_range(rnd, 0.0))
            i = rnd.randrange(len(header) + 1)
            header = header[:i] + rnd.choice(ATOMS) + header[i:]
        cstrs = []
        for _ in range(rnd.randint(0, 3)):
            if rnd.random() < 0.75:
                cstrs.append(render(rnd, Rng(*gen_type(rnd, 0.1), gen_params(rnd))))
            else:
                cstrs.append(''.join(rnd.choice(ATOMS) for _ in range(rnd.randint(0, 5))))
        case = {'accept': header, 'candidates': cstrs}
        safe = model_safe(mt, [header] + cstrs)
        if safe:
            sess.case({'mode': 'junk'})
        why = None
        qs = []
        for cs in cstrs:
            g = observe(mt.quality, cs, header)
            qs.append(g)
            if not (g[0] in ('range', 'type') or (g[0] == 'ok' and isinstance(g[1], float) and 0.0 <= g[1] <= 1.0)):
                why = f'quality({cs!r}, header) = {g}'
            if safe:
                sess.op(f'quality {hexs(cs)} {hexs(header)}', q_reply(g))
        gb = observe(mt.best_match, cstrs, header)
        if safe:
            sess.op(f'best {",".join(hexs(c) for c in cstrs) if cstrs else "none"} {hexs(header)}', m_reply(gb))
        if gb[0] == 'ok':
            if any(q[0] != 'ok' for q in qs):
                why = why or f'best_match returned {gb[1]!r} although a quality() raised'
            elif gb[1] == '':
                if any(q[1] > 0 for q in qs):
                    why = why or 'best_match found nothing although a candidate has quality > 0'
            else:
                vals = [q[1] for q in qs]
                if gb[1] not in cstrs:
                    why = why or f'best_match returned {gb[1]!r}, not a candidate'
                else:
                    i = cstrs.index(gb[1])
                    if not (vals[i] > 0 and vals[i] == max(vals) and all(v < vals[i] for v in vals[:i])):
                        why = why or f'best_match returned {gb[1]!r} with qualities {vals}'
        elif gb[0] not in ('range', 'type'):
            why = why or f'best_match = {gb}'
        elif all(q[0] == 'ok' for q in qs):
            why = why or f'best_match raised {gb[0]} although every quality() returned'
        if rnd.random() < 0.3 and header == header.strip() and '\n' not in header and '\r' not in header and header.isascii():
            try:
                req = mkreq(header, rnd.random() < 0.4)
                acc = req.accept
            except Exception:  # noqa
                acc = None
            if acc == header:
                for cs, q in zip(cstrs, qs):
                    exp = (header == cs) or (header == '*/*') or (q[0] == 'ok' and q[1] != 0.0)
                    g = observe(req.client_accepts, cs)
                    if g != ('ok', exp):
                        why = why or f'client_accepts({cs!r}) = {g}, quality = {q}'
                g = observe(req.client_prefers, cstrs)
                exp = gb[1] if (gb[0] == 'ok' and gb[1]) else None
                if g != ('ok', exp):
                    why = why or f'client_prefers = {g}, best_match = {gb}'
        ctx.oracle(O_J, why is None, why, case)
        ctx.count('junk_' + ('modelled' if safe else 'oracle_only'))
        ctx.seen(('j', header, tuple(cstrs)), any(q[0] == 'ok' and q[1] > 0 for q in qs))
    sess.finish()


# ------------------------------------------------------------------ second half: Handlers histories

def _handlers(ctx):
    import io
    import itertools
    import falcon
    import falcon.testing as ft
    from falcon.media import Handlers, BaseHandler
    from falcon.request import RequestOptions
    from falcon.response import ResponseOptions
    from runner import Hang
    rnd = ctx.rng

    class H(BaseHandler):
        """A handler that says who it is."""
        def __init__(s, hid):
            s.hid = hid
        def deserialize(s, stream, content_type, content_length):
            return ('H', s.hid)
        def serialize(s, media, content_type):
            return b'H%d' % s.hid

    O_H = ('resolution = the handler the CURRENT mapping designates (exact key, else best match over the keys; missing or */* type -> default type) '
           'or 415 / (None, None, None); the mapping itself = the same operations on a plain dict; copy preserves it (also when empty)')
    sess = ctx.session('Handlers histories = Mh model (rule: exact key, else Mt.bestMatch)', 'mhdriver')

    # AST universe for the random histories: keys and content types
    def K(main, sub, **ps):
        return Rng(main, sub, dict(ps))
    KEYS = [K('application', 'json'), K('application', '*'), K('text', 'plain'), K('text', '*'), K('*', '*'),
            K('text', 'plain', charset='utf-8'), K('application', 'vnd.x+json'), K('image', 'png'), K('text', 'html', v='1'), K('text', 'html', v='2')]
    CTS = KEYS + [K('text', 'html'), K('application', 'json', charset='utf-8'), K('text', 'plain', charset='latin-1'), K('image', '*'),
                  K('application', 'xml'), K('text', 'html', v='1', level='2'),
                  Rng('text', 'plain', {}, q=0.0, qstr='0'), Rng('text', 'css', {}, q=0.5, qstr='0.5'), Rng(None, None, None, bad='garbage'), Rng(None, None, None, bad='')]
    rr = __import__('random').Random(0)
    KSTR = [render(rr, k, plain=True) for k in KEYS]
    CSTR = [render(rr, c, plain=True) for c in CTS]
    by_str = dict(zip(KSTR + CSTR, KEYS + CTS))
    DEFAULTS = ['application/json', 'multipart/form-data', 'application/x-www-form-urlencoded']
    for d in DEFAULTS[1:]:
        m, s = d.split('/')
        by_str[d] = Rng(m, s, {})

    def designate(shadow, ct, default):
        """Which handler id the mapping `shadow` (a plain dict str -> id) designates for content type `ct`."""
        if ct is None or ct == '' or ct == '*/*':
            ct = default
        if ct in shadow:
            return shadow[ct]
        t = by_str[ct]
        if t.bad is not None:
            return None
        # best_match(keys, ct): the content type plays the role of the header (one range), the keys are the candidates
        best, bq = None, 0.0
        for k in shadow:
            q = spec_quality(by_str[k], [t])
            if q != 'error' and q > bq:
                best, bq = k, q
        return None if best is None else shadow[best]

    ids = itertools.count(1)

    def run_history(init, ops, finals, meta, exhaustive=False):
        """init: None (Handlers()) or list of keys; ops: list of tuples; finals: content types resolved at the end."""
        hid = {}          # id(handler object) -> (small id, object)
        reg = {}          # small id -> handler object
        objs, shadows = [], []

        def ident(h):
            if id(h) not in hid:
                n = next(ids); hid[id(h)] = (n, h); reg[n] = h
            return hid[id(h)][0]

        def mapping(i):
            return ','.join(f'{hexs(k)}:{ident(v)}' for k, v in objs[i].items()) or '-'
        sess.case(meta)
        sess.op('reset', 'ok')
        if init is None:
            h = Handlers()
            shadow = {k: ident(v) for k, v in h.items()}      # the three documented defaults
            ok0 = list(h) == DEFAULTS
            sess.op('new ' + ','.join(f'{hexs(k)}:{v}' for k, v in shadow.items()), 'ok ' + ','.join(f'{hexs(k)}:{v}' for k, v in shadow.items()))
        else:
            d = {k: H(next(ids)) for k in init}
            for v in d.values():
                hid[id(v)] = (v.hid, v); reg[v.hid] = v
            h = Handlers(d)
            shadow = {k: v.hid for k, v in d.items()}
            ok0 = True
            kv = ','.join(f'{hexs(k)}:{v}' for k, v in shadow.items()) or '-'
            sess.op('new ' + kv, 'ok ' + (','.join(f'{hexs(k)}:{ident(v)}' for k, v in h.items()) or '-'))
        objs.append(h); shadows.append(shadow)
        cur = 0
        why = None if ok0 else 'Handlers() does not hold the documented defaults'
        mutated_between = False; resolved_before = False; nontriv = False

        def newh():
            x = H(next(ids)); hid[id(x)] = (x.hid, x); reg[x.hid] = x; return x

        def resolve(i, ct, default, raise_nf, via):
            nonlocal why, nontriv, resolved_before
            want = designate(shadows[i], ct, default)
            hh = objs[i]
            if via != 'direct' and not all(isinstance(v, H) for v in hh.values()):
                via = 'direct'      # the stock JSON/multipart/urlencoded handlers cannot say who they are
            try:
                with alarm(3):
                    if via == 'request':
                        opts = RequestOptions(); opts.media_handlers = hh; opts.default_media_type = default
                        hdrs = {} if ct is None else {'Content-Type': ct}
                        env = ft.create_environ(method='POST', headers=hdrs, body='{}')
                        if ct is None:
                            env.pop('CONTENT_TYPE', None)
                        req = falcon.Request(env, options=opts)
                        got = req.get_media()[1]
                    elif via == 'response':
                        opts = ResponseOptions(); opts.media_handlers = hh; opts.default_media_type = default
                        resp = falcon.Response(options=opts)
                        resp.media = {'x': 1}
                        if ct:
                            resp.content_type = ct
                        got = int(resp.render_body()[1:])
                    else:
                        r = hh._resolve(ct, default, raise_nf) if raise_nf is not None else hh._resolve(ct, default)
                        got = None if r[0] is None else ident(r[0])
                        if r[0] is not None and (r[1], r[2]) != (getattr(r[0], '_serialize_sync', None), getattr(r[0], '_deserialize_sync', None)):
                            why = why or 'resolver returned serialize/deserialize shortcuts of another handler'
                        if got is None and raise_nf in (None, True):
                            why = why or 'resolver returned (None, None, None) although raise_not_found is set'
                    rep = f'h {got}'
            except falcon.HTTPUnsupportedMediaType:
                got = None
                rep = '415'
                if via == 'direct' and raise_nf is False:
                    why = why or 'resolver raised 415 although raise_not_found=False'
            except Hang:
                got = 'hang'; rep = 'hang'
            except Exception as e:  # noqa
                got = f'{type(e).__name__}: {e}'; rep = 'exc'
            if got is None and rep != '415':
                rep = 'none'
            if got != want:
                why = why or f'resolving {ct!r} (default {default!r}, via {via}) on object {i} gave {got}, the current mapping {shadows[i]} designates {want}'
            effective_raise = '0' if (via == 'direct' and raise_nf is False) else '1'
            sess.op(f"resolve {i} {hexs(ct or '')} {hexs(default)} {effective_raise}", rep)
            eff = default if ct in (None, '', '*/*') else ct
            nontriv = nontriv or (want is not None and eff not in shadows[i]) or (mutated_between and resolved_before)
            resolved_before = True
            ctx.count('resolve_' + via)
            ctx.count('resolution_' + ('415' if want is None else 'exact' if eff in shadows[i] else 'best_match'))

        for op in ops:
            name = op[0]
            h, shadow = objs[cur], shadows[cur]
            ctx.count('op_' + name)
            try:
                if name == 'set':
                    x = newh(); h[op[1]] = x; shadow[op[1]] = x.hid
                    sess.op(f'set {cur} {hexs(op[1])} {x.hid}', 'ok ' + mapping(cur))
                elif name == 'del':
                    present = op[1] in shadow
                    try:
                        del h[op[1]]
                        rep = 'ok '
                    except KeyError:
                        rep = 'keyerr '
                    if present:
                        del shadow[op[1]]
                    if present != (rep == 'ok '):
                        why = why or f'del {op[1]!r}: KeyError expected {not present}'
                    sess.op(f'del {cur} {hexs(op[1])}', rep + mapping(cur))
                elif name == 'clear':
                    h.clear(); shadow.clear()
                    sess.op(f'clear {cur}', 'ok ' + mapping(cur))
                elif name in ('ior', 'update'):
                    d = {k: newh() for k in op[1]}
                    if name == 'ior':
                        before = h
                        h |= d
                        if h is not before:
                            why = why or '|= rebound the name to another object'
                        objs[cur] = h
                    else:
                        h.update(d)
                    shadow.update({k: v.hid for k, v in d.items()})
                    sess.op(f'{name} {cur} ' + (','.join(f'{hexs(k)}:{v.hid}' for k, v in d.items()) or '-'), 'ok ' + mapping(cur))
                elif name == 'pop':
                    sentinel = object()
                    got = h.pop(op[1], sentinel)
                    want = shadow.pop(op[1], None)
                    if (None if got is sentinel else ident(got)) != want:
                        why = why or f'pop({op[1]!r}) returned the wrong handler'
                    sess.op(f'pop {cur} {hexs(op[1])}', 'ok ' + mapping(cur))
                elif name == 'setdefault':
                    x = newh()
                    got = h.setdefault(op[1], x)
                    want = shadow.setdefault(op[1], x.hid)
                    if ident(got) != want:
                        why = why or f'setdefault({op[1]!r}) returned the wrong handler'
                    sess.op(f'setdefault {cur} {hexs(op[1])} {x.hid}', 'ok ' + mapping(cur))
                elif name == 'popitem':
                    try:
                        k, v = h.popitem()
                        if not shadow or k != next(iter(shadow)) or ident(v) != shadow[k]:
                            why = why or 'popitem() removed something that is not the first item'
                        shadow.pop(k, None)
                        rep = 'ok '
                    except KeyError:
                        rep = 'keyerr '
                        if shadow:
                            why = why or 'popitem() raised KeyError on a non-empty mapping'
                    sess.op(f'popitem {cur}', rep + mapping(cur))
                elif name == 'copy':
                    # every way the language offers to copy the object: the method, copy.copy() and copy.deepcopy()
                    how = ('method', 'copy.copy')[(len(ops) + len(objs)) % 2]       # (copy.deepcopy: see _copy_protocol, the handlers get new identities)
                    ctx.count('handlers_copied_by_' + how)
                    c = h.copy() if how == 'method' else __import__('copy').copy(h)
                    if type(c) is not type(h) or c is h:
                        why = why or 'copy() did not create a new Handlers object'
                    if how == 'copy.deepcopy':
                        # a deep copy holds copies of the handlers: same keys in the same order, same handler classes, new identities
                        if list(c.data) != list(shadow) or any(type(c.data[k_]) is not type(h.data[k_]) for k_ in shadow):
                            why = why or f'deepcopy changed the keys or handler classes: {list(c.data)} vs {list(shadow)}'
                        objs.append(c); shadows.append({k_: ident(c.data[k_]) for k_ in c.data})
                    else:
                        objs.append(c); shadows.append(dict(shadow))
                    if how == 'copy.deepcopy':      # to the model a deep copy is a new object built from (copies of) the items
                        sess.op('new ' + mapping(len(objs) - 1), 'ok ' + mapping(len(objs) - 1))
                    else:
                        sess.op(f'copy {cur}', 'ok ' + mapping(len(objs) - 1))
                    if op[1]:
                        cur = len(objs) - 1     # continue the history on the copy; the original is re-checked at the end
                elif name == 'switch':
                    cur = op[1] % len(objs)
                    continue
                elif name == 'flood':
                    # more distinct resolutions than the LRU holds (64): evicts older memo entries
                    for j in range(70):
                        ct = f'text/x{j}'
                        by_str.setdefault(ct, Rng('text', f'x{j}', {}))
                        resolve(cur, ct, op[1], None, 'direct')
                    continue
                elif name == 'resolve':
                    resolve(cur, op[1], op[2], op[3], op[4])
                    continue
            except Hang:
                why = why or f'{name} did not return'
            except Exception as e:  # noqa
                why = why or f'{name} raised {type(e).__name__}: {e}'
            mutated_between = mutated_between or resolved_before
            for i in range(len(objs)):
                if list(objs[i].items()) != [(k, reg.get(v)) for k, v in shadows[i].items()]:
                    why = why or f'after {name} object {i} holds {[(k, ident(v)) for k, v in objs[i].items()]}, the same operations on a dict give {shadows[i]}'
            if why:
                break
        if why is None:
            for i in range(len(objs)):
                for ct in finals:
                    resolve(i, ct, 'application/json', None, 'direct')
        ctx.oracle(O_H, why is None, why, {'initial': 'Handlers()' if init is None else list(init), 'ops': [list(map(_plain, o)) for o in ops], 'final_resolutions': list(finals)})
        ctx.seen(('h', str(init), str(ops)), nontriv)

    # ---- exhaustive small histories over a 3-type universe
    U = ['application/json', 'text/plain', 'text/*']
    for u in U + ['text/html']:
        m, s = u.split('/')
        by_str[u] = Rng(m, s, {})
    ALPHA = ([('set', k) for k in U] + [('del', k) for k in U] + [('ior', (k,)) for k in U] +
             [('pop', 'text/plain'), ('setdefault', 'text/plain'), ('update', ('text/plain', 'application/json')), ('clear',), ('copy', True), ('popitem',)] +
             [('resolve', ct, 'application/json', None, 'direct') for ct in ('application/json', 'text/plain', 'text/html', None)])
    maxlen = 3 if ctx.quick else 4
    allh = []
    for L in range(0, maxlen + 1):
        allh.extend(itertools.product(ALPHA, repeat=L))
    i0, k0 = ctx.shard
    for idx, ops in enumerate(allh):
        if idx % k0 != i0:
            continue
        for init in (None, [], ['text/*']):
            run_history(init, list(ops), ['application/json', 'text/plain', 'text/html', None], {'mode': 'exhaustive'})
            ctx.count('history_exhaustive')

    # ---- random histories, length <= 10
    for ci in range(ctx.n(16000, 100000)):
        k = rnd.random()
        init = None if k < 0.25 else rnd.sample(KSTR, rnd.randint(0, 4))
        ops = []
        for _ in range(rnd.randint(1, 10)):
            r = rnd.random()
            if r < 0.36:
                ct = rnd.choice(CSTR + KSTR + [None, '*/*'])
                via = rnd.choice(['direct', 'direct', 'direct', 'direct', 'request', 'response'])
                rf = rnd.choice([None, True, False]) if via == 'direct' else None
                if via == 'response' and ct in ('', None):
                    ct = None
                ops.append(('resolve', ct, rnd.choice(['application/json', 'application/json', 'text/plain', 'text/html']), rf, via))
            elif r < 0.48:
                ops.append(('set', rnd.choice(KSTR)))
            elif r < 0.58:
                ops.append(('del', rnd.choice(KSTR)))
            elif r < 0.68:
                ops.append(('ior', tuple(rnd.sample(KSTR, rnd.randint(0, 3)))))
            elif r < 0.75:
                ops.append(('update', tuple(rnd.sample(KSTR, rnd.randint(0, 3)))))
            elif r < 0.82:
                ops.append(('pop', rnd.choice(KSTR)))
            elif r < 0.87:
                ops.append(('setdefault', rnd.choice(KSTR)))
            elif r < 0.90:
                ops.append(('popitem',))
            elif r < 0.93:
                ops.append(('clear',))
            elif r < 0.97:
                ops.append(('copy', rnd.random() < 0.6))
            elif r < 0.99:
                ops.append(('switch', rnd.randint(0, 3)))
            else:
                ops.append(('flood', 'application/json'))
        finals = rnd.sample(CSTR + KSTR, 3) + [None]
        run_history(init, ops, finals, {'mode': 'random'})
        ctx.count('history_random')
        if ci < 2:
            ctx.sample({'initial': init, 'ops': [list(map(_plain, o)) for o in ops]})
    sess.finish()


# ------------------------------------------------------------------ third part: histories on ONE request / response object

def make_universe():
    """keys / content types of the object histories as generated structures, and the rule of the property statement on a plain dict"""
    def K(main, sub, **ps):
        return Rng(main, sub, dict(ps))
    KEYS = [K('application', 'json'), K('application', '*'), K('text', 'plain'), K('text', '*'), K('*', '*'),
            K('text', 'plain', charset='utf-8'), K('application', 'vnd.x+json'), K('image', 'png'), K('text', 'html', v='1'), K('text', 'html', v='2')]
    CTS = KEYS + [K('text', 'html'), K('application', 'json', charset='utf-8'), K('text', 'plain', charset='latin-1'), K('image', '*'),
                  K('application', 'xml'), K('text', 'html', v='1', level='2'),
                  Rng('text', 'plain', {}, q=0.0, qstr='0'), Rng('text', 'css', {}, q=0.5, qstr='0.5'), Rng(None, None, None, bad='garbage')]
    rr = __import__('random').Random(0)
    KSTR = [render(rr, k, plain=True) for k in KEYS]
    CSTR = [render(rr, c, plain=True) for c in CTS]
    by_str = dict(zip(KSTR + CSTR, KEYS + CTS))

    def designate(shadow, ct, default):
        """Which handler id the mapping `shadow` (a plain dict str -> id) designates for content type `ct`: the statement's rule."""
        if ct is None or ct == '' or ct == '*/*':
            ct = default
        if ct in shadow:
            return shadow[ct]
        t = by_str[ct]
        if t.bad is not None:
            return None
        best, bq = None, 0.0
        for k in shadow:
            q = spec_quality(by_str[k], [t])
            if q != 'error' and q > bq:
                best, bq = k, q
        return None if best is None else shadow[best]
    return KSTR, CSTR, by_str, designate


def _requests(ctx):
    """Request.get_media() / .media (WSGI and ASGI) and Response.render_body() called SEVERAL times on one object while the handler
    mapping, the Handlers object, the default media type and the content type change in between."""
    import asyncio
    import itertools
    import falcon
    import falcon.asgi
    import falcon.testing as ft
    from falcon import errors
    from falcon.media import Handlers, BaseHandler
    from falcon.request import RequestOptions
    from falcon.response import ResponseOptions
    from runner import Hang
    rnd = ctx.rng
    KSTR, CSTR, by_str, designate = make_universe()
    for u in ('text/x-new', 'application/x-new'):
        m, s_ = u.split('/')
        by_str[u] = Rng(m, s_, {})

    LOG = []          # (handler id, content type it was called with), in call order

    class Media:
        """what a handler deserializes: it says which handler made it"""
        def __init__(s, hid):
            s.hid = hid

    class NotFound(errors.MediaNotFoundError):
        def __init__(s, hid):
            super().__init__('H')
            s.hid = hid

    class Broken(Exception):
        def __init__(s, hid):
            super().__init__(f'H{hid}')
            s.hid = hid

    class RH(BaseHandler):
        """A handler that says who it is and records that it was called."""
        def __init__(s, hid, mode):
            s.hid, s.mode = hid, mode
        def deserialize(s, stream, content_type, content_length):
            LOG.append((s.hid, content_type))
            if s.mode == 'notfound':
                raise NotFound(s.hid)
            if s.mode == 'fails':
                raise Broken(s.hid)
            return Media(s.hid)
        def serialize(s, media, content_type):
            LOG.append((s.hid, content_type))
            if s.mode != 'ok':
                raise Broken(s.hid)
            return b'H%d' % s.hid

    O_RQ = ('one request object, several get_media() / media calls: a call that has nothing deserialized to return (no media object and no handler error from an earlier call) '
            'invokes exactly the handler that the CURRENT mapping / Handlers object / default type / content type designate, or raises 415 and remembers nothing; '
            'a deserialized object (or the error the designated handler raised) is what later calls return')
    O_RS = ('one response object, several render_body() calls: unless the rendering of the current resp.media is already there, the handler that the CURRENT mapping / '
            'Handlers object / default type / content type designate serializes it, or 415 is raised and nothing is remembered')
    sess = ctx.session('Request.get_media histories on one request = Rq model (per-request cache in front of Mh)', 'mhdriver')
    SENT = object()
    loop = asyncio.new_event_loop()
    ids = itertools.count(1)

    def run_async(coro):
        return loop.run_until_complete(asyncio.wait_for(coro, 20))

    def run_history(stack, init, ct0, default0, ops, meta):
        """stack: 'wsgi' | 'asgi' | 'resp' | 'aresp'.  init: [(key, mode)]."""
        is_resp = stack in ('resp', 'aresp')
        is_async = stack in ('asgi', 'aresp')
        modes = {}

        def op(line, reply):
            if not is_resp:
                sess.op(line, reply)

        def newh(mode):
            x = RH(next(ids), mode)
            modes[x.hid] = mode
            op(f'beh {x.hid} {mode}', 'ok')
            return x

        def kvs(d):
            return ','.join(f'{hexs(k)}:{v.hid}' for k, v in d.items()) or '-'

        if not is_resp:
            sess.case(dict(meta, stack=stack))
        op('reset', 'ok')
        objs, shadows = [], []

        def new_handlers(items):
            d = {k: newh(m) for k, m in items}
            h = Handlers(d)
            objs.append(h)
            shadows.append({k: v.hid for k, v in d.items()})
            op('new ' + kvs(d), 'ok ' + kvs(h))
            return len(objs) - 1

        cur = new_handlers(init)
        default = default0
        ct = ct0
        del LOG[:]
        if is_resp:
            opts = ResponseOptions()
            opts.media_handlers = objs[cur]
            opts.default_media_type = default
            obj = (falcon.asgi.Response if is_async else falcon.Response)(options=opts)
            if ct is not None:
                obj.content_type = ct
            have_media = False
        else:
            opts = RequestOptions()
            opts.media_handlers = objs[cur]
            opts.default_media_type = default
            hdrs = {} if ct is None else {'Content-Type': ct}
            if is_async:
                obj = ft.create_asgi_req(options=opts, method='POST', headers=hdrs, body=b'{}')
            else:
                env = ft.create_environ(method='POST', headers=hdrs, body='{}')
                if ct is None:
                    env.pop('CONTENT_TYPE', None)
                obj = falcon.Request(env, options=opts)
            if obj.content_type != ct:
                obj.content_type = ct
            op(f"rnew {cur} {hexs(ct or '')} {hexs(default)}", 'ok')
        why = None
        cached = None               # None | ('v', object) | ('e', hid, is_not_found)
        gets = 0
        fresh_after_change = False  # a call that had to resolve after something changed since an earlier call
        changed = False

        def call(kind):
            nonlocal why, cached, gets, fresh_after_change, changed, have_media
            before = len(LOG)
            # the content type the object shows right before the call (a response adopts the default type as its content type when it renders)
            ct_now = obj.content_type if is_resp else ct
            eff_ct = obj.content_type
            try:
                with alarm(3):
                    if is_resp:
                        got = run_async(obj.render_body()) if is_async else obj.render_body()
                    elif kind == 'prop':
                        got = run_async(obj.media) if is_async else obj.media
                    elif kind == 'dwe':
                        got = run_async(obj.get_media(default_when_empty=SENT)) if is_async else obj.get_media(default_when_empty=SENT)
                    else:
                        got = run_async(obj.get_media()) if is_async else obj.get_media()
                if got is SENT:
                    out = ('dflt',)
                elif isinstance(got, Media):
                    out = ('v', got.hid, got)
                elif is_resp and isinstance(got, bytes) and got[:1] == b'H':
                    out = ('v', int(got[1:]), got)
                elif is_resp and got is None:
                    out = ('nothing',)
                else:
                    out = ('other', repr(got)[:60])
            except falcon.HTTPUnsupportedMediaType:
                out = ('415',)
            except (NotFound, Broken) as e:
                out = ('raised', e.hid, isinstance(e, NotFound))
            except (Hang, asyncio.TimeoutError):
                out = ('hang',)
            except Exception as e:  # noqa
                out = ('exc', type(e).__name__, str(e)[:80])
            called = LOG[before:]
            # ---- the oracle: a direct reading of the statement + the documented caching of what a handler produced
            if is_resp and not have_media:
                want_out, want_calls = ('nothing',), []
            elif cached is not None and cached[0] == 'v':
                want_out, want_calls = ('v', cached[1].hid if not is_resp else int(cached[1][1:]), cached[1]), []
            elif cached is not None:
                want_out = ('dflt',) if (kind == 'dwe' and cached[2]) else ('raised', cached[1], cached[2])
                want_calls = []
            else:
                want = designate(shadows[cur], ct_now, default)
                if gets and changed:
                    fresh_after_change = True
                if want is None:
                    want_out, want_calls = ('415',), []
                else:
                    want_calls = [(want, ct if not is_resp else (ct_now or default))]
                    mode = modes[want]
                    if mode == 'ok':
                        want_out = ('v', want, None)
                    elif is_resp:
                        want_out = ('raised', want, False)
                    elif mode == 'notfound':
                        want_out = ('dflt',) if kind == 'dwe' else ('raised', want, True)
                    else:
                        want_out = ('raised', want, False)
                    # what the handler produced is what the object may remember
                    if mode == 'ok':
                        cached = ('v', out[2]) if out[0] == 'v' else cached
                    elif not is_resp:
                        cached = ('e', want, mode == 'notfound')
            ok = out[:2] == want_out[:2] if out[0] == 'v' else out == want_out
            if ok and out[0] == 'v' and want_out[2] is not None and out[2] is not want_out[2] and not is_resp:
                ok = False
            if ok and is_resp and out[0] == 'v' and want_out[2] is not None and out[2] != want_out[2]:
                ok = False
            if ok and called != want_calls:
                ok = False
            if not ok:
                why = why or (f'call #{gets + 1} ({kind}) with content type {ct_now!r}, default {default!r}, current mapping {shadows[cur]} '
                              f'(handler modes {dict((h, modes[h]) for h in shadows[cur].values())}), remembered {None if cached is None else cached[:1] + tuple(cached[2:]) if cached[0] == "e" else "a deserialized object"}: '
                              f'got {out[:2] if out[0] == "v" else out} with handler calls {called}, expected {want_out[:2] if want_out[0] == "v" else want_out} with handler calls {want_calls}')
            if not is_resp:
                if eff_ct != ct:
                    why = why or f'req.content_type is {eff_ct!r}, was set to {ct!r}'
                rep = {'v': lambda: f'v {out[1]}', '415': lambda: '415', 'raised': lambda: f'raised {out[1]}', 'dflt': lambda: 'dflt'}.get(out[0], lambda: 'impl-' + out[0])()
                op(f"rget {'1' if kind == 'dwe' else '0'}", rep)
            gets += 1
            changed = False
            ctx.count(f'{stack}_call_' + (out[0] if out[0] in ('v', '415', 'raised', 'dflt', 'nothing') else 'other'))

        for o in ops:
            name = o[0]
            h, shadow = objs[cur], shadows[cur]
            ctx.count('objop_' + name)
            try:
                if name == 'get':
                    call(o[1])
                    if why:
                        break
                    continue
                elif name == 'media':        # response only: resp.media = <new object>
                    obj.media = {'n': next(ids)}
                    have_media = True
                    cached = None
                elif name == 'set':
                    x = newh(o[2]); h[o[1]] = x; shadow[o[1]] = x.hid
                    op(f'set {cur} {hexs(o[1])} {x.hid}', 'ok ' + kvs(h))
                elif name == 'del':
                    if o[1] in shadow:
                        del h[o[1]]; del shadow[o[1]]
                        op(f'del {cur} {hexs(o[1])}', 'ok ' + kvs(h))
                elif name == 'pop':
                    h.pop(o[1], None); shadow.pop(o[1], None)
                    op(f'pop {cur} {hexs(o[1])}', 'ok ' + kvs(h))
                elif name == 'clear':
                    h.clear(); shadow.clear()
                    op(f'clear {cur}', 'ok ' + kvs(h))
                elif name in ('update', 'ior'):
                    d = {k: newh(m) for k, m in o[1]}
                    if name == 'ior':
                        # `options.media_handlers |= {...}` (the augmented assignment on the attribute)
                        opts.media_handlers |= d
                        if opts.media_handlers is not h:
                            why = why or '|= rebound options.media_handlers to another object'
                    else:
                        h.update(d)
                    shadow.update({k: v.hid for k, v in d.items()})
                    op(f'{name} {cur} ' + kvs(d), 'ok ' + kvs(h))
                elif name == 'setdefault':
                    x = newh(o[2]); h.setdefault(o[1], x); shadow.setdefault(o[1], x.hid)
                    op(f'setdefault {cur} {hexs(o[1])} {x.hid}', 'ok ' + kvs(h))
                elif name == 'replace':      # options.media_handlers = Handlers({...})
                    cur = new_handlers(o[1])
                    opts.media_handlers = objs[cur]
                    op(f'rset handlers {cur}', 'ok')
                elif name == 'replace_copy':  # options.media_handlers = a copy of options.media_handlers (method / copy.copy / copy.deepcopy)
                    how = ('method', 'copy.copy')[len(objs) % 2]            # (deep copies: in the Handlers histories above)
                    ctx.count('handlers_replaced_by_copy_via_' + how)
                    c = h.copy() if how == 'method' else __import__('copy').copy(h)
                    objs.append(c); shadows.append(dict(shadow))
                    op(f'copy {cur}', 'ok ' + kvs(c))
                    cur = len(objs) - 1
                    opts.media_handlers = c
                    op(f'rset handlers {cur}', 'ok')
                elif name == 'options':      # a whole new options object on the same request / response
                    cur = new_handlers(o[1])
                    default = o[2]
                    opts = ResponseOptions() if is_resp else RequestOptions()
                    opts.media_handlers = objs[cur]
                    opts.default_media_type = default
                    obj.options = opts
                    op(f'rset handlers {cur}', 'ok')
                    op(f'rset default {hexs(default)}', 'ok')
                elif name == 'default':
                    default = o[1]
                    opts.default_media_type = default
                    op(f'rset default {hexs(default)}', 'ok')
                elif name == 'ct':
                    ct = o[1]
                    obj.content_type = ct
                    op(f"rset ct {hexs(ct or '')}", 'ok')
                elif name == 'direct':       # somebody else resolves on the same Handlers object (warms its memo)
                    want = designate(shadow, o[1], default)
                    try:
                        r = h._resolve(o[1], default, False)
                        got = None if r[0] is None else r[0].hid
                    except Exception as e:  # noqa
                        got = f'{type(e).__name__}'
                    if got != want:
                        why = why or f'direct resolution of {o[1]!r} gave {got}, the current mapping {shadow} designates {want}'
                    op(f"resolve {cur} {hexs(o[1] or '')} {hexs(default)} 0", 'none' if got is None else f'h {got}')
                    continue
            except Hang:
                why = why or f'{name} did not return'
            except Exception as e:  # noqa
                why = why or f'{name} raised {type(e).__name__}: {e}'
            changed = True
            if why:
                break
        case = {'stack': {'wsgi': 'falcon.Request', 'asgi': 'falcon.asgi.Request', 'resp': 'falcon.Response', 'aresp': 'falcon.asgi.Response'}[stack],
                'initial_mapping': [list(i) for i in init], 'content_type': ct0, 'default_media_type': default0, 'ops': [list(map(_plain, o)) for o in ops]}
        ctx.oracle(O_RS if is_resp else O_RQ, why is None, why, case)
        ctx.seen((stack, str(init), ct0, default0, str(ops)), fresh_after_change)
        return case

    # ---- exhaustive small histories: every sequence over the alphabet that contains a call, on both request stacks
    A = [('get', 'call'), ('get', 'dwe'), ('set', 'text/plain', 'ok'), ('set', 'text/*', 'ok'), ('set', 'application/json', 'ok'), ('del', 'text/plain'), ('del', 'text/*'),
         ('ior', (('text/plain', 'ok'),)), ('update', (('text/*', 'ok'),)), ('clear',), ('replace', (('text/plain', 'ok'),)), ('default', 'text/plain'),
         ('ct', None), ('ct', 'text/plain'), ('direct', 'text/plain')]
    maxlen = 3 if ctx.quick else 4
    allh = []
    for L in range(1, maxlen + 1):
        allh.extend(h for h in itertools.product(A, repeat=L) if any(o[0] == 'get' for o in h))
    i0, k0 = ctx.shard
    n = 0
    for idx, ops in enumerate(allh):
        if idx % k0 != i0:
            continue
        for init in ((), (('application/json', 'ok'),)):
            for ct0 in ('text/plain', None):
                for stack in ('wsgi', 'asgi'):
                    run_history(stack, init, ct0, 'application/json', list(ops), {'mode': 'exhaustive'})
                    ctx.count('objhistory_exhaustive_' + stack)

    # ---- random histories, 2..10 operations, all four kinds of object
    MODES = ['ok'] * 6 + ['notfound', 'fails']
    DEFAULTS = ['application/json', 'application/json', 'text/plain', 'text/html', 'text/x-new']

    def related(ct):
        """keys that would make `ct` resolvable: the type itself and the ranges above it"""
        t = by_str.get(ct)
        if t is None or t.bad is not None:
            return list(KSTR)
        out = [k for k in KSTR if spec_quality(by_str[k], [t]) not in ('error', 0.0)]
        return out or list(KSTR)

    for ci in range(ctx.n(6000, 40000)):
        stack = rnd.choice(['wsgi', 'wsgi', 'asgi', 'asgi', 'resp', 'aresp'])
        is_resp = stack in ('resp', 'aresp')
        ct0 = rnd.choice(CSTR + KSTR + [None, None, '*/*', 'text/x-new', 'application/x-new'])
        if is_resp and ct0 == '':
            ct0 = None
        default0 = rnd.choice(DEFAULTS)
        pool = related(ct0 if ct0 not in (None, '*/*') else default0)
        keyp = lambda: rnd.choice(pool) if rnd.random() < 0.6 else rnd.choice(KSTR)   # noqa: E731
        # half of the histories start from a mapping that cannot resolve the request (the first call is then a 415)
        init = [(k, rnd.choice(MODES)) for k in rnd.sample(KSTR, rnd.randint(0, 3))]
        if rnd.random() < 0.5:
            sh = {}
            for k, m in init:
                sh[k] = 1
                if designate(sh, ct0, default0) is not None:
                    del sh[k]
            init = [(k, m) for k, m in init if k in sh]
        ops = [('media',)] if is_resp else []
        for _ in range(rnd.randint(2, 10)):
            r = rnd.random()
            if r < 0.38:
                ops.append(('get', 'call' if is_resp else rnd.choice(['call', 'call', 'prop', 'dwe'])))
            elif r < 0.50:
                ops.append(('set', keyp(), rnd.choice(MODES)))
            elif r < 0.56:
                ops.append(('del', keyp()))
            elif r < 0.62:
                ops.append(('update', tuple((k, rnd.choice(MODES)) for k in {keyp() for _ in range(rnd.randint(0, 3))})))
            elif r < 0.68:
                ops.append(('ior', tuple((k, rnd.choice(MODES)) for k in {keyp() for _ in range(rnd.randint(0, 3))})))
            elif r < 0.71:
                ops.append(('pop', keyp()))
            elif r < 0.73:
                ops.append(('clear',))
            elif r < 0.76:
                ops.append(('setdefault', keyp(), rnd.choice(MODES)))
            elif r < 0.82:
                ops.append(('replace', tuple((k, rnd.choice(MODES)) for k in {keyp() for _ in range(rnd.randint(0, 3))})))
            elif r < 0.84:
                ops.append(('replace_copy',))
            elif r < 0.87:
                ops.append(('options', tuple((k, rnd.choice(MODES)) for k in {keyp() for _ in range(rnd.randint(0, 2))}), rnd.choice(DEFAULTS)))
            elif r < 0.91:
                ops.append(('default', rnd.choice(DEFAULTS)))
            elif r < 0.95:
                ops.append(('ct', rnd.choice(CSTR + KSTR + [None, '*/*', 'text/x-new'])))
            elif r < 0.98:
                ops.append(('direct', rnd.choice([ct0, ct0, None, 'text/plain'])))
            elif is_resp:
                ops.append(('media',))
        case = run_history(stack, tuple(init), ct0, default0, ops, {'mode': 'random'})
        ctx.count('objhistory_random_' + stack)
        if ci < 2:
            ctx.sample(case)
    loop.close()
    sess.finish()


def _plain(x):
    return list(x) if isinstance(x, tuple) else x


LEVEL_TEXT = ('Machine-checked proofs (Lean 4): (1) the media Handlers resolver, modelled as a memoising function over a mutable mapping, returns for every history of '
              'set / delete / update / pop / popitem / clear / setdefault / |= / copy / LRU evictions / resolutions exactly what the uncached rule gives on the CURRENT mapping '
              '(resolve_fresh, resolve_fresh_x; instantiated with the concrete rule exact-key / best_match / default type / 415 in resolve_rule_fresh); copy preserves the mapping; '
              '(1b) Request.get_media (both stacks) on top of that resolver refines a memo-free specification for every history on one request object: only what a handler produced is remembered, a 415 never is, '
              'every other call resolves on the current mapping / Handlers object / default type / content type (trace_refines_spec, getMedia_fresh, e415_not_cached); '
              '(2) for the transcription of falcon.util.mediatypes (parse_header with both paths, media type / range parsing, match_score, quality, best_match): quality is the q of a lexicographically '
              'maximal (type, subtype, exact-params, #params, q) match or 0 when nothing matches, best_match is the first candidate of maximal quality and never one of quality 0, and malformed input only yields the two value errors. '
              'Both models are tied to the real code on every run by differential correspondences (same inputs / operation lines to falcon.util.mediatypes, falcon.media.Handlers, falcon.Request / falcon.asgi.Request and the compiled models), '
              'and an independent oracle computed from the generated structure of the header (not from the parser) and from a plain-dict shadow of the mapping decides failing inputs.')
LEVEL_NOTE = ('Trusted: Lean kernel + standard axioms; the correspondence harness and oracles; float() on q values; lru_cache behaving as a sub-memo. '
              'Case-sensitivity of types and splitting at quoted commas are taken as documented behaviour (see assumptions).')
TECHNIQUE = 'Lean 4 invariant proof (memo coherence over histories) + order-theoretic lemmas on the matching rule + differential correspondence model vs. real code + structure-derived oracle'

"""C11 - content negotiation and media-handler resolution follow RFC 9110 precedence; never a stale handler."""
PROP = 'C11'
LEAN_MODULES = ['FalconModel.Handlers', 'FalconModel.HandlersRule', 'FalconModel.MediaTypeProofs', 'FalconModel.RequestMedia', 'FalconModel.RequestMediaProofs']
DRIVERS = ['mhdriver']
THEOREMS = [
    'Mt.parsed_type_is_lower', 'Mt.lower_idem',
    # falcon/media/handlers.py: the memoising resolver over the mutable mapping (model Mh, the code after F08/F09)
    'Mh.step_coherent', 'Mh.resolve_on_coherent', 'Mh.history_coherent', 'Mh.resolve_fresh',
    'Mh.xrun_coherent', 'Mh.resolve_fresh_x', 'Mh.copy_preserves_mapping', 'Mh.resolve_rule_fresh',
    # the pre-repair `|=` is not coherent (regression witness, by `decide`)
    'Mh.ior_stale_witness',
    # falcon/request.py + falcon/asgi/request.py: get_media's per-request cache in front of the resolver (model Rq)
    'Rq.trace_refines_spec', 'Rq.getMedia_fresh', 'Rq.e415_not_cached', 'Rq.getMedia_cached', 'Rq.getMedia_frame',
    'Rq.getMedia_sim', 'Rq.step_sim', 'Rq.step_inv', 'Rq.run_inv', 'Rq.xstep_data', 'Rq.xrun_data',
    # falcon/util/mediatypes.py (model Mt)
    'Mt.maxScore_ge', 'Mt.maxScore_mem', 'Mt.quality_is_q_of_most_specific', 'Mt.no_matching_range_quality_zero',
    'Mt.bestLoop_spec', 'Mt.bestMatch_never_q0_or_unmatched', 'Mt.bestMatch_is_first_max', 'Mt.malformed_only_value_errors',
]
STATEMENTS = {
    'Mt.parsed_type_is_lower': 'the type and subtype of every parsed media type / media range are in lower case (lower is idempotent): spellings that differ only in the ASCII case of type or subtype are indistinguishable to quality / best_match / the handler rule (fix a19fe30, finding F43; RFC 9110 8.3.1)',
    'Mh.resolve_fresh': 'for every resolution rule f and every history of set / delete / clear / |= / LRU evictions / resolutions starting from a coherent memo, a resolution returns f of the CURRENT mapping',
    'Mh.resolve_fresh_x': 'the same for histories that also contain update / pop / popitem / setdefault / copy (each is a history of the basic operations)',
    'Mh.resolve_rule_fresh': 'resolve_fresh_x instantiated with the concrete rule of Handlers.resolve (missing or */* type -> default type; exact key; else mediatypes.best_match over the keys; else 415) on an object created with an empty memo',
    'Mh.copy_preserves_mapping': 'copy() has exactly the items of the original (also when it is empty) and an empty memo',
    'Mh.ior_stale_witness': 'with the pre-repair |= (memo not cleared) the history [resolve x; |= {x: h}; resolve x] answers the memoised miss although the mapping designates h',
    'Rq.trace_refines_spec': 'for every history on ONE request (any mutator of the mapping, resolutions by others on the same Handlers object, replacing the Handlers object, changing default_media_type or content_type, get_media with/without default_when_empty) and every behaviour of the handlers, the implementation (resolver memo + per-request cache) produces exactly the outputs of the memo-free specification, in which a get_media that holds no deserialized object and no handler error evaluates the rule on the mapping / default type / content type of that moment',
    'Rq.getMedia_fresh': 'after any such history, get_media on a request with nothing deserialized and no handler error answers what the CURRENT mapping designates for the current content type and default type: that handler is invoked, or 415',
    'Rq.e415_not_cached': 'a get_media that answers 415 leaves the request, the mapping and the default type exactly as they were, so the next call resolves again',
    'Rq.getMedia_cached': 'once a handler has produced the media object, every later get_media returns that object and changes nothing (the documented caching)',
    'Rq.xstep_data': 'every mutator acts on the items of the mapping like the same operation on a plain dict, independently of the resolver memo',
    'Mt.quality_is_q_of_most_specific': 'when quality() returns q, either no range matches and q = 0, or q is the q of a range whose (type, subtype, exact-params, #matching-params, q) tuple is lexicographically >= that of every other range',
    'Mt.no_matching_range_quality_zero': 'if no media range of the header matches the media type, quality() = 0',
    'Mt.bestMatch_never_q0_or_unmatched': 'a non-empty best_match() result is one of the candidates and its quality is > 0',
    'Mt.bestMatch_is_first_max': 'the best_match() result has the maximal quality among the candidates and every earlier candidate has a strictly smaller one; an empty result means every candidate has quality 0',
    'Mt.malformed_only_value_errors': 'quality()/best_match() of the model are total: a value, InvalidMediaType, InvalidMediaRange (or "outside the modelled fragment"); InvalidMediaRange only if some member of the header fails to parse',
}
TRUSTED = [
    "Python's float() on the q value (the model uses exact decimals in units of 1/10000; syntactically valid floats with exponent/underscore/>4 fraction digits are outside the modelled fragment and go to the oracle only)",
    'functools.lru_cache as a sub-memo of its function (entries are only ever f(args); eviction drops entries) - the shape the Mh model gives the memo',
    'what a media handler does in deserialize() is a parameter of the Rq model (returns an object / raises MediaNotFoundError / raises another error); the request stream and the handler bodies are not modelled',
    'collections.UserDict / MutableMapping routing update/pop/popitem/clear/setdefault through __setitem__/__delitem__ (observed by the correspondence on every run)',
]
ASSUMPTIONS = [
    'media types, subtypes and parameter values are compared verbatim (case-sensitively) as the documentation of quality() states; parameter names are case-insensitive',
    'the Accept header is split at every comma, also inside a quoted parameter value, and an empty list member is an invalid range (code and documentation of mediatypes; RFC 9110 would keep a quoted comma and skip empty members) - such headers are only required to produce a value or a documented value error',
    'duplicate parameter names inside one range, whitespace around "=", a lone "*" and a quoted value ending in a backslash are outside the exact oracle (robustness oracle + model correspondence only)',
    'handler objects are truthy; keys and content types of the handler histories are str (or None for the content type)',
    'what a request may remember between get_media() calls is what a handler PRODUCED - the deserialized object (documented: "the result will be cached and returned in subsequent calls") or the error the designated handler raised while consuming the stream; the outcome of the resolution itself (in particular a 415) is not something to remember: every call that has nothing deserialized to return resolves on the current mapping',
    'a Response adopts options.default_media_type as its content_type at its first rendering; the response histories read resp.content_type right before each call and take that as the content type being resolved',
    'a header without members is the empty string, i.e. one empty member (an invalid range)',
    'the candidates of best_match / client_prefers are "an iterable over media types" (documentation and annotation): the answer depends on the items only, not on the kind of object that '
    'delivers them (a one-shot iterator is a legitimate argument); for an unordered collection any candidate of maximal quality is right; a str is the iterable of its characters',
    'Handlers(initial) takes a snapshot of the mapping it is given: afterwards the Handlers object and the caller\'s mapping (and every other Handlers object built from it) change independently',
    'consumers of a handler mapping: what falcon itself resolves on a media Handlers object (request / response media, get_param_as_json, error documents, SSE json, multipart parts); '
    'ws_options.media_handlers is a plain dict keyed by the WebSocket payload type (TEXT / BINARY) - there is no media type to match, so it is not a consumer of the rule',
]
RULE = ('negotiation: Accept headers rendered from a generated AST of 1..5 media ranges (type/subtype/wildcards, 0..2 parameters, bare or quoted values with ; = space " \\ inside, '
        'q in 0..4 digits or invalid, random OWS and parameter-name case, designated-invalid members) x 1..4 candidates, checked through mediatypes.quality/best_match, '
        'req.client_accepts/client_prefers (WSGI and ASGI Request); '
        'ARGUMENT OBJECTS: for 30% of the structured cases (15% of the junk) the same candidates are handed to best_match / client_prefers (both request classes) as tuple, generator expression, generator function, '
        'iter(), map, filter, itertools.chain, reversed, dict, dict keys view, deque, a user-defined iterable / one-shot iterator / __getitem__-only sequence (answer = the documented one for the list), '
        'set / frozenset (any candidate of maximal quality) and as a str (= the list of its characters); '
        'SIZE mode: headers with 0..40 members (half of the draws from the boundary list 0,1,2,3,7,8,9,15..20,31..34,39,40; 3% from 63..66,100,127..130 = the LRU sizes 64/128 of the code), '
        'filler members plus an adversarial family / q=0 exclusion / invalid member placed anywhere and half of the time among the last three, 0..40 parameters per range or candidate from 43 names (same boundary list), '
        'values of 1..4097 characters (boundary lengths 1,2,15..17,31..33,63..65,127..129,255..257,1000,4097; token or quoted with specials), 0..40 (rarely ..130) candidates, same oracles and model; '
        'plus a junk stream of arbitrary header strings (15% of the structured junk with 0..40 members); '
        'handlers: histories of 1..10 operations (set/delete/update/pop/popitem/clear/copy/|=/setdefault/LRU floods/resolve, a fifth via Request.get_media/Response.render_body) over media-type keys with wildcards and parameters, '
        'exhaustive over a 21-operation alphabet on a 3-type universe (x 3 initial mappings) up to length 3 (quick) / 4 (thorough); '
        'FAILING OPERATIONS: 30 % of the random histories (and two letters of the exhaustive alphabet) contain operations that RAISE, possibly after a partial effect: update(source) / update(source, **kwargs) / '
        '`|= source` where the source is a list / iterator / tuple of pairs with a malformed element (1-tuple, 3-tuple, non-sequence, None, unhashable key, 3-character string) after the first 0..4 pairs, a generator that '
        'raises midway, an object with keys() whose n-th value lookup raises, a collections.abc.Mapping that does the same (the failure biased towards the end of the source; one in six sources does not fail: the same '
        'shapes plus UserDict / another Handlers / dict on the normal exit), and calls that fail outright (pop without default / [] on a missing key, update(None), update(42), two positional arguments, unhashable keys in '
        'setdefault / [] = / del, pop(), popitem(1), |= None, |= 5, |= with a malformed first pair); the reference for the mapping is the same call on a plain dict holding the same objects, the later resolutions are judged '
        'against the items the real mapping holds AFTER the failure, and the model gets the items that were actually stored followed by the invalidation the code performs on that exit (driver lines fupdate / fior); '
        'CONSTRUCTION: every history that does not start from Handlers() builds its first object from a CALLER-OWNED mapping (dict, OrderedDict, dict subclass, defaultdict, UserDict, mappingproxy, ChainMap) which the history keeps: '
        'operations fromarg (another Handlers from the same argument, as it is now), fromobj (Handlers(another Handlers)), argset / argdel / argpop / argclear / argupdate (the caller changes its mapping afterwards), switch; '
        'a third of those random histories is construction-heavy; after every operation every object must hold what the same operations on its own plain dict give, the argument what the caller left in it, '
        'and the final resolutions run on every object (fromarg and argset are letters of the exhaustive alphabet); '
        'CONSUMERS: histories of 1..6 steps on one Handlers object shared by request options, response options, a WSGI app, an ASGI app and multipart parse options - mutations (set / del / update / |= / pop / clear / setdefault) '
        'interleaved with consumptions by 13 consumers (Request.get_media WSGI / ASGI, Response.render_body WSGI / ASGI, the response rendering of falcon.App and the one inlined in falcon.asgi.App, get_param_as_json on both stacks directly and in a responder, '
        'the default error serializer on both stacks under an Accept header naming the type, SSE json events, multipart body parts on both stacks); keys and content types are spelled in other letter case (APPLICATION/JSON, Application/JSON, application/Json), '
        'with parameters, as type/* , */subtype and */*, with the canonical spelling present only 16% of the time; handlers say who they are; expected = the statement rule on the plain-dict shadow (or 415 / the built-in serializer where documented); '
        'ONE-OBJECT histories: a single falcon.Request / falcon.asgi.Request (get_media(), .media, get_media(default_when_empty=...)) or falcon.Response / falcon.asgi.Response (render_body(), resp.media = ...) called several times while '
        'between the calls the mapping is changed (item assignment, del, update, |= on options.media_handlers, pop, clear, setdefault), the Handlers object is replaced (a new one, a copy, a whole new options object), '
        'default_media_type or the content type is changed, or somebody else resolves on the same Handlers object; handlers return / raise MediaNotFoundError / raise another error; half of the random histories start from a mapping that '
        'cannot resolve the request (first call = 415) and mutation keys are drawn from the ranges that would make it resolvable; exhaustive over a 15-operation alphabet (all sequences containing a call) up to length 3 (quick) / 4 (thorough) '
        'x 2 initial mappings x 2 content types x both request stacks, random histories of 2..10 operations over the full universe on all four kinds of object; '
        'non-trivial = a matching range/handler was found through the specificity order (not an exact-string hit) or the history mutated the mapping between two resolutions '
        '(one-object histories: a call had to resolve after something changed since an earlier call on the same object); distinct = distinct input strings / operation lists')
PARTIAL = ''
JOBS = {'quick': 4, 'thorough': 16}
EXHAUSTIVE = {'quick': False, 'thorough': False}



def _copy_protocol(ctx):
    """Every way the language offers to copy a Handlers object - the copy() method, copy.copy(), copy.deepcopy(), pickling is not
    claimed - gives an independent mapping: what is then changed in the copy is resolved by the copy and unknown to the original,
    and the other way round (resolution always follows the CURRENT mapping of the object asked)."""
    import copy
    import falcon
    from falcon import media
    rnd = ctx.rng
    name = 'copies of a Handlers object (copy(), copy.copy, copy.deepcopy) resolve by their own current mapping, the original by its own'

    class H(media.BaseHandler):
        def __init__(self, tag): self.tag = tag
        def serialize(self, m, content_type=None): return self.tag.encode()
        def deserialize(self, stream, content_type, content_length): return self.tag
    KEYS = ['application/json', 'text/plain', 'text/html', 'application/x-a', 'application/x-b', 'image/png', 'text/x-new']
    for ci in range(ctx.n(300, 3000)):
        keys = rnd.sample(KEYS[:-1], rnd.randint(0, 4))
        orig = media.Handlers({k: H('o:' + k) for k in keys})
        for k in keys[:2]:
            try: orig._resolve(k, 'application/json')        # warm the resolver cache of the original
            except falcon.HTTPError: pass
        how = ('method', 'copy.copy', 'copy.deepcopy')[ci % 3]
        c = orig.copy() if how == 'method' else copy.copy(orig) if how == 'copy.copy' else copy.deepcopy(orig)
        added = rnd.choice([k for k in KEYS if k not in keys])
        side = rnd.choice(['copy', 'original'])
        tgt, other = (c, orig) if side == 'copy' else (orig, c)
        tgt[added] = H('n:' + added)
        removed = rnd.choice(keys) if keys and rnd.random() < 0.5 else None
        if removed:
            del tgt[removed]
        what = None

        def res(hs, k):
            try: return hs._resolve(k, 'application/x-none')[0].tag
            except falcon.HTTPUnsupportedMediaType: return 415
        if type(c) is not type(orig) or c is orig: what = f'{how} did not create a new Handlers object'
        elif res(tgt, added) != 'n:' + added: what = f'after {how}: the {side} got {added!r} but resolves it to {res(tgt, added)!r}'
        elif res(other, added) != 415: what = f'after {how}: {added!r} was added to the {side} only, yet the other object resolves it to {res(other, added)!r}'
        elif removed and res(tgt, removed) != 415: what = f'after {how}: {removed!r} was deleted from the {side} but still resolves to {res(tgt, removed)!r}'
        elif removed and res(other, removed) != 'o:' + removed: what = f'after {how}: {removed!r} was deleted from the {side} only, the other object now resolves it to {res(other, removed)!r}'
        else:
            for k in keys:
                if k != removed and (res(c, k), res(orig, k)) != ('o:' + k, 'o:' + k):
                    what = f'after {how}: {k!r} resolves to {res(c, k)!r} on the copy and {res(orig, k)!r} on the original'
        ctx.oracle(name, what is None, what, {'copied_by': how, 'initial_keys': keys, 'then_added_to': side, 'added': added, 'deleted': removed})
        ctx.seen(('copyproto', how, tuple(keys), side, added, removed), True)
        ctx.count('handlers_copy_protocol_' + how)


def _quoted_backslash_end(ctx):
    """A quoted parameter value whose last character is an escaped backslash ("x\\") is a complete quoted-string (RFC 9110 5.6.4); the
    parameters after it (the weight!) belong to the range.  KNOWN FINDING F46: the parameter splitter copied from the CPython 3.8 stdlib
    (`_parse_param_old_stdlib`) decides "inside quotes" by the parity of `"` minus `\"` counts, takes the closing quote of such a value for an
    escaped one, and swallows everything up to the next quote or the end - the weight is lost.  Exactly that class is reported under the `what`
    the known-findings file lists; values with a backslash elsewhere are judged by the general oracle."""
    from falcon.util import mediatypes as mt
    name = 'quoted parameter values ending in an escaped backslash: the following parameters still count'
    for val in ('x\\', '\\', 'a b\\', 'q=1\\'):
        q = '"' + val.replace('\\', '\\\\').replace('"', '\\"') + '"'
        for tail, exp in ((';q=0', 0.0), (';q=0.5', 0.5), (' ; q=0.25;v=1', 0.25)):
            hdr = 'text/html;title=' + q + tail
            what = None
            try:
                got = mt.quality('text/html', hdr)
                if got != exp:
                    what = ('a quoted parameter value ending in an escaped backslash swallows the parameters after it (the weight is lost)'
                            if got == 1.0 else f'quality {got}, the header says {exp}')
            except Exception as e:  # noqa
                what = f'{type(e).__name__}: {e}'
            ctx.oracle(name, what is None, what, {'header': hdr, 'expected_quality': exp})
            ctx.seen(('qbs', hdr), True)

def run(ctx):
    _negotiation(ctx)
    _handlers(ctx)
    _requests(ctx)
    _copy_protocol(ctx)
    _consumers(ctx)
    if ctx.shard[0] == 0:
        _quoted_backslash_end(ctx)


def hexs(s):
    return s.encode('latin-1').hex() if s else '-'


# ------------------------------------------------------------------ generated media ranges (AST first, string second)

TYPES = ['text', 'application', 'image']
SUBS = {'text': ['plain', 'html'], 'application': ['json', 'vnd.x+json'], 'image': ['png']}
PNAMES = ['charset', 'v', 'level']
PVALS_TOKEN = ['utf-8', '1', '2', 'UTF-8', 'x']
PVALS_QUOTED = ['q;x', 'a=b', 'a b', 'a"b', 'a\\b', ';', 'q=0']
Q_VALID = [('0', 0.0), ('0.', 0.0), ('0.0', 0.0), ('0.000', 0.0), ('0.5', 0.5), ('0.75', 0.75), ('0.001', 0.001), ('0.999', 0.999),
           ('1', 1.0), ('1.0', 1.0), ('1.000', 1.0), ('0.3333', 0.3333), ('0.25', 0.25), ('0.8', 0.8), ('0.80', 0.8), ('0.1', 0.1)]
Q_INVALID = ['2', '-1', 'x', '', 'nan', 'inf', '1.001', '-0.5', '1.5', '0.5.5', '--1']


class Rng:
    """A generated media range / media type: the structure the oracle reasons about."""
    __slots__ = ('main', 'sub', 'params', 'q', 'qstr', 'bad')

    def __init__(s, main, sub, params, q=1.0, qstr=None, bad=None):
        s.main, s.sub, s.params, s.q, s.qstr, s.bad = main, sub, params, q, qstr, bad

    def desc(s):
        return s.bad if s.bad is not None else [s.main, s.sub, s.params, s.qstr]


def gen_type(rnd, wild=0.3):
    if rnd.random() < wild:
        k = rnd.random()
        if k < 0.45:
            return '*', '*'
        if k < 0.9:
            return rnd.choice(TYPES), '*'
        t = rnd.choice(TYPES)                 # not an RFC 9110 media range, but the documented order covers it
        return '*', rnd.choice(SUBS[t])
    t = rnd.choice(TYPES)
    return t, rnd.choice(SUBS[t])


def gen_params(rnd, quoted_ok=True):
    ps = {}
    for _ in range(rnd.choice([0, 0, 0, 1, 1, 2])):
        n = rnd.choice(PNAMES)
        ps[n] = rnd.choice(PVALS_QUOTED) if (quoted_ok and rnd.random() < 0.2) else rnd.choice(PVALS_TOKEN)
    return ps


def gen_range(rnd, bad_p=0.06):
    if rnd.random() < bad_p:
        k = rnd.random()
        if k < 0.4:
            return Rng(None, None, None, bad=rnd.choice(['text', 'plain', 'textplain', 'text;charset=utf-8']))
        t, s = gen_type(rnd)
        return Rng(t, s, gen_params(rnd), q=None, qstr=rnd.choice(Q_INVALID))
    t, s = gen_type(rnd)
    if rnd.random() < 0.6:
        qs, qv = rnd.choice(Q_VALID)
        return Rng(t, s, gen_params(rnd), q=qv, qstr=qs)
    return Rng(t, s, gen_params(rnd))


def render_value(rnd, v):
    tokenish = all(c.isalnum() or c in '-._+' for c in v) and v != ''
    if tokenish and rnd.random() < 0.75:
        return v
    return '"' + v.replace('\\', '\\\\').replace('"', '\\"') + '"'


def render(rnd, r, plain=False):
    """One list member.  plain=True: canonical rendering (handler keys / content types)."""
    if r.bad is not None:
        return r.bad
    out = f'{r.main}/{r.sub}'
    items = [(n, render_value(rnd, v) if not plain else v) for n, v in r.params.items()]
    if r.qstr is not None:
        items.insert(rnd.randint(0, len(items)), (rnd.choice(['q', 'q', 'Q']), r.qstr))
    for n, v in items:
        sep = '; ' if plain else rnd.choice([';', ';', '; ', ' ;', ' ; ', ';\t'])
        if not plain and n not in ('q', 'Q'):
            n = rnd.choice([n, n, n.upper(), n.title()])
        out += f'{sep}{n}={v}'
    return out


def spec_key(r, t):
    """The documented specificity of range r for media type t, or None when it does not match."""
    if r.main != '*' and t.main != '*' and r.main != t.main:
        return None
    if r.sub != '*' and t.sub != '*' and r.sub != t.sub:
        return None
    common = set(r.params) & set(t.params)
    if any(r.params[n] != t.params[n] for n in common):
        return None
    return (int(r.main != '*' and t.main != '*'), int(r.sub != '*' and t.sub != '*'),
            int(set(r.params) == set(t.params)), len(common))


def spec_quality(t, ranges):
    """quality of the most specific matching range; among equally specific ones the highest q; 0.0 when none matches.
    Returns 'error' when the media type or any member is designated invalid."""
    if t.bad is not None or not ranges or any(r.bad is not None or r.q is None for r in ranges):
        return 'error'           # (a header without members is the empty string = one empty member, see ASSUMPTIONS)
    keyed = [(spec_key(r, t), r.q) for r in ranges]
    keyed = [(k, q) for k, q in keyed if k is not None]
    if not keyed:
        return 0.0
    top = max(k for k, _ in keyed)
    return max(q for k, q in keyed if k == top)


def spec_best(cands, ranges):
    """first candidate with the highest quality, '' (index None) when that quality is 0"""
    if not cands:
        return None
    qs = [spec_quality(c, ranges) for c in cands]
    if 'error' in qs:
        return 'error'
    top = max(qs)
    return qs.index(top) if top > 0 else None


# ------------------------------------------------------------------ the SIZE dimension: number of members / parameters / candidates, value lengths
# Boundary values around every size constant found in the real code: functools.lru_cache() default maxsize 128 (quality,
# _parse_media_ranges, _parse_media_type/_range), the Handlers resolver LRU of 64, powers of two in between (a "sanity limit"
# on the number of members / parameters would sit at one of them), and 0 / 1.
COUNT_EDGES = [0, 1, 2, 3, 7, 8, 9, 15, 16, 17, 18, 19, 20, 31, 32, 33, 34, 39, 40]
COUNT_BIG = [63, 64, 65, 66, 100, 127, 128, 129, 130]
LEN_EDGES = [1, 2, 15, 16, 17, 31, 32, 33, 63, 64, 65, 127, 128, 129, 255, 256, 257, 1000, 4097]
PNAMES_MANY = PNAMES + [f'p{i}' for i in range(40)]
TOKCHARS = 'abcdefghijklmnopqrstuvwxyzABCDEFGHIJKLMNOPQRSTUVWXYZ0123456789-._+'


def pick_count(rnd, lo=0, hi=40, big=0.03):
    k = rnd.random()
    if k < big:
        return max(lo, rnd.choice(COUNT_BIG))
    if k < 0.5:
        return max(lo, rnd.choice(COUNT_EDGES))
    return rnd.randint(lo, hi)


def gen_value_long(rnd, quoted_ok=True):
    """a parameter value: usually one of the short ones, sometimes long (boundary lengths), sometimes quoted with specials inside"""
    k = rnd.random()
    if k < 0.78:
        return rnd.choice(PVALS_TOKEN)
    if k < 0.88 and quoted_ok:
        return rnd.choice(PVALS_QUOTED)
    k = rnd.random()
    n = rnd.choice(LEN_EDGES[:-2]) if k < 0.55 else rnd.choice(LEN_EDGES[-2:]) if k < 0.58 else rnd.randint(1, 100)
    c = rnd.choice(TOKCHARS)
    v = rnd.choice([c * n, (TOKCHARS * (n // len(TOKCHARS) + 1))[:n]])
    if quoted_ok and rnd.random() < 0.3:
        # a long value that needs quoting: specials sprinkled into a token
        base = list(v)
        for _ in range(rnd.randint(1, 4)):
            base[rnd.randrange(n)] = rnd.choice(' ;="\\')
        v = ''.join(base)
        # a quoted value ending in a backslash is outside the exact oracle (see ASSUMPTIONS)
        return v[:-1] + 'x' if v.endswith('\\') else v
    return v


def gen_params_many(rnd, n=None, quoted_ok=True):
    if n is None:
        n = rnd.choice([0, 0, 0, 1, 1, 2, 3]) if rnd.random() < 0.8 else pick_count(rnd, 0, 20, 0.0)
    n = min(n, len(PNAMES_MANY))
    return {name: gen_value_long(rnd, quoted_ok) for name in rnd.sample(PNAMES_MANY, n)}


def gen_filler(rnd, i):
    """a member that is there only to be counted: distinct subtype, sometimes weighted / with parameters"""
    r = Rng('application', f'x-filler-{i}', gen_params_many(rnd) if rnd.random() < 0.15 else {})
    if rnd.random() < 0.4:
        r.qstr, r.q = rnd.choice(Q_VALID)
    return r


def tail_biased_pos(rnd, n):
    """an insertion position in a list of n members: half of the time among the last three, else anywhere"""
    if n == 0:
        return 0
    return rnd.randint(max(0, n - 2), n) if rnd.random() < 0.5 else rnd.randint(0, n)


def gen_long_case(rnd):
    """(ranges, candidates): a header with 0..40 (rarely up to 130) members in which the members that decide the answer
    (an adversarial family for one target, an explicit q=0 exclusion, a designated-invalid member) sit anywhere, often at the very end."""
    n = pick_count(rnd)
    t0 = Rng(*gen_type(rnd, 0.0), gen_params_many(rnd, quoted_ok=False))
    fam = []
    for _ in range(min(n, rnd.choice([0, 1, 1, 2, 2, 3, 4]))):
        m, s = rnd.choice([(t0.main, t0.sub), (t0.main, t0.sub), (t0.main, '*'), ('*', '*'), ('*', t0.sub)])
        keep = rnd.choice([0.0, 0.5, 0.9, 1.0])
        ps = {k: v for k, v in t0.params.items() if rnd.random() < keep}
        if rnd.random() < 0.2:
            extra = rnd.choice(PNAMES_MANY)
            ps[extra] = rnd.choice(PVALS_TOKEN)        # an extraneous parameter, or a conflicting value of a shared one
        qs, qv = rnd.choice(Q_VALID + [('0', 0.0), ('0.0', 0.0)])
        fam.append(Rng(m, s, ps, q=qv, qstr=qs) if rnd.random() < 0.8 else Rng(m, s, ps))
    ranges = [gen_filler(rnd, i) if rnd.random() < 0.75 else gen_range(rnd, 0.0) for i in range(n - len(fam))]
    for f in fam:
        ranges.insert(tail_biased_pos(rnd, len(ranges)), f)
    if ranges and rnd.random() < 0.08:
        # a designated-invalid member (its position must not matter)
        k = rnd.random()
        bad = (Rng(None, None, None, bad=rnd.choice(['nonsense', 'text', 'text;charset=utf-8'])) if k < 0.5 else
               Rng(*gen_type(rnd), {}, q=None, qstr=rnd.choice(Q_INVALID)))
        ranges[min(len(ranges) - 1, tail_biased_pos(rnd, len(ranges)))] = bad
    nc = rnd.choice([1, 1, 2, 2, 3, 4]) if rnd.random() < 0.85 else pick_count(rnd, 0, 40, 0.1)
    cands = [t0] if nc else []
    while len(cands) < nc:
        k = rnd.random()
        if k < 0.35 and ranges:
            r = rnd.choice(ranges[-3:] if rnd.random() < 0.5 else ranges)     # a candidate some member names (often one of the last)
            if r.bad is None and r.main != '*' and r.sub != '*':
                cands.append(Rng(r.main, r.sub, {k2: v for k2, v in r.params.items() if rnd.random() < 0.8}))
                continue
        cands.append(Rng(*gen_type(rnd, 0.1), gen_params_many(rnd, quoted_ok=False) if rnd.random() < 0.3 else {}))
    rnd.shuffle(cands)
    return ranges, cands


import contextlib  # noqa: E402


@contextlib.contextmanager
def alarm(seconds=3.0):
    """Like runner.alarm, but on the process's own CPU time (ITIMER_VIRTUAL): a call that loops burns CPU and is caught,
    a worker that is merely descheduled on a loaded machine is not reported as a hang."""
    import signal
    from runner import Hang

    def _fire(signum, frame):
        raise Hang()
    old = signal.signal(signal.SIGVTALRM, _fire)
    signal.setitimer(signal.ITIMER_VIRTUAL, seconds)
    try:
        yield
    finally:
        signal.setitimer(signal.ITIMER_VIRTUAL, 0)
        signal.signal(signal.SIGVTALRM, old)


def observe(fn, *a):
    from falcon import errors
    from runner import Hang
    try:
        with alarm(3):
            return ('ok', fn(*a))
    except Hang:
        return ('hang',)
    except errors.InvalidMediaRange:
        return ('range',)
    except errors.InvalidMediaType:
        return ('type',)
    except Exception as e:  # noqa
        return ('other', type(e).__name__, str(e)[:80])


import re  # noqa: E402
_FLOAT = re.compile(r'^[+-]?(?:\d(?:_?\d)*(?:\.(?P<f1>\d(?:_?\d)*)?)?|\.(?P<f2>\d(?:_?\d)*))(?P<e>[eE][+-]?\d(?:_?\d)*)?$')
_WS = ' \t\n\r\x0b\x0c\x1c\x1d\x1e\x1f'


def model_safe(mt, strings):
    """Inside the fragment the Lean model of mediatypes covers: ASCII, and no q value that is a syntactically valid
    float with exponent / underscores / more than four fractional digits."""
    for s in strings:
        if not s.isascii():
            return False
        for member in s.split(','):
            try:
                q = mt.parse_header(member)[1].get('q')
            except Exception:  # noqa
                return False
            if q is None:
                continue
            m = _FLOAT.match(q.strip(_WS))
            if m and (m.group('e') or '_' in q or len((m.group('f1') or m.group('f2') or '').replace('_', '')) > 4):
                return False
    return True


def q_reply(obs):
    if obs[0] == 'ok':
        q = obs[1]
        n = round(q * 10000)
        return f'q {n}' if abs(q * 10000 - n) < 1e-6 else f'q? {q!r}'
    return {'range': 'err range', 'type': 'err type'}.get(obs[0], 'impl-' + obs[0])


def m_reply(obs):
    if obs[0] == 'ok':
        return 'm ' + hexs(obs[1])
    return {'range': 'err range', 'type': 'err type'}.get(obs[0], 'impl-' + obs[0])


# ------------------------------------------------------------------ the ARGUMENT OBJECT dimension: what holds the candidates
# best_match() is documented to take "an iterable over one or more Internet media types", client_prefers() an "iterable of str":
# the answer is a function of the ITEMS, whatever object delivers them - a re-iterable collection, a one-shot iterator
# (iter(x) is x: generator, iter(), map, filter, chain, a user-defined iterator), a mapping (its keys), the old __getitem__
# sequence protocol, or an unordered set (then: any candidate of maximal quality).

def _cand_kinds():
    import collections
    import itertools

    class IterableObject:           # re-iterable, nothing but __iter__
        def __init__(s, xs): s.xs = list(xs)
        def __iter__(s): return iter(s.xs)

    class IteratorObject:           # one-shot: iter(x) is x
        def __init__(s, xs): s.it = iter(list(xs))
        def __iter__(s): return s
        def __next__(s): return next(s.it)

    class GetItemSequence:          # the old sequence protocol: __getitem__ from 0 until IndexError
        def __init__(s, xs): s.xs = list(xs)
        def __getitem__(s, i): return s.xs[i]

    def genfn(xs):
        for x in xs:
            yield x
    ordered = {
        'tuple': tuple,
        'generator_expression': lambda xs: (x for x in xs),
        'generator_function': genfn,
        'iter': lambda xs: iter(list(xs)),
        'map': lambda xs: map(str, xs),
        'filter': lambda xs: filter(lambda x: True, xs),
        'chain': lambda xs: itertools.chain(xs[:len(xs) // 2], xs[len(xs) // 2:]),
        'reversed': lambda xs: reversed(xs[::-1]),
        'dict': dict.fromkeys,
        'dict_keys_view': lambda xs: dict.fromkeys(xs).keys(),
        'deque': collections.deque,
        'iterable_object': IterableObject,
        'iterator_object': IteratorObject,
        'getitem_sequence': GetItemSequence,
    }
    unordered = {'set': set, 'frozenset': frozenset}
    return ordered, unordered



# ------------------------------------------------------------------ first half: quality / best_match / client_accepts / client_prefers

def _negotiation(ctx):
    import falcon
    import falcon.asgi
    import falcon.testing as ft
    from falcon.util import mediatypes as mt
    rnd = ctx.rng
    sess = ctx.session('mediatypes.quality/best_match = MediaType model', 'mhdriver')

    O_Q = 'quality = q of the most specific matching range (type > subtype > exact params > #matching params > q); 0 when none matches; invalid members only raise InvalidMediaType/InvalidMediaRange'
    O_B = 'best_match = first candidate of maximal quality, never one with quality 0 / no matching range; invalid input only raises the documented value errors'
    O_R = 'client_accepts / client_prefers agree with quality / best_match on the Accept header (invalid header: False / None)'
    O_J = 'arbitrary header strings: only a float in [0,1] / a candidate or "" / InvalidMediaType / InvalidMediaRange; best_match consistent with quality'
    O_C = ('best_match / client_prefers answer by the ITEMS of the candidates argument, whatever iterable delivers them (tuple, generator, iterator, map, filter, chain, '
           'dict / keys view, deque, user-defined iterable / iterator / __getitem__ sequence: the first candidate of maximal quality; set / frozenset: a candidate of maximal quality; '
           'a str: what the list of its characters gives)')
    ORDERED, UNORDERED = _cand_kinds()
    KINDS = list(ORDERED) + list(UNORDERED) + ['str']

    def containers(header, cstrs, want_idx, top_set, req, ci):
        """The same candidates handed over in other kinds of object.  want_idx: index of the documented answer in cstrs, None (nothing acceptable) or
        'error'; top_set: the candidates of maximal quality (for the unordered kinds); req: a Request carrying the header, or None."""
        for kind in rnd.sample(KINDS, 2) if ci % 2 else [KINDS[(ci // 2) % len(KINDS)]]:
            ctx.count('candidates_as_' + kind)
            why = None
            if kind == 'str':
                # a str is an iterable of 1-character strings (the documentation asks for a collection of strings): same answer as for that list
                arg = cstrs[0] if cstrs else ''
                ref = observe(mt.best_match, list(arg), header)
                got = observe(mt.best_match, arg, header)
                if got != ref:
                    why = f'best_match({arg!r}, header) = {got}, the list of its characters gives {ref}'
                ctx.oracle(O_C, why is None, why, {'accept': header, 'candidates_object': 'str', 'candidates': arg})
                continue
            mk = ORDERED.get(kind) or UNORDERED[kind]
            got = observe(mt.best_match, mk(cstrs), header)
            if want_idx == 'error':
                ok = got[0] in ('range', 'type')
                exp = 'InvalidMediaType / InvalidMediaRange'
            elif kind in UNORDERED:
                exp = sorted(top_set) if top_set else ['']
                ok = got[0] == 'ok' and got[1] in exp
            else:
                exp = '' if want_idx is None else cstrs[want_idx]
                ok = got == ('ok', exp)
            if not ok:
                why = f'best_match(<{kind} of the candidates>, header) = {got}, the same candidates in a list give {exp!r}'
            if ok and req is not None:
                g = observe(req.client_prefers, mk(cstrs))
                if want_idx in (None, 'error'):
                    ok = g == ('ok', None)
                elif kind in UNORDERED:
                    ok = g[0] == 'ok' and g[1] in top_set
                else:
                    ok = g == ('ok', cstrs[want_idx])
                if not ok:
                    why = f'{type(req).__module__}.Request.client_prefers(<{kind} of the candidates>) = {g}, the same candidates in a list give {None if want_idx in (None, "error") else exp!r}'
            ctx.oracle(O_C, why is None, why, {'accept': header, 'candidates_object': kind, 'candidates': cstrs})

    def mkreq(accept, asgi):
        if asgi:
            return falcon.asgi.Request(ft.create_scope(headers={'Accept': accept}), None)
        return falcon.Request(ft.create_environ(headers={'Accept': accept}))

    def exact_case(ranges, cands, mode, ci, glue_p=0.5, budget=None, cont_p=0.3):
        """One structured case: the oracle answers from the AST, the code and the model get the rendered strings.
        budget: at most this many header characters are sent to the model for the case (every candidate re-parses the header there);
        the oracle always judges every candidate."""
        header = rnd.choice([',', ', ', ' ,', ' , ']).join(render(rnd, r) for r in ranges)
        cstrs = [render(rnd, c) for c in cands]
        case = {'accept': header, 'candidates': cstrs, 'ast_ranges': [r.desc() for r in ranges], 'ast_candidates': [c.desc() for c in cands],
                'members': len(ranges)}
        safe = model_safe(mt, [header] + cstrs)
        if safe:
            sess.case({'mode': mode})
        nontriv = False
        spent = 0
        # quality of every candidate
        for c, cs in zip(cands, cstrs):
            want = spec_quality(c, ranges)
            got = observe(mt.quality, cs, header)
            if want == 'error':
                ok = got[0] in ('range', 'type')
            else:
                ok = got[0] == 'ok' and isinstance(got[1], float) and abs(got[1] - want) < 1e-12
                nontriv = nontriv or (want > 0 and cs != header)
            ctx.oracle(O_Q, ok, None if ok else f'quality({cs!r}, header) = {got}, documented order gives {want}', dict(case, media_type=cs))
            if safe and (budget is None or spent <= budget):
                sess.op(f'quality {hexs(cs)} {hexs(header)}', q_reply(got))
                spent += len(header) + 1
            ctx.count('quality_' + ('error' if want == 'error' else 'zero' if want == 0 else 'positive'))
        # best match
        wantb = spec_best(cands, ranges)
        gotb = observe(mt.best_match, cstrs, header)
        if wantb == 'error':
            ok = gotb[0] in ('range', 'type')
        else:
            ok = gotb[0] == 'ok' and gotb[1] == ('' if wantb is None else cstrs[wantb])
        ctx.oracle(O_B, ok, None if ok else f'best_match = {gotb}, documented order gives {wantb if wantb in (None, "error") else cstrs[wantb]!r}', case)
        if safe and (budget is None or spent + (len(header) + 1) * len(cstrs) <= 2 * budget):
            sess.op(f'best {",".join(hexs(c) for c in cstrs) if cstrs else "none"} {hexs(header)}', m_reply(gotb))
        ctx.count('best_' + ('error' if wantb == 'error' else 'none' if wantb is None else 'found'))
        # Request glue
        if rnd.random() < glue_p:
            asgi = rnd.random() < 0.4
            req = mkreq(header, asgi)
            if req.accept == header:
                why = None
                for c, cs in zip(cands, cstrs):
                    want = spec_quality(c, ranges)
                    exp = (header == cs) or (header == '*/*') or (want != 'error' and want > 0)
                    g = observe(req.client_accepts, cs)
                    if g != ('ok', exp):
                        why = f'client_accepts({cs!r}) = {g}, expected {exp}'
                expp = None if wantb in (None, 'error') else cstrs[wantb]
                g = observe(req.client_prefers, cstrs)
                if g != ('ok', expp):
                    why = f'client_prefers = {g}, expected {expp!r}'
                ctx.oracle(O_R, why is None, why, dict(case, asgi=asgi))
                ctx.count('request_asgi' if asgi else 'request_wsgi')
        # the candidates in other kinds of object
        if rnd.random() < cont_p:
            qs_ = [spec_quality(c, ranges) for c in cands]
            top = set()
            if wantb not in (None, 'error'):
                top = {cs for cs, q in zip(cstrs, qs_) if q == qs_[wantb]}
            creq = None
            if rnd.random() < 0.3:
                creq = mkreq(header, rnd.random() < 0.5)
                if creq.accept != header:
                    creq = None
            containers(header, cstrs, wantb, top, creq, ci)
        ctx.seen(('x', header, tuple(cstrs)), nontriv)
        if ci < 3:
            ctx.sample({'accept': header if len(header) < 400 else header[:400] + '...', 'candidates': cstrs[:6], 'best': gotb})
        return header, cstrs

    def bucket(n):
        return '0' if n == 0 else '1-5' if n <= 5 else '6-15' if n <= 15 else '16-17' if n <= 17 else '18-32' if n <= 32 else '33-40' if n <= 40 else '41+'

    # ---- exact mode
    for ci in range(ctx.n(40000, 240000)):
        ranges = [gen_range(rnd) for _ in range(rnd.choice([1, 1, 2, 2, 3, 4, 5]))]
        if rnd.random() < 0.5:
            # adversarial ties: several ranges that all match one target with different specificity
            t0 = Rng(*gen_type(rnd, 0.0), gen_params(rnd, False))
            fam = []
            for _ in range(rnd.randint(2, 4)):
                m, s = rnd.choice([(t0.main, t0.sub), (t0.main, '*'), ('*', '*'), (t0.main, t0.sub), ('*', t0.sub)])
                ps = {n: v for n, v in t0.params.items() if rnd.random() < 0.6}
                if rnd.random() < 0.25:
                    ps[rnd.choice(PNAMES)] = rnd.choice(PVALS_TOKEN)
                qs, qv = rnd.choice(Q_VALID)
                fam.append(Rng(m, s, ps, q=qv, qstr=qs))
            ranges = fam + ranges[:2]
            rnd.shuffle(ranges)
            cands = [t0] + [Rng(*gen_type(rnd, 0.1), gen_params(rnd, False)) for _ in range(rnd.randint(0, 2))]
            rnd.shuffle(cands)
        else:
            cands = [Rng(*gen_type(rnd, 0.1), gen_params(rnd)) for _ in range(rnd.randint(1, 4))]
        if rnd.random() < 0.04:
            cands[rnd.randrange(len(cands))] = Rng(None, None, None, bad=rnd.choice(['text', 'json', 'nonsense;v=1']))
        exact_case(ranges, cands, 'exact', ci)

    # ---- size mode: the NUMBER of members / parameters / candidates and the length of values are dimensions of their own
    for ci in range(ctx.n(6000, 40000)):
        ranges, cands = gen_long_case(rnd)
        if cands and rnd.random() < 0.03:
            cands[rnd.randrange(len(cands))] = Rng(None, None, None, bad=rnd.choice(['text', 'json', 'nonsense;v=1']))
        header, cstrs = exact_case(ranges, cands, 'size', ci, glue_p=0.35, budget=6000)
        ctx.count('size_members_' + bucket(len(ranges)))
        ctx.count('size_candidates_' + bucket(len(cands)))
        ctx.count('size_max_params_' + bucket(max([len(r.params) for r in ranges + cands if r.bad is None] or [0])))
        ctx.count('size_header_chars_' + ('<256' if len(header) < 256 else '<1024' if len(header) < 1024 else '<4096' if len(header) < 4096 else '4096+'))

    # ---- junk mode: arbitrary strings from the alphabet of the grammar
    ATOMS = ['text', 'application', 'json', 'plain', '*', '/', '/', ';', ';', '=', ',', ',', ' ', '\t', 'q', 'Q', 'q=', 'q=0', 'q=0.5', 'q=1', '0', '.', '5', '1',
             '"', '"', '\\', 'charset', 'utf-8', 'v', 'Text', '-', '+', 'e', '_', 'nan', 'inf', '1e-1', '0.33333', 'é', 'q=١']
    for ci in range(ctx.n(16000, 100000)):
        k = rnd.random()
        if k < 0.5:
            header = ''.join(rnd.choice(ATOMS) for _ in range(rnd.randint(0, 12)))
        elif k < 0.8:
            # mostly valid header with some corruption / RFC-legal oddities the code treats specially
            nparts = rnd.randint(1, 3) if rnd.random() < 0.85 else pick_count(rnd, 0, 40, 0.03)      # also long lists: the oddity is anywhere in them
            parts = [render(rnd, gen_range(rnd, 0.0)) for _ in range(nparts)]
            ctx.count('junk_long_list' if nparts > 15 else 'junk_short_list')
            odd = rnd.choice(['', '*', 'text/plain;v="a,b"', 'text/plain;v="a\\\\"', 'text/plain;v=1;v=2', 'text/plain; q = 0.5', 'Text/Plain',
                              'text/plain;q=1e-1', 'text/plain;q=0.33333', 'text/plain;q=1_0', 'text/plain;q=" 0.5"', 'text/plain;q="0.5"', 'text / plain', 'text/plain;q=+0.5', 'text/plain;q=-0'])
            parts.insert(rnd.randint(0, len(parts)), odd)
            header = ','.join(parts)
        else:
            header = render(rnd, gen_range(rnd, 0.0))
            i = rnd.randrange(len(header) + 1)
            header = header[:i] + rnd.choice(ATOMS) + header[i:]
        cstrs = []
        for _ in range(rnd.randint(0, 3)):
            if rnd.random() < 0.75:
                cstrs.append(render(rnd, Rng(*gen_type(rnd, 0.1), gen_params(rnd))))
            else:
                cstrs.append(''.join(rnd.choice(ATOMS) for _ in range(rnd.randint(0, 5))))
        case = {'accept': header, 'candidates': cstrs}
        safe = model_safe(mt, [header] + cstrs)
        if safe:
            sess.case({'mode': 'junk'})
        why = None
        qs = []
        for cs in cstrs:
            g = observe(mt.quality, cs, header)
            qs.append(g)
            if not (g[0] in ('range', 'type') or (g[0] == 'ok' and isinstance(g[1], float) and 0.0 <= g[1] <= 1.0)):
                why = f'quality({cs!r}, header) = {g}'
            if safe:
                sess.op(f'quality {hexs(cs)} {hexs(header)}', q_reply(g))
        gb = observe(mt.best_match, cstrs, header)
        if safe:
            sess.op(f'best {",".join(hexs(c) for c in cstrs) if cstrs else "none"} {hexs(header)}', m_reply(gb))
        if gb[0] == 'ok':
            if any(q[0] != 'ok' for q in qs):
                why = why or f'best_match returned {gb[1]!r} although a quality() raised'
            elif gb[1] == '':
                if any(q[1] > 0 for q in qs):
                    why = why or 'best_match found nothing although a candidate has quality > 0'
            else:
                vals = [q[1] for q in qs]
                if gb[1] not in cstrs:
                    why = why or f'best_match returned {gb[1]!r}, not a candidate'
                else:
                    i = cstrs.index(gb[1])
                    if not (vals[i] > 0 and vals[i] == max(vals) and all(v < vals[i] for v in vals[:i])):
                        why = why or f'best_match returned {gb[1]!r} with qualities {vals}'
        elif gb[0] not in ('range', 'type'):
            why = why or f'best_match = {gb}'
        elif all(q[0] == 'ok' for q in qs):
            why = why or f'best_match raised {gb[0]} although every quality() returned'
        if rnd.random() < 0.3 and header == header.strip() and '\n' not in header and '\r' not in header and header.isascii():
            try:
                req = mkreq(header, rnd.random() < 0.4)
                acc = req.accept
            except Exception:  # noqa
                acc = None
            if acc == header:
                for cs, q in zip(cstrs, qs):
                    exp = (header == cs) or (header == '*/*') or (q[0] == 'ok' and q[1] != 0.0)
                    g = observe(req.client_accepts, cs)
                    if g != ('ok', exp):
                        why = why or f'client_accepts({cs!r}) = {g}, quality = {q}'
                g = observe(req.client_prefers, cstrs)
                exp = gb[1] if (gb[0] == 'ok' and gb[1]) else None
                if g != ('ok', exp):
                    why = why or f'client_prefers = {g}, best_match = {gb}'
        ctx.oracle(O_J, why is None, why, case)
        if why is None and rnd.random() < 0.15:
            # the same candidates in another kind of object (judged through the list answer, which O_J has just tied to the qualities)
            if gb[0] == 'ok':
                vals = [q[1] for q in qs]
                top = {c for c, v in zip(cstrs, vals) if gb[1] and v == max(vals)}
                containers(header, cstrs, cstrs.index(gb[1]) if gb[1] else None, top, None, ci)
            else:
                containers(header, cstrs, 'error', set(), None, ci)
        ctx.count('junk_' + ('modelled' if safe else 'oracle_only'))
        ctx.seen(('j', header, tuple(cstrs)), any(q[0] == 'ok' and q[1] > 0 for q in qs))
    sess.finish()


# ------------------------------------------------------------------ second half: Handlers histories

def _handlers(ctx):
    import io
    import itertools
    import falcon
    import falcon.testing as ft
    from falcon.media import Handlers, BaseHandler
    from falcon.request import RequestOptions
    from falcon.response import ResponseOptions
    from runner import Hang
    rnd = ctx.rng

    class H(BaseHandler):
        """A handler that says who it is."""
        def __init__(s, hid):
            s.hid = hid
        def deserialize(s, stream, content_type, content_length):
            return ('H', s.hid)
        def serialize(s, media, content_type):
            return b'H%d' % s.hid

    O_H = ('resolution = the handler the CURRENT mapping designates (exact key, else best match over the keys; missing or */* type -> default type) '
           'or 415 / (None, None, None); the mapping itself = the same operations on a plain dict; copy preserves it (also when empty)')
    sess = ctx.session('Handlers histories = Mh model (rule: exact key, else Mt.bestMatch)', 'mhdriver')

    # AST universe for the random histories: keys and content types
    def K(main, sub, **ps):
        return Rng(main, sub, dict(ps))
    KEYS = [K('application', 'json'), K('application', '*'), K('text', 'plain'), K('text', '*'), K('*', '*'),
            K('text', 'plain', charset='utf-8'), K('application', 'vnd.x+json'), K('image', 'png'), K('text', 'html', v='1'), K('text', 'html', v='2')]
    CTS = KEYS + [K('text', 'html'), K('application', 'json', charset='utf-8'), K('text', 'plain', charset='latin-1'), K('image', '*'),
                  K('application', 'xml'), K('text', 'html', v='1', level='2'),
                  Rng('text', 'plain', {}, q=0.0, qstr='0'), Rng('text', 'css', {}, q=0.5, qstr='0.5'), Rng(None, None, None, bad='garbage'), Rng(None, None, None, bad='')]
    rr = __import__('random').Random(0)
    KSTR = [render(rr, k, plain=True) for k in KEYS]
    CSTR = [render(rr, c, plain=True) for c in CTS]
    by_str = dict(zip(KSTR + CSTR, KEYS + CTS))
    DEFAULTS = ['application/json', 'multipart/form-data', 'application/x-www-form-urlencoded']
    for d in DEFAULTS[1:]:
        m, s = d.split('/')
        by_str[d] = Rng(m, s, {})

    def designate(shadow, ct, default):
        """Which handler id the mapping `shadow` (a plain dict str -> id) designates for content type `ct`."""
        if ct is None or ct == '' or ct == '*/*':
            ct = default
        if ct in shadow:
            return shadow[ct]
        t = by_str[ct]
        if t.bad is not None:
            return None
        # best_match(keys, ct): the content type plays the role of the header (one range), the keys are the candidates
        best, bq = None, 0.0
        for k in shadow:
            q = spec_quality(by_str[k], [t])
            if q != 'error' and q > bq:
                best, bq = k, q
        return None if best is None else shadow[best]

    ids = itertools.count(1)

    import collections
    import types

    class MyDict(dict):
        pass

    def wrap_arg(kind, d):
        """(the object handed to Handlers(...), the mutable mapping the caller keeps and may change afterwards)"""
        if kind == 'dict':
            return d, d
        if kind == 'OrderedDict':
            o = collections.OrderedDict(d); return o, o
        if kind == 'dict_subclass':
            o = MyDict(d); return o, o
        if kind == 'defaultdict':
            o = collections.defaultdict(lambda: None, d); return o, o
        if kind == 'UserDict':
            o = collections.UserDict(d); return o, o
        if kind == 'mappingproxy':
            return types.MappingProxyType(d), d          # a read-only view: the caller changes the dict behind it
        if kind == 'ChainMap':
            return collections.ChainMap(d), d
        raise ValueError(kind)
    ARG_KINDS = ['dict', 'dict', 'dict', 'OrderedDict', 'dict_subclass', 'defaultdict', 'UserDict', 'mappingproxy', 'ChainMap']


    # ---- operations that RAISE, possibly after a partial effect: the sources handed to update() / |= and calls that fail outright
    import operator
    import collections.abc as cabc
    SRC_EXC = {'RuntimeError': RuntimeError, 'KeyError': KeyError, 'ValueError': ValueError, 'LookupError': LookupError, 'OSError': OSError}

    class MapLike:
        """keys() + __getitem__ (not a Mapping): the n-th value lookup raises"""
        def __init__(s, items, p, exc):
            s.items, s.p, s.exc, s.n = list(items), p, exc, 0
            if p is not None and p >= len(s.items):
                s.items.append(('x/extra', None))
        def keys(s):
            return [k_ for k_, _ in s.items]
        def __getitem__(s, k_):
            n = s.n; s.n += 1
            if s.p is not None and n >= s.p:
                raise s.exc('value lookup fails')
            return s.items[n][1]

    class FailMapping(cabc.Mapping):
        """a real collections.abc.Mapping whose n-th value lookup raises"""
        def __init__(s, items, p, exc):
            s.m = MapLike(items, p, exc)
        def __iter__(s):
            return iter(s.m.keys())
        def __len__(s):
            return len(s.m.items)
        def __getitem__(s, k_):
            return s.m[k_]

    def bad_element(bad, x):
        return {'short': ('text/plain',), 'long': ('text/plain', x, x), 'nonseq': 5, 'none': None, 'unhashable': ([], x), 'str3': 'abc'}[bad]
    BAD_ELEMENTS = ['short', 'long', 'nonseq', 'none', 'unhashable', 'str3']

    def make_source(srckind, items, p, bad, x):
        """the argument of update() / the right operand of |=: `items` in this order; p = None: nothing fails; otherwise the failure comes after
        the first p items (p = len(items): after all of them)"""
        items = list(items)
        if srckind in ('pairs', 'iterpairs', 'tuple_pairs'):
            seq = [tuple(it) for it in items] if srckind != 'tuple_pairs' else [list(it) for it in items]
            if p is not None:
                seq.insert(p, bad_element(bad, x))
            return seq if srckind == 'pairs' else iter(seq) if srckind == 'iterpairs' else tuple(seq)
        if srckind == 'gen':
            def g():
                for j, it in enumerate(items):
                    if p is not None and j == p:
                        raise SRC_EXC[bad]('the source fails')
                    yield it
                if p is not None and p >= len(items):
                    raise SRC_EXC[bad]('the source fails')
            return g()
        if srckind == 'maplike':
            return MapLike(items, p, SRC_EXC[bad])
        if srckind == 'mapping':
            return FailMapping(items, p, SRC_EXC[bad])
        if srckind == 'userdict':
            return collections.UserDict(items)
        if srckind == 'handlers':
            return Handlers(dict(items))
        if srckind == 'dict':
            return dict(items)
        raise ValueError(srckind)
    SRC_FAILING = ['pairs', 'pairs', 'iterpairs', 'tuple_pairs', 'gen', 'gen', 'maplike', 'mapping']
    SRC_PLAIN = ['pairs', 'iterpairs', 'tuple_pairs', 'gen', 'maplike', 'mapping', 'userdict', 'handlers', 'dict']

    FAILCALLS = {
        'pop_nodefault': lambda t, k_, x: t.pop(k_),                 # KeyError when the key is missing (removes it otherwise)
        'getitem': lambda t, k_, x: t[k_],
        'update_none': lambda t, k_, x: t.update(None),
        'update_int': lambda t, k_, x: t.update(42),
        'update_two_positional': lambda t, k_, x: t.update({k_: x}, {k_: x}),
        'update_kwargs_only': lambda t, k_, x: t.update(**{k_: x}),  # succeeds
        'setdefault_unhashable': lambda t, k_, x: t.setdefault([], x),
        'set_unhashable': lambda t, k_, x: t.__setitem__([], x),
        'del_unhashable': lambda t, k_, x: t.__delitem__([]),
        'pop_noargs': lambda t, k_, x: t.pop(),
        'popitem_arg': lambda t, k_, x: t.popitem(1),
        'ior_none': lambda t, k_, x: operator.ior(t, None),
        'ior_int': lambda t, k_, x: operator.ior(t, 5),
        'ior_bad_first': lambda t, k_, x: operator.ior(t, [(k_,), (k_, x)]),
    }

    def gen_fail(rnd_):
        """a random operation of the failing family (about one in six does not fail: the same source shapes on the normal exit)"""
        r = rnd_.random()
        if r < 0.2:
            return ('failcall', rnd_.choice(sorted(FAILCALLS)), rnd_.choice(KSTR))
        entry = rnd_.choice(['update', 'update', 'ior', 'update_kw'])
        keys = tuple(rnd_.choice(KSTR) for _ in range(rnd_.randint(0, 4))) if rnd_.random() < 0.3 else tuple(rnd_.sample(KSTR, rnd_.randint(0, 4)))
        kwkeys = tuple(rnd_.sample(KSTR, rnd_.randint(1, 2))) if entry == 'update_kw' else ()
        if rnd_.random() < 0.17:
            return ('fail', entry.replace('_kw', ''), rnd_.choice(SRC_PLAIN), keys, None, None, kwkeys)
        srckind = rnd_.choice(SRC_FAILING)
        p = rnd_.randint(0, len(keys))
        if keys and rnd_.random() < 0.5:
            p = rnd_.choice([len(keys), len(keys) - 1, max(1, len(keys) - 1)])      # most of the source is stored before the failure
        bad = rnd_.choice(BAD_ELEMENTS) if srckind in ('pairs', 'iterpairs', 'tuple_pairs') else rnd_.choice(sorted(SRC_EXC))
        return ('fail', entry.replace('_kw', ''), srckind, keys, p, bad, kwkeys)


    def run_history(init, ops, finals, meta, exhaustive=False, arg_kind='dict'):
        """init: None (Handlers()) or list of keys (the first object is built from a caller-owned mapping of kind `arg_kind` holding them);
        ops: list of tuples; finals: content types resolved at the end (on every object)."""
        ARG = ARGD = None
        arg_shadow = None
        hid = {}          # id(handler object) -> (small id, object)
        reg = {}          # small id -> handler object
        objs, shadows = [], []

        def ident(h):
            if id(h) not in hid:
                n = next(ids); hid[id(h)] = (n, h); reg[n] = h
            return hid[id(h)][0]

        def mapping(i):
            return ','.join(f'{hexs(k)}:{ident(v)}' for k, v in objs[i].items()) or '-'
        sess.case(meta)
        sess.op('reset', 'ok')
        if init is None:
            h = Handlers()
            shadow = {k: ident(v) for k, v in h.items()}      # the three documented defaults
            ok0 = list(h) == DEFAULTS
            sess.op('new ' + ','.join(f'{hexs(k)}:{v}' for k, v in shadow.items()), 'ok ' + ','.join(f'{hexs(k)}:{v}' for k, v in shadow.items()))
        else:
            d = {k: H(next(ids)) for k in init}
            for v in d.values():
                hid[id(v)] = (v.hid, v); reg[v.hid] = v
            ARG, ARGD = wrap_arg(arg_kind, d)
            h = Handlers(ARG)
            arg_shadow = {k: v.hid for k, v in d.items()}
            shadow = dict(arg_shadow)
            ok0 = True
            ctx.count('handlers_built_from_' + arg_kind)
            kv = ','.join(f'{hexs(k)}:{v}' for k, v in shadow.items()) or '-'
            sess.op('new ' + kv, 'ok ' + (','.join(f'{hexs(k)}:{ident(v)}' for k, v in h.items()) or '-'))
        objs.append(h); shadows.append(shadow)
        cur = 0
        why = None if ok0 else 'Handlers() does not hold the documented defaults'
        mutated_between = False; resolved_before = False; nontriv = False
        failed_any = False

        def newh():
            x = H(next(ids)); hid[id(x)] = (x.hid, x); reg[x.hid] = x; return x

        def resolve(i, ct, default, raise_nf, via):
            nonlocal why, nontriv, resolved_before
            want = designate(shadows[i], ct, default)
            hh = objs[i]
            if via != 'direct' and not all(isinstance(v, H) for v in hh.values()):
                via = 'direct'      # the stock JSON/multipart/urlencoded handlers cannot say who they are
            try:
                with alarm(3):
                    if via == 'request':
                        opts = RequestOptions(); opts.media_handlers = hh; opts.default_media_type = default
                        hdrs = {} if ct is None else {'Content-Type': ct}
                        env = ft.create_environ(method='POST', headers=hdrs, body='{}')
                        if ct is None:
                            env.pop('CONTENT_TYPE', None)
                        req = falcon.Request(env, options=opts)
                        got = req.get_media()[1]
                    elif via == 'response':
                        opts = ResponseOptions(); opts.media_handlers = hh; opts.default_media_type = default
                        resp = falcon.Response(options=opts)
                        resp.media = {'x': 1}
                        if ct:
                            resp.content_type = ct
                        got = int(resp.render_body()[1:])
                    else:
                        r = hh._resolve(ct, default, raise_nf) if raise_nf is not None else hh._resolve(ct, default)
                        got = None if r[0] is None else ident(r[0])
                        if r[0] is not None and (r[1], r[2]) != (getattr(r[0], '_serialize_sync', None), getattr(r[0], '_deserialize_sync', None)):
                            why = why or 'resolver returned serialize/deserialize shortcuts of another handler'
                        if got is None and raise_nf in (None, True):
                            why = why or 'resolver returned (None, None, None) although raise_not_found is set'
                    rep = f'h {got}'
            except falcon.HTTPUnsupportedMediaType:
                got = None
                rep = '415'
                if via == 'direct' and raise_nf is False:
                    why = why or 'resolver raised 415 although raise_not_found=False'
            except Hang:
                got = 'hang'; rep = 'hang'
            except Exception as e:  # noqa
                got = f'{type(e).__name__}: {e}'; rep = 'exc'
            if got is None and rep != '415':
                rep = 'none'
            if got != want:
                why = why or f'resolving {ct!r} (default {default!r}, via {via}) on object {i} gave {got}, the current mapping {shadows[i]} designates {want}'
            effective_raise = '0' if (via == 'direct' and raise_nf is False) else '1'
            sess.op(f"resolve {i} {hexs(ct or '')} {hexs(default)} {effective_raise}", rep)
            eff = default if ct in (None, '', '*/*') else ct
            nontriv = nontriv or (want is not None and eff not in shadows[i]) or (mutated_between and resolved_before)
            resolved_before = True
            ctx.count('resolve_' + via)
            ctx.count('resolution_' + ('415' if want is None else 'exact' if eff in shadows[i] else 'best_match'))

        for op in ops:
            name = op[0]
            h, shadow = objs[cur], shadows[cur]
            ctx.count('op_' + name)
            try:
                if name == 'set':
                    x = newh(); h[op[1]] = x; shadow[op[1]] = x.hid
                    sess.op(f'set {cur} {hexs(op[1])} {x.hid}', 'ok ' + mapping(cur))
                elif name == 'del':
                    present = op[1] in shadow
                    try:
                        del h[op[1]]
                        rep = 'ok '
                    except KeyError:
                        rep = 'keyerr '
                    if present:
                        del shadow[op[1]]
                    if present != (rep == 'ok '):
                        why = why or f'del {op[1]!r}: KeyError expected {not present}'
                    sess.op(f'del {cur} {hexs(op[1])}', rep + mapping(cur))
                elif name == 'clear':
                    h.clear(); shadow.clear()
                    sess.op(f'clear {cur}', 'ok ' + mapping(cur))
                elif name in ('ior', 'update'):
                    d = {k: newh() for k in op[1]}
                    if name == 'ior':
                        before = h
                        h |= d
                        if h is not before:
                            why = why or '|= rebound the name to another object'
                        objs[cur] = h
                    else:
                        h.update(d)
                    shadow.update({k: v.hid for k, v in d.items()})
                    sess.op(f'{name} {cur} ' + (','.join(f'{hexs(k)}:{v.hid}' for k, v in d.items()) or '-'), 'ok ' + mapping(cur))
                elif name == 'pop':
                    sentinel = object()
                    got = h.pop(op[1], sentinel)
                    want = shadow.pop(op[1], None)
                    if (None if got is sentinel else ident(got)) != want:
                        why = why or f'pop({op[1]!r}) returned the wrong handler'
                    sess.op(f'pop {cur} {hexs(op[1])}', 'ok ' + mapping(cur))
                elif name == 'setdefault':
                    x = newh()
                    got = h.setdefault(op[1], x)
                    want = shadow.setdefault(op[1], x.hid)
                    if ident(got) != want:
                        why = why or f'setdefault({op[1]!r}) returned the wrong handler'
                    sess.op(f'setdefault {cur} {hexs(op[1])} {x.hid}', 'ok ' + mapping(cur))
                elif name == 'popitem':
                    try:
                        k, v = h.popitem()
                        if not shadow or k != next(iter(shadow)) or ident(v) != shadow[k]:
                            why = why or 'popitem() removed something that is not the first item'
                        shadow.pop(k, None)
                        rep = 'ok '
                    except KeyError:
                        rep = 'keyerr '
                        if shadow:
                            why = why or 'popitem() raised KeyError on a non-empty mapping'
                    sess.op(f'popitem {cur}', rep + mapping(cur))
                elif name == 'copy':
                    # every way the language offers to copy the object: the method, copy.copy() and copy.deepcopy()
                    how = ('method', 'copy.copy')[(len(ops) + len(objs)) % 2]       # (copy.deepcopy: see _copy_protocol, the handlers get new identities)
                    ctx.count('handlers_copied_by_' + how)
                    c = h.copy() if how == 'method' else __import__('copy').copy(h)
                    if type(c) is not type(h) or c is h:
                        why = why or 'copy() did not create a new Handlers object'
                    if how == 'copy.deepcopy':
                        # a deep copy holds copies of the handlers: same keys in the same order, same handler classes, new identities
                        if list(c.data) != list(shadow) or any(type(c.data[k_]) is not type(h.data[k_]) for k_ in shadow):
                            why = why or f'deepcopy changed the keys or handler classes: {list(c.data)} vs {list(shadow)}'
                        objs.append(c); shadows.append({k_: ident(c.data[k_]) for k_ in c.data})
                    else:
                        objs.append(c); shadows.append(dict(shadow))
                    if how == 'copy.deepcopy':      # to the model a deep copy is a new object built from (copies of) the items
                        sess.op('new ' + mapping(len(objs) - 1), 'ok ' + mapping(len(objs) - 1))
                    else:
                        sess.op(f'copy {cur}', 'ok ' + mapping(len(objs) - 1))
                    if op[1]:
                        cur = len(objs) - 1     # continue the history on the copy; the original is re-checked at the end
                elif name == 'fromarg':
                    # a SECOND (third ...) Handlers object built from the same caller-owned argument, as it is now
                    if ARG is None:
                        continue
                    c = Handlers(ARG)
                    objs.append(c); shadows.append(dict(arg_shadow))
                    sess.op('new ' + (','.join(f'{hexs(k_)}:{v_}' for k_, v_ in arg_shadow.items()) or '-'), 'ok ' + mapping(len(objs) - 1))
                    if op[1]:
                        cur = len(objs) - 1
                elif name == 'fromobj':
                    # Handlers(another Handlers object)
                    src = op[1] % len(objs)
                    c = Handlers(objs[src])
                    objs.append(c); shadows.append(dict(shadows[src]))
                    sess.op('new ' + (','.join(f'{hexs(k_)}:{v_}' for k_, v_ in shadows[src].items()) or '-'), 'ok ' + mapping(len(objs) - 1))
                    if op[2]:
                        cur = len(objs) - 1
                elif name in ('argset', 'argdel', 'argpop', 'argclear', 'argupdate'):
                    # the CALLER changes the mapping it once gave to Handlers(...): none of the objects built from it is concerned
                    if ARG is None:
                        continue
                    if name == 'argset':
                        x = newh(); ARGD[op[1]] = x; arg_shadow[op[1]] = x.hid
                    elif name == 'argdel':
                        if op[1] in arg_shadow:
                            del ARGD[op[1]]; del arg_shadow[op[1]]
                    elif name == 'argpop':
                        ARGD.pop(op[1], None); arg_shadow.pop(op[1], None)
                    elif name == 'argclear':
                        ARGD.clear(); arg_shadow.clear()
                    else:
                        d2 = {k_: newh() for k_ in op[1]}
                        ARGD.update(d2); arg_shadow.update({k_: v_.hid for k_, v_ in d2.items()})
                elif name in ('fail', 'failcall'):
                    # an operation that (usually) RAISES, possibly after a partial effect. The reference is the same call on a plain dict holding the
                    # same objects; the oracle of the later resolutions is the mapping AS IT IS after the call (observed), whatever the failure left
                    x = newh()
                    if name == 'fail':
                        _, entry, srckind, keys_, p_, bad_, kwkeys = op
                        vals = [newh() for _ in keys_]
                        kwvals = {k_: newh() for k_ in kwkeys}
                        def apply(t):
                            src = make_source(srckind, zip(keys_, vals), p_, bad_, x)
                            if entry == 'ior':
                                t |= src
                                return t
                            t.update(src, **kwvals)
                            return t
                        ctx.count(f'failing_op_{entry}_{srckind}' + ('_kwargs' if kwkeys else '') + ('_normal_exit' if p_ is None else ''))
                        if p_ is not None:
                            ctx.count('failing_op_stored_before_failure_' + ('0' if p_ == 0 else '1' if p_ == 1 else '2+'))
                    else:
                        entry = op[1]
                        def apply(t):
                            r_ = FAILCALLS[op[1]](t, op[2], x)
                            return r_ if op[1].startswith('ior') else t
                        ctx.count('failing_call_' + op[1])
                    ref = {k_: reg[v_] for k_, v_ in shadow.items()}
                    before = dict(shadow)
                    ref_exc = exc = None
                    try:
                        with alarm(3):
                            ref = apply(ref)
                    except Hang:
                        raise
                    except Exception as e:  # noqa
                        ref_exc = type(e).__name__
                    try:
                        with alarm(3):
                            h2 = apply(h)
                        if h2 is not h:
                            why = why or f'{entry} rebound the name to another object'
                    except Hang:
                        raise
                    except Exception as e:  # noqa
                        exc = type(e).__name__
                    observed = [(k_, ident(v_)) for k_, v_ in h.items()]
                    expected = [(k_, ident(v_)) for k_, v_ in ref.items()]
                    if (exc is None) != (ref_exc is None):
                        why = why or f'{name} {op[1:]!r}: raised {exc}, the same call on a plain dict raised {ref_exc}'
                    if observed != expected:
                        why = why or f'after the {"failed " if exc else ""}{name} {op[1:]!r} the object holds {observed}, the same call on a plain dict leaves {expected}'
                    shadow.clear(); shadow.update(observed)
                    stored = [(k_, v_) for k_, v_ in observed if before.get(k_) != v_]
                    removed = [k_ for k_ in before if k_ not in shadow]
                    if exc is not None:
                        failed_any = True
                        ctx.count('failed_op_' + ('left_a_partial_effect' if stored or removed else 'left_the_mapping_unchanged'))
                    kv_ = ','.join(f'{hexs(k_)}:{v_}' for k_, v_ in stored) or '-'
                    if removed and not stored and len(removed) == 1:
                        sess.op(f'pop {cur} {hexs(removed[0])}', 'ok ' + mapping(cur))
                    elif removed:
                        sess.op(f'clear {cur}', 'ok -')
                        sess.op(f'update {cur} ' + (','.join(f'{hexs(k_)}:{v_}' for k_, v_ in observed) or '-'), 'ok ' + mapping(cur))
                    elif exc is not None:
                        # the items that were actually stored, then the invalidation the code performs on this exit: update() stores through
                        # __setitem__ (one invalidation per stored item); `|=` stores into the dict and invalidates in its finally clause
                        sess.op(f"{'fior' if entry.startswith('ior') else 'fupdate'} {cur} {kv_}", 'raised ' + mapping(cur))
                    else:
                        sess.op(f"{'ior' if entry.startswith('ior') else 'update'} {cur} {kv_}", 'ok ' + mapping(cur))
                elif name == 'switch':
                    cur = op[1] % len(objs)
                    continue
                elif name == 'flood':
                    # more distinct resolutions than the LRU holds (64): evicts older memo entries
                    for j in range(70):
                        ct = f'text/x{j}'
                        by_str.setdefault(ct, Rng('text', f'x{j}', {}))
                        resolve(cur, ct, op[1], None, 'direct')
                    continue
                elif name == 'resolve':
                    resolve(cur, op[1], op[2], op[3], op[4])
                    continue
            except Hang:
                why = why or f'{name} did not return'
            except Exception as e:  # noqa
                why = why or f'{name} raised {type(e).__name__}: {e}'
            mutated_between = mutated_between or resolved_before
            for i in range(len(objs)):
                if list(objs[i].items()) != [(k, reg.get(v)) for k, v in shadows[i].items()]:
                    why = why or f'after {name} object {i} holds {[(k, ident(v)) for k, v in objs[i].items()]}, the same operations on a dict give {shadows[i]}'
            if ARG is not None and [(k, ident(v)) for k, v in ARGD.items()] != list(arg_shadow.items()):
                why = why or (f'after {name} the mapping the caller passed to Handlers(...) holds {[(k, ident(v)) for k, v in ARGD.items()]}, '
                              f'the caller left it as {arg_shadow} (operations on a Handlers object changed the argument it was built from)')
            if why:
                break
        if why is None:
            for i in range(len(objs)):
                for ct in finals:
                    resolve(i, ct, 'application/json', None, 'direct')
        if failed_any:
            ctx.count('history_with_a_failed_operation')
        ctx.oracle(O_H, why is None, why, {'initial': 'Handlers()' if init is None else f'Handlers(<{arg_kind} with the keys {list(init)}>)',
                                           'ops': [list(map(_plain, o)) for o in ops], 'final_resolutions (on every object)': list(finals)})
        ctx.seen(('h', str(init), str(ops)), nontriv)

    # ---- exhaustive small histories over a 3-type universe
    U = ['application/json', 'text/plain', 'text/*']
    for u in U + ['text/html']:
        m, s = u.split('/')
        by_str[u] = Rng(m, s, {})
    ALPHA = ([('set', k) for k in U] + [('del', k) for k in U] + [('ior', (k,)) for k in U] +
             [('pop', 'text/plain'), ('setdefault', 'text/plain'), ('update', ('text/plain', 'application/json')), ('clear',), ('copy', True), ('popitem',)] +
             [('fromarg', True), ('argset', 'text/plain')] +
             [('fail', 'update', 'pairs', ('text/plain', 'application/json'), 1, 'short', ()), ('fail', 'ior', 'gen', ('text/plain', 'application/json'), 1, 'RuntimeError', ())] +
             [('resolve', ct, 'application/json', None, 'direct') for ct in ('application/json', 'text/plain', 'text/html', None)])
    maxlen = 3 if ctx.quick else 4
    allh = []
    for L in range(0, maxlen + 1):
        allh.extend(itertools.product(ALPHA, repeat=L))
    i0, k0 = ctx.shard
    for idx, ops in enumerate(allh):
        if idx % k0 != i0:
            continue
        for init in (None, [], ['text/*']):
            run_history(init, list(ops), ['application/json', 'text/plain', 'text/html', None], {'mode': 'exhaustive'})
            ctx.count('history_exhaustive')

    # ---- random histories, length <= 10
    for ci in range(ctx.n(16000, 100000)):
        k = rnd.random()
        init = None if k < 0.25 else rnd.sample(KSTR, rnd.randint(0, 4))
        # a quarter of the histories that start from a caller-owned mapping are about CONSTRUCTION: more objects built from the same argument /
        # from each other, the caller changing its mapping afterwards, the history moving between the objects
        constr = init is not None and rnd.random() < 0.33
        arg_kind = rnd.choice(ARG_KINDS)
        failing = rnd.random() < 0.3       # histories with operations that raise (after a partial effect) among the others
        ops = []
        for _ in range(rnd.randint(1, 10)):
            r = rnd.random()
            if constr and r < 0.45:
                r2 = rnd.random()
                if r2 < 0.28:
                    ops.append(('fromarg', rnd.random() < 0.6))
                elif r2 < 0.38:
                    ops.append(('fromobj', rnd.randint(0, 3), rnd.random() < 0.6))
                elif r2 < 0.52:
                    ops.append(('argset', rnd.choice(KSTR)))
                elif r2 < 0.58:
                    ops.append(('argdel', rnd.choice(KSTR)))
                elif r2 < 0.63:
                    ops.append(('argpop', rnd.choice(KSTR)))
                elif r2 < 0.66:
                    ops.append(('argclear',))
                elif r2 < 0.72:
                    ops.append(('argupdate', tuple(rnd.sample(KSTR, rnd.randint(0, 3)))))
                else:
                    ops.append(('switch', rnd.randint(0, 3)))
                continue
            if failing and r > 0.62:
                ops.append(gen_fail(rnd))
                continue
            if r < 0.36:
                ct = rnd.choice(CSTR + KSTR + [None, '*/*'])
                via = rnd.choice(['direct', 'direct', 'direct', 'direct', 'request', 'response'])
                rf = rnd.choice([None, True, False]) if via == 'direct' else None
                if via == 'response' and ct in ('', None):
                    ct = None
                ops.append(('resolve', ct, rnd.choice(['application/json', 'application/json', 'text/plain', 'text/html']), rf, via))
            elif r < 0.48:
                ops.append(('set', rnd.choice(KSTR)))
            elif r < 0.58:
                ops.append(('del', rnd.choice(KSTR)))
            elif r < 0.68:
                ops.append(('ior', tuple(rnd.sample(KSTR, rnd.randint(0, 3)))))
            elif r < 0.75:
                ops.append(('update', tuple(rnd.sample(KSTR, rnd.randint(0, 3)))))
            elif r < 0.82:
                ops.append(('pop', rnd.choice(KSTR)))
            elif r < 0.87:
                ops.append(('setdefault', rnd.choice(KSTR)))
            elif r < 0.90:
                ops.append(('popitem',))
            elif r < 0.93:
                ops.append(('clear',))
            elif r < 0.97:
                ops.append(('copy', rnd.random() < 0.6))
            elif r < 0.99:
                ops.append(('switch', rnd.randint(0, 3)))
            else:
                ops.append(('flood', 'application/json'))
        finals = rnd.sample(CSTR + KSTR, 3) + [None]
        run_history(init, ops, finals, {'mode': 'random'}, arg_kind=arg_kind)
        ctx.count('history_random_construction' if constr else 'history_random')
        if ci < 2:
            ctx.sample({'initial': init, 'ops': [list(map(_plain, o)) for o in ops]})
    sess.finish()


# ------------------------------------------------------------------ third part: histories on ONE request / response object

def make_universe():
    """keys / content types of the object histories as generated structures, and the rule of the property statement on a plain dict"""
    def K(main, sub, **ps):
        return Rng(main, sub, dict(ps))
    KEYS = [K('application', 'json'), K('application', '*'), K('text', 'plain'), K('text', '*'), K('*', '*'),
            K('text', 'plain', charset='utf-8'), K('application', 'vnd.x+json'), K('image', 'png'), K('text', 'html', v='1'), K('text', 'html', v='2')]
    CTS = KEYS + [K('text', 'html'), K('application', 'json', charset='utf-8'), K('text', 'plain', charset='latin-1'), K('image', '*'),
                  K('application', 'xml'), K('text', 'html', v='1', level='2'),
                  Rng('text', 'plain', {}, q=0.0, qstr='0'), Rng('text', 'css', {}, q=0.5, qstr='0.5'), Rng(None, None, None, bad='garbage')]
    rr = __import__('random').Random(0)
    KSTR = [render(rr, k, plain=True) for k in KEYS]
    CSTR = [render(rr, c, plain=True) for c in CTS]
    by_str = dict(zip(KSTR + CSTR, KEYS + CTS))

    def designate(shadow, ct, default):
        """Which handler id the mapping `shadow` (a plain dict str -> id) designates for content type `ct`: the statement's rule."""
        if ct is None or ct == '' or ct == '*/*':
            ct = default
        if ct in shadow:
            return shadow[ct]
        t = by_str[ct]
        if t.bad is not None:
            return None
        best, bq = None, 0.0
        for k in shadow:
            q = spec_quality(by_str[k], [t])
            if q != 'error' and q > bq:
                best, bq = k, q
        return None if best is None else shadow[best]
    return KSTR, CSTR, by_str, designate


def _requests(ctx):
    """Request.get_media() / .media (WSGI and ASGI) and Response.render_body() called SEVERAL times on one object while the handler
    mapping, the Handlers object, the default media type and the content type change in between."""
    import asyncio
    import itertools
    import falcon
    import falcon.asgi
    import falcon.testing as ft
    from falcon import errors
    from falcon.media import Handlers, BaseHandler
    from falcon.request import RequestOptions
    from falcon.response import ResponseOptions
    from runner import Hang
    rnd = ctx.rng
    KSTR, CSTR, by_str, designate = make_universe()
    for u in ('text/x-new', 'application/x-new'):
        m, s_ = u.split('/')
        by_str[u] = Rng(m, s_, {})

    LOG = []          # (handler id, content type it was called with), in call order

    class Media:
        """what a handler deserializes: it says which handler made it"""
        def __init__(s, hid):
            s.hid = hid

    class NotFound(errors.MediaNotFoundError):
        def __init__(s, hid):
            super().__init__('H')
            s.hid = hid

    class Broken(Exception):
        def __init__(s, hid):
            super().__init__(f'H{hid}')
            s.hid = hid

    class RH(BaseHandler):
        """A handler that says who it is and records that it was called."""
        def __init__(s, hid, mode):
            s.hid, s.mode = hid, mode
        def deserialize(s, stream, content_type, content_length):
            LOG.append((s.hid, content_type))
            if s.mode == 'notfound':
                raise NotFound(s.hid)
            if s.mode == 'fails':
                raise Broken(s.hid)
            return Media(s.hid)
        def serialize(s, media, content_type):
            LOG.append((s.hid, content_type))
            if s.mode != 'ok':
                raise Broken(s.hid)
            return b'H%d' % s.hid

    O_RQ = ('one request object, several get_media() / media calls: a call that has nothing deserialized to return (no media object and no handler error from an earlier call) '
            'invokes exactly the handler that the CURRENT mapping / Handlers object / default type / content type designate, or raises 415 and remembers nothing; '
            'a deserialized object (or the error the designated handler raised) is what later calls return')
    O_RS = ('one response object, several render_body() calls: unless the rendering of the current resp.media is already there, the handler that the CURRENT mapping / '
            'Handlers object / default type / content type designate serializes it, or 415 is raised and nothing is remembered')
    sess = ctx.session('Request.get_media histories on one request = Rq model (per-request cache in front of Mh)', 'mhdriver')
    SENT = object()
    loop = asyncio.new_event_loop()
    ids = itertools.count(1)

    def run_async(coro):
        return loop.run_until_complete(asyncio.wait_for(coro, 20))

    def run_history(stack, init, ct0, default0, ops, meta):
        """stack: 'wsgi' | 'asgi' | 'resp' | 'aresp'.  init: [(key, mode)]."""
        is_resp = stack in ('resp', 'aresp')
        is_async = stack in ('asgi', 'aresp')
        modes = {}

        def op(line, reply):
            if not is_resp:
                sess.op(line, reply)

        def newh(mode):
            x = RH(next(ids), mode)
            modes[x.hid] = mode
            op(f'beh {x.hid} {mode}', 'ok')
            return x

        def kvs(d):
            return ','.join(f'{hexs(k)}:{v.hid}' for k, v in d.items()) or '-'

        if not is_resp:
            sess.case(dict(meta, stack=stack))
        op('reset', 'ok')
        objs, shadows = [], []

        def new_handlers(items):
            d = {k: newh(m) for k, m in items}
            h = Handlers(d)
            objs.append(h)
            shadows.append({k: v.hid for k, v in d.items()})
            op('new ' + kvs(d), 'ok ' + kvs(h))
            return len(objs) - 1

        cur = new_handlers(init)
        default = default0
        ct = ct0
        del LOG[:]
        if is_resp:
            opts = ResponseOptions()
            opts.media_handlers = objs[cur]
            opts.default_media_type = default
            obj = (falcon.asgi.Response if is_async else falcon.Response)(options=opts)
            if ct is not None:
                obj.content_type = ct
            have_media = False
        else:
            opts = RequestOptions()
            opts.media_handlers = objs[cur]
            opts.default_media_type = default
            hdrs = {} if ct is None else {'Content-Type': ct}
            if is_async:
                obj = ft.create_asgi_req(options=opts, method='POST', headers=hdrs, body=b'{}')
            else:
                env = ft.create_environ(method='POST', headers=hdrs, body='{}')
                if ct is None:
                    env.pop('CONTENT_TYPE', None)
                obj = falcon.Request(env, options=opts)
            if obj.content_type != ct:
                obj.content_type = ct
            op(f"rnew {cur} {hexs(ct or '')} {hexs(default)}", 'ok')
        why = None
        cached = None               # None | ('v', object) | ('e', hid, is_not_found)
        gets = 0
        fresh_after_change = False  # a call that had to resolve after something changed since an earlier call
        changed = False

        def call(kind):
            nonlocal why, cached, gets, fresh_after_change, changed, have_media
            before = len(LOG)
            # the content type the object shows right before the call (a response adopts the default type as its content type when it renders)
            ct_now = obj.content_type if is_resp else ct
            eff_ct = obj.content_type
            try:
                with alarm(3):
                    if is_resp:
                        got = run_async(obj.render_body()) if is_async else obj.render_body()
                    elif kind == 'prop':
                        got = run_async(obj.media) if is_async else obj.media
                    elif kind == 'dwe':
                        got = run_async(obj.get_media(default_when_empty=SENT)) if is_async else obj.get_media(default_when_empty=SENT)
                    else:
                        got = run_async(obj.get_media()) if is_async else obj.get_media()
                if got is SENT:
                    out = ('dflt',)
                elif isinstance(got, Media):
                    out = ('v', got.hid, got)
                elif is_resp and isinstance(got, bytes) and got[:1] == b'H':
                    out = ('v', int(got[1:]), got)
                elif is_resp and got is None:
                    out = ('nothing',)
                else:
                    out = ('other', repr(got)[:60])
            except falcon.HTTPUnsupportedMediaType:
                out = ('415',)
            except (NotFound, Broken) as e:
                out = ('raised', e.hid, isinstance(e, NotFound))
            except (Hang, asyncio.TimeoutError):
                out = ('hang',)
            except Exception as e:  # noqa
                out = ('exc', type(e).__name__, str(e)[:80])
            called = LOG[before:]
            # ---- the oracle: a direct reading of the statement + the documented caching of what a handler produced
            if is_resp and not have_media:
                want_out, want_calls = ('nothing',), []
            elif cached is not None and cached[0] == 'v':
                want_out, want_calls = ('v', cached[1].hid if not is_resp else int(cached[1][1:]), cached[1]), []
            elif cached is not None:
                want_out = ('dflt',) if (kind == 'dwe' and cached[2]) else ('raised', cached[1], cached[2])
                want_calls = []
            else:
                want = designate(shadows[cur], ct_now, default)
                if gets and changed:
                    fresh_after_change = True
                if want is None:
                    want_out, want_calls = ('415',), []
                else:
                    want_calls = [(want, ct if not is_resp else (ct_now or default))]
                    mode = modes[want]
                    if mode == 'ok':
                        want_out = ('v', want, None)
                    elif is_resp:
                        want_out = ('raised', want, False)
                    elif mode == 'notfound':
                        want_out = ('dflt',) if kind == 'dwe' else ('raised', want, True)
                    else:
                        want_out = ('raised', want, False)
                    # what the handler produced is what the object may remember
                    if mode == 'ok':
                        cached = ('v', out[2]) if out[0] == 'v' else cached
                    elif not is_resp:
                        cached = ('e', want, mode == 'notfound')
            ok = out[:2] == want_out[:2] if out[0] == 'v' else out == want_out
            if ok and out[0] == 'v' and want_out[2] is not None and out[2] is not want_out[2] and not is_resp:
                ok = False
            if ok and is_resp and out[0] == 'v' and want_out[2] is not None and out[2] != want_out[2]:
                ok = False
            if ok and called != want_calls:
                ok = False
            if not ok:
                why = why or (f'call #{gets + 1} ({kind}) with content type {ct_now!r}, default {default!r}, current mapping {shadows[cur]} '
                              f'(handler modes {dict((h, modes[h]) for h in shadows[cur].values())}), remembered {None if cached is None else cached[:1] + tuple(cached[2:]) if cached[0] == "e" else "a deserialized object"}: '
                              f'got {out[:2] if out[0] == "v" else out} with handler calls {called}, expected {want_out[:2] if want_out[0] == "v" else want_out} with handler calls {want_calls}')
            if not is_resp:
                if eff_ct != ct:
                    why = why or f'req.content_type is {eff_ct!r}, was set to {ct!r}'
                rep = {'v': lambda: f'v {out[1]}', '415': lambda: '415', 'raised': lambda: f'raised {out[1]}', 'dflt': lambda: 'dflt'}.get(out[0], lambda: 'impl-' + out[0])()
                op(f"rget {'1' if kind == 'dwe' else '0'}", rep)
            gets += 1
            changed = False
            ctx.count(f'{stack}_call_' + (out[0] if out[0] in ('v', '415', 'raised', 'dflt', 'nothing') else 'other'))

        for o in ops:
            name = o[0]
            h, shadow = objs[cur], shadows[cur]
            ctx.count('objop_' + name)
            try:
                if name == 'get':
                    call(o[1])
                    if why:
                        break
                    continue
                elif name == 'media':        # response only: resp.media = <new object>
                    obj.media = {'n': next(ids)}
                    have_media = True
                    cached = None
                elif name == 'set':
                    x = newh(o[2]); h[o[1]] = x; shadow[o[1]] = x.hid
                    op(f'set {cur} {hexs(o[1])} {x.hid}', 'ok ' + kvs(h))
                elif name == 'del':
                    if o[1] in shadow:
                        del h[o[1]]; del shadow[o[1]]
                        op(f'del {cur} {hexs(o[1])}', 'ok ' + kvs(h))
                elif name == 'pop':
                    h.pop(o[1], None); shadow.pop(o[1], None)
                    op(f'pop {cur} {hexs(o[1])}', 'ok ' + kvs(h))
                elif name == 'clear':
                    h.clear(); shadow.clear()
                    op(f'clear {cur}', 'ok ' + kvs(h))
                elif name in ('update', 'ior'):
                    d = {k: newh(m) for k, m in o[1]}
                    if name == 'ior':
                        # `options.media_handlers |= {...}` (the augmented assignment on the attribute)
                        opts.media_handlers |= d
                        if opts.media_handlers is not h:
                            why = why or '|= rebound options.media_handlers to another object'
                    else:
                        h.update(d)
                    shadow.update({k: v.hid for k, v in d.items()})
                    op(f'{name} {cur} ' + kvs(d), 'ok ' + kvs(h))
                elif name == 'setdefault':
                    x = newh(o[2]); h.setdefault(o[1], x); shadow.setdefault(o[1], x.hid)
                    op(f'setdefault {cur} {hexs(o[1])} {x.hid}', 'ok ' + kvs(h))
                elif name == 'replace':      # options.media_handlers = Handlers({...})
                    cur = new_handlers(o[1])
                    opts.media_handlers = objs[cur]
                    op(f'rset handlers {cur}', 'ok')
                elif name == 'replace_copy':  # options.media_handlers = a copy of options.media_handlers (method / copy.copy / copy.deepcopy)
                    how = ('method', 'copy.copy')[len(objs) % 2]            # (deep copies: in the Handlers histories above)
                    ctx.count('handlers_replaced_by_copy_via_' + how)
                    c = h.copy() if how == 'method' else __import__('copy').copy(h)
                    objs.append(c); shadows.append(dict(shadow))
                    op(f'copy {cur}', 'ok ' + kvs(c))
                    cur = len(objs) - 1
                    opts.media_handlers = c
                    op(f'rset handlers {cur}', 'ok')
                elif name == 'options':      # a whole new options object on the same request / response
                    cur = new_handlers(o[1])
                    default = o[2]
                    opts = ResponseOptions() if is_resp else RequestOptions()
                    opts.media_handlers = objs[cur]
                    opts.default_media_type = default
                    obj.options = opts
                    op(f'rset handlers {cur}', 'ok')
                    op(f'rset default {hexs(default)}', 'ok')
                elif name == 'default':
                    default = o[1]
                    opts.default_media_type = default
                    op(f'rset default {hexs(default)}', 'ok')
                elif name == 'ct':
                    ct = o[1]
                    obj.content_type = ct
                    op(f"rset ct {hexs(ct or '')}", 'ok')
                elif name == 'direct':       # somebody else resolves on the same Handlers object (warms its memo)
                    want = designate(shadow, o[1], default)
                    try:
                        r = h._resolve(o[1], default, False)
                        got = None if r[0] is None else r[0].hid
                    except Exception as e:  # noqa
                        got = f'{type(e).__name__}'
                    if got != want:
                        why = why or f'direct resolution of {o[1]!r} gave {got}, the current mapping {shadow} designates {want}'
                    op(f"resolve {cur} {hexs(o[1] or '')} {hexs(default)} 0", 'none' if got is None else f'h {got}')
                    continue
            except Hang:
                why = why or f'{name} did not return'
            except Exception as e:  # noqa
                why = why or f'{name} raised {type(e).__name__}: {e}'
            changed = True
            if why:
                break
        case = {'stack': {'wsgi': 'falcon.Request', 'asgi': 'falcon.asgi.Request', 'resp': 'falcon.Response', 'aresp': 'falcon.asgi.Response'}[stack],
                'initial_mapping': [list(i) for i in init], 'content_type': ct0, 'default_media_type': default0, 'ops': [list(map(_plain, o)) for o in ops]}
        ctx.oracle(O_RS if is_resp else O_RQ, why is None, why, case)
        ctx.seen((stack, str(init), ct0, default0, str(ops)), fresh_after_change)
        return case

    # ---- exhaustive small histories: every sequence over the alphabet that contains a call, on both request stacks
    A = [('get', 'call'), ('get', 'dwe'), ('set', 'text/plain', 'ok'), ('set', 'text/*', 'ok'), ('set', 'application/json', 'ok'), ('del', 'text/plain'), ('del', 'text/*'),
         ('ior', (('text/plain', 'ok'),)), ('update', (('text/*', 'ok'),)), ('clear',), ('replace', (('text/plain', 'ok'),)), ('default', 'text/plain'),
         ('ct', None), ('ct', 'text/plain'), ('direct', 'text/plain')]
    maxlen = 3 if ctx.quick else 4
    allh = []
    for L in range(1, maxlen + 1):
        allh.extend(h for h in itertools.product(A, repeat=L) if any(o[0] == 'get' for o in h))
    i0, k0 = ctx.shard
    n = 0
    for idx, ops in enumerate(allh):
        if idx % k0 != i0:
            continue
        for init in ((), (('application/json', 'ok'),)):
            for ct0 in ('text/plain', None):
                for stack in ('wsgi', 'asgi'):
                    run_history(stack, init, ct0, 'application/json', list(ops), {'mode': 'exhaustive'})
                    ctx.count('objhistory_exhaustive_' + stack)

    # ---- random histories, 2..10 operations, all four kinds of object
    MODES = ['ok'] * 6 + ['notfound', 'fails']
    DEFAULTS = ['application/json', 'application/json', 'text/plain', 'text/html', 'text/x-new']

    def related(ct):
        """keys that would make `ct` resolvable: the type itself and the ranges above it"""
        t = by_str.get(ct)
        if t is None or t.bad is not None:
            return list(KSTR)
        out = [k for k in KSTR if spec_quality(by_str[k], [t]) not in ('error', 0.0)]
        return out or list(KSTR)

    for ci in range(ctx.n(6000, 40000)):
        stack = rnd.choice(['wsgi', 'wsgi', 'asgi', 'asgi', 'resp', 'aresp'])
        is_resp = stack in ('resp', 'aresp')
        ct0 = rnd.choice(CSTR + KSTR + [None, None, '*/*', 'text/x-new', 'application/x-new'])
        if is_resp and ct0 == '':
            ct0 = None
        default0 = rnd.choice(DEFAULTS)
        pool = related(ct0 if ct0 not in (None, '*/*') else default0)
        keyp = lambda: rnd.choice(pool) if rnd.random() < 0.6 else rnd.choice(KSTR)   # noqa: E731
        # half of the histories start from a mapping that cannot resolve the request (the first call is then a 415)
        init = [(k, rnd.choice(MODES)) for k in rnd.sample(KSTR, rnd.randint(0, 3))]
        if rnd.random() < 0.5:
            sh = {}
            for k, m in init:
                sh[k] = 1
                if designate(sh, ct0, default0) is not None:
                    del sh[k]
            init = [(k, m) for k, m in init if k in sh]
        ops = [('media',)] if is_resp else []
        for _ in range(rnd.randint(2, 10)):
            r = rnd.random()
            if r < 0.38:
                ops.append(('get', 'call' if is_resp else rnd.choice(['call', 'call', 'prop', 'dwe'])))
            elif r < 0.50:
                ops.append(('set', keyp(), rnd.choice(MODES)))
            elif r < 0.56:
                ops.append(('del', keyp()))
            elif r < 0.62:
                ops.append(('update', tuple((k, rnd.choice(MODES)) for k in {keyp() for _ in range(rnd.randint(0, 3))})))
            elif r < 0.68:
                ops.append(('ior', tuple((k, rnd.choice(MODES)) for k in {keyp() for _ in range(rnd.randint(0, 3))})))
            elif r < 0.71:
                ops.append(('pop', keyp()))
            elif r < 0.73:
                ops.append(('clear',))
            elif r < 0.76:
                ops.append(('setdefault', keyp(), rnd.choice(MODES)))
            elif r < 0.82:
                ops.append(('replace', tuple((k, rnd.choice(MODES)) for k in {keyp() for _ in range(rnd.randint(0, 3))})))
            elif r < 0.84:
                ops.append(('replace_copy',))
            elif r < 0.87:
                ops.append(('options', tuple((k, rnd.choice(MODES)) for k in {keyp() for _ in range(rnd.randint(0, 2))}), rnd.choice(DEFAULTS)))
            elif r < 0.91:
                ops.append(('default', rnd.choice(DEFAULTS)))
            elif r < 0.95:
                ops.append(('ct', rnd.choice(CSTR + KSTR + [None, '*/*', 'text/x-new'])))
            elif r < 0.98:
                ops.append(('direct', rnd.choice([ct0, ct0, None, 'text/plain'])))
            elif is_resp:
                ops.append(('media',))
        case = run_history(stack, tuple(init), ct0, default0, ops, {'mode': 'random'})
        ctx.count('objhistory_random_' + stack)
        if ci < 2:
            ctx.sample(case)
    loop.close()
    sess.finish()


# ------------------------------------------------------------------ fourth part: every CONSUMER of a handler mapping inside falcon

def _consumers(ctx):
    """Every place in falcon that looks a handler up in a media Handlers mapping must resolve through the SAME matching rule:
    Request.get_media / .media (WSGI, ASGI), Response.render_body (WSGI, ASGI), the response rendering inlined in falcon.asgi.App,
    the response rendering of falcon.App, Request.get_param_as_json (application/json), the default error serializer (the type the
    client prefers), server-sent events with a json payload (application/json), multipart body parts (MultipartParseOptions.media_handlers,
    default text/plain).  The mapping is changed between the requests (item assignment, del, update, |=, pop, clear, setdefault), and the
    handler in charge is registered under NON-CANONICAL keys - other letter case of type/subtype, parameters, wildcards - with the
    canonical spelling absent or present.  (WebSocket media is not a consumer: ws_options.media_handlers is a plain dict keyed by the
    payload type, there is no media type to match.)"""
    import asyncio
    import io
    import itertools
    import json
    import falcon
    import falcon.asgi
    import falcon.testing as ft
    from falcon import media
    from falcon.media import Handlers, BaseHandler
    from falcon.request import RequestOptions
    from falcon.response import ResponseOptions
    from runner import Hang
    rnd = ctx.rng
    name = ('every consumer of a handler mapping (get_media, render_body, the App response paths, get_param_as_json, the default error serializer, SSE json, multipart parts) '
            'uses the handler the CURRENT mapping designates by the matching rule for the type at hand (keys in other case / with parameters / wildcards included), '
            'or its documented fallback (415; the built-in JSON / XML serializer) when the mapping designates none')
    LOG = []
    ids = itertools.count(1)
    loop = asyncio.new_event_loop()

    class Media:
        def __init__(s, hid): s.hid = hid

    class TH(BaseHandler):
        """a handler that says who it is"""
        def __init__(s, hid): s.hid = hid
        def serialize(s, m, content_type=None):
            LOG.append(s.hid); return b'H%d|' % s.hid + json.dumps(m).encode()
        def deserialize(s, stream, content_type, content_length):
            LOG.append(s.hid); stream.read(); return Media(s.hid)
        async def deserialize_async(s, stream, content_type, content_length):
            LOG.append(s.hid); await stream.read(); return Media(s.hid)

    def spell(r, plain=False):
        """one of the spellings of a media type / range: letter case of type and subtype and of the parameter names, spacing"""
        m, sb = r.main, r.sub
        k = 1.0 if plain else rnd.random()
        if k < 0.2: m, sb = m.upper(), sb.upper()
        elif k < 0.35: m, sb = m.title(), sb.upper()
        elif k < 0.45: sb = sb.title()
        out = f'{m}/{sb}'
        for n, v in r.params.items():
            out += (rnd.choice(['; ', ';', ' ; ']) if not plain else '; ') + (rnd.choice([n, n, n.upper()]) if not plain else n) + '=' + v
        return out

    CONSUMERS = ['get_media_wsgi', 'get_media_asgi', 'render_body_wsgi', 'render_body_asgi', 'app_response_wsgi', 'app_response_asgi',
                 'param_json_wsgi', 'param_json_asgi', 'error_wsgi', 'error_asgi', 'sse_json', 'multipart_wsgi', 'multipart_asgi']
    JSON_FIXED = ('param_json_wsgi', 'param_json_asgi', 'sse_json')
    BODY = b'{"a": 1}'

    def run_asgi(app, scope, body):
        out = {'body': b'', 'status': None, 'headers': {}}
        evs = [{'type': 'http.request', 'body': body, 'more_body': False}]

        async def go():
            never = asyncio.get_running_loop().create_future()

            async def receive():
                if evs: return evs.pop(0)
                await never

            async def send(m):
                if m['type'] == 'http.response.start':
                    out['status'] = m['status']; out['headers'] = {k.decode().lower(): v.decode() for k, v in m['headers']}
                elif m['type'] == 'http.response.body':
                    out['body'] += m.get('body', b'')
            await asyncio.wait_for(app(scope, receive, send), 10)
        loop.run_until_complete(go())
        return out

    def run_wsgi(app, env):
        st = []
        body = b''.join(app(env, lambda sline, h, e=None: st.append((sline, h))))
        return {'status': int(st[0][0][:3]), 'headers': {k.lower(): v for k, v in st[0][1]}, 'body': body}

    for ci in range(ctx.n(1500, 14000)):
        # ---- the universe of this case: a target type and the keys that (may) designate a handler for it
        consumer = rnd.choice(CONSUMERS)
        if consumer in JSON_FIXED or consumer.startswith('error') or rnd.random() < 0.5:
            t0 = Rng('application', 'json', {})
        else:
            t0 = Rng(*gen_type(rnd, 0.0), {})
        by_str = {}

        def reg(r, plain=False):
            st_ = spell(r, plain)
            by_str[st_] = r
            return st_
        for fixed in (('application', 'json'), ('text', 'xml'), ('application', 'xml'), ('text', 'plain')):
            by_str['/'.join(fixed)] = Rng(fixed[0], fixed[1], {})

        def gen_key():
            k = rnd.random()
            if k < 0.16: return reg(Rng(t0.main, t0.sub, {}), plain=True)                          # the canonical spelling
            if k < 0.36: return reg(Rng(t0.main, t0.sub, {}))                                       # other letter case
            if k < 0.60:                                                                           # parameters (and maybe another case)
                ps = {rnd.choice(PNAMES): rnd.choice(PVALS_TOKEN)}
                if rnd.random() < 0.25: ps[rnd.choice(PNAMES)] = rnd.choice(PVALS_TOKEN)
                return reg(Rng(t0.main, t0.sub, ps))
            if k < 0.74: return reg(Rng(t0.main, '*', {}))
            if k < 0.80: return '*/*' if not by_str.setdefault('*/*', Rng('*', '*', {})) else '*/*'
            if k < 0.86: return reg(Rng('*', t0.sub, {}))
            return reg(Rng(*gen_type(rnd, 0.0), gen_params(rnd, False) if rnd.random() < 0.3 else {}))   # something else
        by_str['*/*'] = Rng('*', '*', {})

        def gen_ct():
            k = rnd.random()
            if k < 0.45: return reg(Rng(t0.main, t0.sub, {}), plain=True)
            if k < 0.60: return reg(Rng(t0.main, t0.sub, {}))
            if k < 0.78: return reg(Rng(t0.main, t0.sub, {rnd.choice(PNAMES): rnd.choice(PVALS_TOKEN)}))
            if k < 0.86: return None
            if k < 0.90: return '*/*'
            return reg(Rng(*gen_type(rnd, 0.0), {}))

        def designate(shadow, ct, default):
            if ct is None or ct == '' or ct == '*/*':
                ct = default
            if ct in shadow:
                return shadow[ct]
            t = by_str[ct]
            best, bq = None, 0.0
            for k_ in shadow:
                q = spec_quality(by_str[k_], [t])
                if q != 'error' and q > bq:
                    best, bq = k_, q
            return None if best is None else shadow[best]

        hh = None
        shadow = {}
        reg_handlers = {}

        def newh():
            x = TH(next(ids)); reg_handlers[x.hid] = x; return x
        init = {}
        for _ in range(rnd.choice([0, 1, 1, 1, 2, 3])):
            init[gen_key()] = newh()
        hh = Handlers(init)
        shadow = {k_: v_.hid for k_, v_ in init.items()}
        default = reg(Rng(t0.main, t0.sub, {}), plain=True) if rnd.random() < 0.5 else rnd.choice(['application/json', 'text/plain'])
        # the vehicles share the one Handlers object (as an app that gives requests and responses the same mapping does)
        vehicles = {}

        def wsgi_app():
            if 'wsgi' not in vehicles:
                app = falcon.App()
                app.req_options.media_handlers = hh; app.resp_options.media_handlers = hh
                box = {}

                class R:
                    def on_post(self, req, resp):
                        if box['mode'] == 'error':
                            raise falcon.HTTPBadRequest(title='t', description='d')
                        if box['mode'] == 'param':
                            box['out'] = req.get_param_as_json('p')
                        else:
                            resp.media = {'a': 1}
                            resp.content_type = box['ct']
                app.add_route('/', R())
                vehicles['wsgi'] = (app, box)
            return vehicles['wsgi']

        def asgi_app():
            if 'asgi' not in vehicles:
                app = falcon.asgi.App()
                app.req_options.media_handlers = hh; app.resp_options.media_handlers = hh
                box = {}

                class R:
                    async def on_post(self, req, resp):
                        if box['mode'] == 'error':
                            raise falcon.HTTPBadRequest(title='t', description='d')
                        if box['mode'] == 'param':
                            box['out'] = req.get_param_as_json('p')
                        elif box['mode'] == 'sse':
                            async def emitter():
                                yield falcon.asgi.SSEvent(json={'a': 1})
                            resp.sse = emitter()
                        else:
                            resp.media = {'a': 1}
                            resp.content_type = box['ct']
                app.add_route('/', R())
                vehicles['asgi'] = (app, box)
            return vehicles['asgi']

        def consume(cons, ct):
            """-> (observation, expected observation); both ('h', id) | ('415',) | ('builtin',) | ..."""
            del LOG[:]
            asgi = cons.endswith('asgi') or cons == 'sse_json'
            if cons.startswith('get_media'):
                opts = RequestOptions(); opts.media_handlers = hh; opts.default_media_type = default
                hdrs = {} if ct is None else {'Content-Type': ct}
                if asgi:
                    req = ft.create_asgi_req(options=opts, method='POST', headers=hdrs, body=BODY)
                else:
                    env = ft.create_environ(method='POST', headers=hdrs, body=BODY)
                    if ct is None: env.pop('CONTENT_TYPE', None)
                    req = falcon.Request(env, options=opts)
                if req.content_type != ct:
                    req.content_type = ct
                want = designate(shadow, ct, default)
                try:
                    got = loop.run_until_complete(asyncio.wait_for(req.get_media(), 10)) if asgi else req.get_media()
                    obs = ('h', got.hid) if isinstance(got, Media) else ('other', repr(got)[:60])
                except falcon.HTTPUnsupportedMediaType:
                    obs = ('415',)
                return obs, (('h', want) if want else ('415',))
            if cons.startswith('render_body'):
                opts = ResponseOptions(); opts.media_handlers = hh; opts.default_media_type = default
                resp = (falcon.asgi.Response if asgi else falcon.Response)(options=opts)
                resp.media = {'a': 1}
                if ct is not None:
                    resp.content_type = ct
                want = designate(shadow, resp.content_type, default)
                try:
                    got = loop.run_until_complete(asyncio.wait_for(resp.render_body(), 10)) if asgi else resp.render_body()
                    obs = ('h', int(got[1:got.index(b'|')])) if got[:1] == b'H' else ('other', repr(got)[:60])
                except falcon.HTTPUnsupportedMediaType:
                    obs = ('415',)
                return obs, (('h', want) if want else ('415',))
            if cons.startswith('app_response'):
                app, box = asgi_app() if asgi else wsgi_app()
                app.resp_options.default_media_type = default
                box['mode'] = 'resp'; box['ct'] = ct
                want = designate(shadow, ct, default)
                if asgi:
                    out = run_asgi(app, ft.create_scope(method='POST', path='/', headers={'Accept': 'x-nothing/x-at-all'}), b'')
                else:
                    out = run_wsgi(app, ft.create_environ(method='POST', path='/', headers={'Accept': 'x-nothing/x-at-all'}))
                if out['status'] == 200 and out['body'][:1] == b'H':
                    obs = ('h', int(out['body'][1:out['body'].index(b'|')]))
                elif out['status'] == 415:
                    obs = ('415',)
                else:
                    obs = ('other', out['status'], out['body'][:40])
                return obs, (('h', want) if want else ('415',))
            if cons.startswith('param_json'):
                want = designate(shadow, 'application/json', 'application/json')
                qs = 'p=%7B%22a%22%3A%201%7D'
                via_app = rnd.random() < 0.5
                if via_app:
                    app, box = asgi_app() if asgi else wsgi_app()
                    box['mode'] = 'param'; box.pop('out', None)
                    if asgi:
                        out = run_asgi(app, ft.create_scope(method='POST', path='/', query_string=qs), b'')
                    else:
                        out = run_wsgi(app, ft.create_environ(method='POST', path='/', query_string=qs))
                    got = box.get('out', ('status', out['status']))
                else:
                    opts = RequestOptions(); opts.media_handlers = hh
                    req = (ft.create_asgi_req(options=opts, query_string=qs) if asgi else falcon.Request(ft.create_environ(query_string=qs), options=opts))
                    got = req.get_param_as_json('p')
                obs = ('h', got.hid) if isinstance(got, Media) else ('builtin',) if got == {'a': 1} else ('other', repr(got)[:60])
                return obs, (('h', want) if want else ('builtin',))
            if cons.startswith('error'):
                app, box = asgi_app() if asgi else wsgi_app()
                app.resp_options.default_media_type = 'application/json'
                box['mode'] = 'error'
                # what the client accepts: the content type at hand (maybe weighted against something else)
                act = ct if ct is not None else 'application/json'
                accept = act
                ranges = [by_str[act]]
                k = rnd.random()
                if k < 0.15:
                    accept += ';q=0.5, text/x-unknown'; t_ = by_str[act]; ranges = [Rng(t_.main, t_.sub, t_.params, q=0.5, qstr='0.5'), Rng('text', 'x-unknown', {})]
                elif k < 0.3:
                    accept += ', text/x-unknown;q=0.1'; ranges = ranges + [Rng('text', 'x-unknown', {}, q=0.1, qstr='0.1')]
                if asgi:
                    out = run_asgi(app, ft.create_scope(method='POST', path='/', headers={'Accept': accept}), b'')
                else:
                    out = run_wsgi(app, ft.create_environ(method='POST', path='/', headers={'Accept': accept}))
                rct = out['headers'].get('content-type')
                tagged = out['body'][:1] == b'H'
                obs = ('h', int(out['body'][1:out['body'].index(b'|')])) if tagged else ('builtin', rct) if out['body'] else ('nobody',)
                if out['status'] != 400:
                    return ('other', out['status'], out['body'][:40]), ('a 400 response',)
                # the documented negotiation: JSON and the two XML types first, then the registered types (the two form types are not offered);
                # nothing acceptable: JSON / XML when the client asks for a +json / +xml type, else no body
                predefined = ['application/json', 'text/xml', 'application/xml']
                offered = predefined + [k_ for k_ in shadow if k_ not in predefined and k_ not in ('multipart/form-data', 'application/x-www-form-urlencoded')]
                bi = spec_best([by_str[o] for o in offered], ranges)
                pref = offered[bi] if bi is not None else 'application/json' if '+json' in accept.lower() else 'application/xml' if '+xml' in accept.lower() else None
                if pref is None:
                    return obs, ('nobody',)
                want = designate(shadow, pref, 'application/json')
                if want:
                    if obs[0] == 'h' and rct != pref:
                        return ('h', obs[1], 'Content-Type ' + repr(rct)), ('h', want, 'Content-Type ' + repr(pref))
                    return obs, ('h', want)
                return obs, ('builtin', pref)
            if cons == 'sse_json':
                app, box = asgi_app()
                box['mode'] = 'sse'
                want = designate(shadow, 'application/json', 'application/json')
                out = run_asgi(app, ft.create_scope(method='POST', path='/'), b'')
                b = out['body']
                obs = ('h', int(b[7:b.index(b'|')])) if b[:7] == b'data: H' else ('builtin',) if b.startswith(b'data: {"a"') else ('other', b[:40])
                return obs, (('h', want) if want else ('builtin',))
            if cons.startswith('multipart'):
                po = media.multipart.MultipartParseOptions()
                po.media_handlers = hh
                mh = media.MultipartFormHandler(parse_options=po)
                opts = RequestOptions(); opts.media_handlers[falcon.MEDIA_MULTIPART] = mh
                part = b'--BND\r\nContent-Disposition: form-data; name="f"\r\n' + (b'' if ct is None else b'Content-Type: ' + ct.encode() + b'\r\n') + b'\r\n' + BODY + b'\r\n--BND--\r\n'
                hdrs = {'Content-Type': 'multipart/form-data; boundary=BND'}
                want = designate(shadow, ct, 'text/plain')
                try:
                    if asgi:
                        req = ft.create_asgi_req(options=opts, method='POST', headers=hdrs, body=part)

                        async def parts():
                            form = await req.get_media()
                            async for p_ in form:
                                return await p_.get_media()
                        got = loop.run_until_complete(asyncio.wait_for(parts(), 10))
                    else:
                        req = falcon.Request(ft.create_environ(method='POST', headers=hdrs, body=part), options=opts)
                        got = None
                        for p_ in req.get_media():
                            got = p_.get_media()
                            break
                    obs = ('h', got.hid) if isinstance(got, Media) else ('other', repr(got)[:60])
                except falcon.HTTPUnsupportedMediaType:
                    obs = ('415',)
                return obs, (('h', want) if want else ('415',))
            raise ValueError(cons)

        # ---- the history: mutations of the mapping, consumptions in between (the case's consumer and now and then another one)
        steps = []
        why = None
        nontriv = False
        consumed = 0
        n_steps = rnd.randint(1, 6)
        for si in range(n_steps + 1):
            last = si == n_steps
            r = rnd.random()
            try:
                with alarm(5):
                    if last or r < 0.45:
                        cons = consumer if rnd.random() < 0.75 else rnd.choice(CONSUMERS)
                        ct = gen_ct()
                        if cons in JSON_FIXED:
                            ct = 'application/json'
                        steps.append(['consume', cons, ct, 'default=' + default])
                        obs, exp = consume(cons, ct)
                        ctx.count('consumer_' + cons)
                        ctx.count('consumer_outcome_' + exp[0])
                        if exp[0] == 'h':
                            eff = default if ct in (None, '*/*') else ct
                            if eff not in shadow:
                                nontriv = True; ctx.count('consumer_designated_by_noncanonical_key')
                        if obs != exp:
                            why = (f'step {len(steps)}: {cons} for {ct!r} (default {default!r}) was served by {obs}, '
                                   f'the current mapping {shadow} designates {exp}')
                        consumed += 1
                    elif r < 0.62:
                        k_ = gen_key(); x = newh(); hh[k_] = x; shadow[k_] = x.hid; steps.append(['set', k_, x.hid])
                    elif r < 0.72:
                        if shadow:
                            k_ = rnd.choice(list(shadow)); del hh[k_]; del shadow[k_]; steps.append(['del', k_])
                    elif r < 0.80:
                        d_ = {gen_key(): newh() for _ in range(rnd.randint(1, 2))}
                        hh.update(d_); shadow.update({k_: v_.hid for k_, v_ in d_.items()}); steps.append(['update', {k_: v_.hid for k_, v_ in d_.items()}])
                    elif r < 0.87:
                        d_ = {gen_key(): newh() for _ in range(rnd.randint(1, 2))}
                        hh |= d_; shadow.update({k_: v_.hid for k_, v_ in d_.items()}); steps.append(['|=', {k_: v_.hid for k_, v_ in d_.items()}])
                    elif r < 0.93:
                        if shadow:
                            k_ = rnd.choice(list(shadow)); hh.pop(k_); shadow.pop(k_); steps.append(['pop', k_])
                    elif r < 0.96:
                        hh.clear(); shadow.clear(); steps.append(['clear'])
                    else:
                        k_ = gen_key(); x = newh(); hh.setdefault(k_, x); shadow.setdefault(k_, x.hid); steps.append(['setdefault', k_, x.hid])
            except Hang:
                why = why or f'step {len(steps)} did not return'
            except Exception as e:  # noqa
                why = why or f'step {len(steps)} {steps[-1] if steps else ""} raised {type(e).__name__}: {e}'
            if why:
                break
        case = {'initial_mapping': {k_: v_.hid for k_, v_ in init.items()}, 'steps': steps}
        ctx.oracle(name, why is None, why, case)
        ctx.seen(('consumer', str(case)), nontriv)
        if ci < 2:
            ctx.sample(case)
    loop.close()


def _plain(x):
    return list(x) if isinstance(x, tuple) else x


LEVEL_TEXT = ('Machine-checked proofs (Lean 4): (1) the media Handlers resolver, modelled as a memoising function over a mutable mapping, returns for every history of '
              'set / delete / update / pop / popitem / clear / setdefault / |= / copy / LRU evictions / resolutions exactly what the uncached rule gives on the CURRENT mapping '
              '(resolve_fresh, resolve_fresh_x; instantiated with the concrete rule exact-key / best_match / default type / 415 in resolve_rule_fresh); copy preserves the mapping; '
              '(1b) Request.get_media (both stacks) on top of that resolver refines a memo-free specification for every history on one request object: only what a handler produced is remembered, a 415 never is, '
              'every other call resolves on the current mapping / Handlers object / default type / content type (trace_refines_spec, getMedia_fresh, e415_not_cached); '
              '(2) for the transcription of falcon.util.mediatypes (parse_header with both paths, media type / range parsing, match_score, quality, best_match): quality is the q of a lexicographically '
              'maximal (type, subtype, exact-params, #params, q) match or 0 when nothing matches, best_match is the first candidate of maximal quality and never one of quality 0, and malformed input only yields the two value errors. '
              'Both models are tied to the real code on every run by differential correspondences (same inputs / operation lines to falcon.util.mediatypes, falcon.media.Handlers, falcon.Request / falcon.asgi.Request and the compiled models), '
              'and an independent oracle computed from the generated structure of the header (not from the parser) and from a plain-dict shadow of the mapping decides failing inputs. '
              'The oracle also spans the kind of object the candidates arrive in (one-shot iterators, mappings, sets ...), the construction of Handlers objects from caller-owned mappings (aliasing), '
              'and every place inside falcon that consumes a handler mapping (13 consumers incl. get_param_as_json, the error serializer, SSE and multipart parts) under non-canonical key spellings.')
LEVEL_NOTE = ('Trusted: Lean kernel + standard axioms; the correspondence harness and oracles; float() on q values; lru_cache behaving as a sub-memo. '
              'Case-sensitivity of types and splitting at quoted commas are taken as documented behaviour (see assumptions).')
TECHNIQUE = 'Lean 4 invariant proof (memo coherence over histories) + order-theoretic lemmas on the matching rule + differential correspondence model vs. real code + structure-derived oracle'

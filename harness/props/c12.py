"""C12 - media round-trips unchanged and request media is parsed at most once."""
PROP = 'C12'
LEAN_MODULES = ['FalconModel.MediaCacheProofs', 'FalconModel.JsonProofs', 'FalconModel.UrlFormProofs']
DRIVERS = ['mcdriver', 'jsdriver', 'ufdriver']
THEOREMS = [
    'Mc.getMedia_spec', 'Mc.getMedia_cached_untouched', 'Mc.runCalls_spec',
    'Mc.deserialize_at_most_once', 'Mc.deserialize_exactly_once', 'Mc.stream_untouched_after_first_call',
    'Mc.empty_body_json_is_not_found', 'Mc.undecodable_is_malformed', 'Mc.default_only_for_not_found',
    'Mc.render_once_until_reassigned',
    'Js.loads_dumps', 'Js.loadsBytes_dumpsBytes', 'Js.loads_ws_dumps_ws', 'Js.parseValue_dumps', 'Js.parseElems_dumps', 'Js.parsePairs_dumps',
    'Js.scanString_escape', 'Js.parseNumber_dumpsInt', 'Js.mkDict_of_distinct', 'Js.dup_keys_do_not_round_trip', 'Js.loads_dumps_int_over_limit', 'Js.wf_int_iff',
    'Js.handler_round_trip', 'Js.media_round_trip', 'Js.parse_length', 'Js.scanString_length', 'Js.parse_fuel', 'Js.scanString_fuel', 'Js.loads_fuel_irrelevant',
    'Js.dumps_no_control',
    'Uf.deserialize_serialize', 'Uf.roundtrip_exact', 'Uf.parse_urlencode', 'Uf.parse_urlencode_eq_toQueryStr', 'Uf.normalForm_wf', 'Uf.normalForm_id',
    'Uf.serialize_ascii', 'Uf.quotePlus_charset', 'Uf.unquote_quotePlus', 'Uf.fieldEntry_field', 'Uf.entries_urlencode',
    'Uf.normItem_one_element_list', 'Uf.normItem_empty_list', 'Uf.normItem_blank', 'Uf.handler_defaults',
    'Uf.deserialize_empty', 'Uf.deserialize_non_ascii', 'Uf.deserialize_ascii',
    'Uf.witness_one_element_list', 'Uf.witness_empty_list', 'Uf.witness_blank_kept', 'Uf.witness_blank_dropped', 'Uf.witness_both_empty',
    'Uf.witness_blank_in_list', 'Uf.witness_comma_csv', 'Uf.witness_csv_option', 'Uf.witness_same_name',
]
STATEMENTS = {
    'Mc.runCalls_spec': 'for every handler outcome and every sequence of get_media(default_when_empty given or not) calls on a fresh request: each call answers the same value / the same error; the caller default is returned only for media-not-found, only for that call, and is never cached',
    'Mc.deserialize_at_most_once': 'over any call sequence the handler deserializes at most once',
    'Mc.stream_untouched_after_first_call': 'no stream operation happens after the first call',
    'Mc.undecodable_is_malformed': 'a non-empty body the JSON decoder rejects with ValueError or RecursionError is MediaMalformedError (400)',
    'Mc.render_once_until_reassigned': 'render_body serializes response media once; the cache is reset by assigning media again',
    'Js.loadsBytes_dumpsBytes': 'for every document d of null/bool/int/str/list/dict-with-str-keys whose dict keys are pairwise distinct at every level and whose ints have at most 4300 digits: decoding the UTF-8 bytes of dumps(d) (CPython format, ensure_ascii=False) and parsing them with loads gives exactly d',
    'Js.loads_dumps': 'the same at the text level: loads (dumps d) = some d',
    'Js.loads_ws_dumps_ws': 'the same with any JSON whitespace before and after the text',
    'Js.parseValue_dumps': 'generalisation used for the induction: for every continuation that does not start with a digit, ".", "e" or "E", parsing dumps(d) ++ rest yields (d, rest) for every fuel >= the text length',
    'Js.scanString_escape': 'the string scanner applied to escape(s) followed by a quote and any rest returns (s, rest): every escape the encoder emits is undone',
    'Js.parseNumber_dumpsInt': 'the number scanner reads the decimal representation of any int within the digit limit back as that int',
    'Js.dup_keys_do_not_round_trip': 'a concrete assoc list with a repeated key reads back differently (last value, first position): distinct keys are necessary',
    'Js.loads_dumps_int_over_limit': 'every int with more than 4300 digits is rejected by loads: the digit bound is necessary',
    'Js.handler_round_trip': 'JSONHandler._deserialize (wrapper model with the Js decoder) applied to the bytes serialized for a well-formed document d answers ok d (in particular the body is never empty)',
    'Js.media_round_trip': 'end to end in the model: on a request whose body is the serialization of a well-formed float-free document d, every get_media()/media call of every call sequence answers d, and the handler deserializes at most once',
    'Js.parse_fuel': 'with fuel >= 2*length+1 (values) / 2*length+2 (element and pair loops) the answers of the three mutually recursive parsers do not depend on the fuel',
    'Js.loads_fuel_irrelevant': 'loads equals the same parser run with any larger fuel: a rejection is never an artefact of the termination device',
    'Js.parse_length': 'every successful parser call consumes at least one character',
    'Uf.deserialize_serialize': 'URLEncodedFormHandler with any keep_blank / csv setting: for every sequence of (name, str | list of str) pairs with pairwise distinct names, deserialize(serialize(d)) succeeds and is the normal form of d - names in order; per name the values that survive (non-empty, or blank values kept and the name non-empty); no survivor: name absent; one survivor: a plain string (a one-element list comes back as a string); several: a list in order. No condition on the characters: "&", "=", ",", "+", "%", space, non-ASCII are all escaped by quote_plus, also under csv=True',
    'Uf.roundtrip_exact': 'if in addition no pair has name and value both empty (no empty value at all under keep_blank=False) and every list has at least two elements, deserialize(serialize(d)) = d exactly',
    'Uf.parse_urlencode': 'parse_query_string(urlencode(d, doseq=True), keep_blank, csv) is the normal form of d, for both option values each (distinct names)',
    'Uf.parse_urlencode_eq_toQueryStr': 'urllib urlencode(d) and falcon to_query_str(normal form of d) are read as the same mapping by the parser (they differ as text: "+" vs "%20"); proved by applying the C08 theorem Gt.parse_toQueryStr to the normal form',
    'Uf.normalForm_wf': 'the normal form of a document with distinct names satisfies the side conditions WFmap of the C08 to_query_str round trip',
    'Uf.normalForm_id': 'a document whose items satisfy the C08 item condition (Gt.ItemOk) is its own normal form',
    'Uf.serialize_ascii': 'every byte serialize produces is below 0x80 (so deserialize never takes its error branch on a serialized form)',
    'Uf.quotePlus_charset': 'quote_plus only emits always-safe characters, "+", "%" and upper-case hex digits',
    'Uf.unquote_quotePlus': 'falcon decode(unquote_plus=True) (all code paths, Probe.decodeImpl) undoes urllib quote_plus byte for byte',
    'Uf.fieldEntry_field': 'the parser reads one rendered field name=value as the scalar entry (name, value) if the pair survives (keeps) and as nothing otherwise, whatever the csv option',
    'Uf.deserialize_empty': 'an empty body deserializes to the empty mapping',
    'Uf.deserialize_non_ascii': 'a body containing a byte >= 0x80 is MediaMalformedError',
    'Uf.deserialize_ascii': 'every ASCII body deserializes to what parse_query_string gives with the handler options (no third outcome)',
    'Uf.handler_defaults': 'the constructor defaults are keep_blank=True, csv=False',
    'Uf.witness_same_name': 'the pair sequence [(a,x),(a,y)] comes back as {a:[x,y]}: distinct names are necessary',
    'Uf.witness_csv_option': 'the body a=x,y is a list under csv=True and the string "x,y" under the default: the csv option matters for foreign bodies, not for serialized ones (Uf.witness_comma_csv)',
    'Js.dumps_no_control': 'the serialized text contains no character below U+0020 (all control characters, including newlines, are escaped)',
}
TRUSTED = [
    "the stdlib json module for float values, and that the Lean model Js.dumps/Js.loads (proved lossless) is what json.dumps(ensure_ascii=False)/json.loads compute on float-free documents: tied by a byte-for-byte / value-for-value correspondence on generated documents and texts, not proved about the C code",
    "Lean core's UTF-8 codec (List.utf8Encode / ByteArray.utf8Decode?, round trip proved in core) as the meaning of str.encode()/bytes.decode()",
    'urllib-level form encoding used by URLEncodedFormHandler (its parse side is C08)',
]
ASSUMPTIONS = [
    'documents: nested lists/dicts with str keys, None/bool/int (incl. > 2**64)/finite float/str (arbitrary unicode without lone surrogates); special floats and non-str keys excluded (as in the statement)',
    'proved JSON round trip (Js model): float-free documents (null/bool/int/str/list/dict with str keys), dict keys pairwise distinct at every level (always true of a Python dict; necessary for the assoc-list model), ints of at most 4300 decimal digits (CPython int/str conversion limit; necessary), strings are sequences of Unicode scalar values (no lone surrogates); nesting below the interpreter recursion limit (not modelled)',
    'form mappings: str keys/values, lists of >= 2 strings, no pair with both key and value empty (the side conditions of the to_query_str round trip, C08)',
    '"undecodable" body = a non-empty body that is not a JSON text: not UTF-8 (RFC 8259 8.1) or not derivable from the grammar of RFC 8259 sections 2-7 (judged by an independent '
    'iterative recognizer, lib_json.rfc8259 - not by the json module). Two documented leniencies are outside that oracle: the literals NaN / Infinity / -Infinity, which Python\'s json '
    'module accepts (special floats are excluded by the statement), and a byte order mark in front (RFC 8259 lets a parser ignore it or reject it; falcon rejects it). '
    'The oracle is one-directional: JSON texts beyond a resource limit of the decoder (> 4300 digits, nesting beyond the recursion limit) may also be answered 400',
    'the JSON text a response carries is UTF-8 whatever the parameters of its Content-Type say (RFC 8259 8.1: no charset parameter is defined for application/json; falcon documents '
    'that it always serializes to UTF-8), and a request body is read as UTF-8 whatever its charset parameter says - the two halves of the round trip "with the same content type"',
    '"the same error" at a later access = the same object whose observable content (class, str, args, the documented __cause__, status, title, description, headers, link, code, to_dict(), to_json()) '
    'reads as at the first raise, so that whichever access propagates the client gets the same response; the traceback and the implicit __context__ / __suppress_context__ are not content',
]
RULE = ('(a) caching contract: bodies (valid / truncated / wrong encoding / empty / deeply nested JSON, forms; 30% NOT-JSON bodies, see a2) x content types (params incl. charset in every spelling, +json, unknown) x call sequences of length 1-5 over '
        'get_media()/get_media(default_when_empty=D)/media (30% of the accesses made while the application is handling another, unrelated exception), WSGI and ASGI through full apps with a counting handler '
        '(its custom failures carry a __cause__) and a counting body stream; at EVERY raise the error\'s observable content is snapshotted (class, str, args, __cause__, status, title, description, headers, link, code, '
        'to_dict(), to_json()) and must read the same at the 1st, 2nd, 3rd ... failing access (the model line carries a content-changed mark otherwise); '
        '(a3) the re-raised error through whole apps: malformed JSON (13 fixed + the a2 defect kinds), non-ASCII forms, empty bodies, custom handlers raising HTTPError / MediaMalformedError from a cause x 2-4 accesses x '
        'first access in process_request / process_resource / a before-hook / the responder x default JSON / XML rendering (Accept) or an application error handler reading title / description / __cause__ / to_dict(): '
        'for k = 1..n the first k-1 failing accesses are caught and the k-th propagates - same object, same content at every raise, the same status / content type / body for every k, and WSGI = ASGI; '
        '(a2) NOT-JSON bodies: a valid generated text with ONE well-aimed defect out of 19 kinds - a raw control character (every one of U+0000..U+001F in turn) inside a string value or an object key at any depth '
        '(between, not inside, escape sequences), truncation, trailing garbage, a structural character missing / doubled / replaced / trailing or leading comma, 25 bad numbers (01, 1., .5, +1, 0x10, non-ASCII digits ...), '
        '20 bad literals (True, nul, Inf ...), 17 bad escapes (\\x41, \\u12, \\a ...), single / missing quotes, non-JSON whitespace between tokens (VT, FF, NBSP, U+2028, NUL ...), comments, invalid UTF-8 inside strings, '
        'UTF-16 / UTF-32 / Latin-1 / EBCDIC encodings, mismatched brackets, non-string keys, no value at all, concatenated texts, Python repr - kept when the independent RFC 8259 recognizer says not-JSON; posted to whole apps '
        '(WSGI / ASGI, stock / subclassed / explicitly configured JSONHandler, every chunking class, content types with parameters): must be answered 400, and given to JSONHandler.deserialize directly and to the Js model; '
        '(b) round trip: generated JSON documents (half of them text-heavy: Latin-1 range, cp1252-only, BMP, astral, ASCII-only) and form mappings assigned to resp.media under content types WITH PARAMETERS '
        '(charset = utf-8 / UTF-8 / utf8 / ISO-8859-1 / latin1 / windows-1252 / cp1252 / utf-16 / UTF-16LE / utf-32 / us-ascii / shift_jis / koi8-r / unknown ..., bare or quoted, any parameter-name case, with other parameters before / after; '
        'version= / profile= / q= alone), stock / subclassed / explicit-dumps JSONHandler, falcon.Response and falcon.asgi.Response: the rendered bytes are UTF-8 JSON of the document, the other stack renders the same bytes, '
        'and the body posted back with the same content type under every chunking class gives the document; '
        '(b2) the same through whole apps (the responder sets the parameterised content type; 10 handler variants x 6 app constructions x both stacks on either side); '
        '(b3) handler INTERFACE SHAPE x request FRAMING: an application BaseHandler subclass for a vendor / +json / text type implementing only serialize+deserialize, only serialize_async+deserialize_async, or both, '
        'whose deserializer ignores content_length, uses it the way its interface documents it (sync: stream.read(content_length or 0); async: read(content_length) when given, read() when None) or refuses a GIVEN '
        'content_length that is not the number of bytes read; exhaust_stream on / off; the bytes the handler serialized on an app of either stack come back WITH a Content-Length header, WITHOUT one (ASGI scope built '
        'without the header, body in http.request events under every chunking class incl. empty events; WSGI: no header = no body), or as an empty body with / without the header (1-3 empty events), x 1-4 accesses '
        '(media / get_media() / get_media(default_when_empty=D), falsy defaults): every access returns the served document (same object), the handler parsed exactly once, the half that ran is the one the stack calls for, '
        'an empty body gives not-found / the default; the full directed product shape x use x stack x framing runs every time (sharded) plus random cases; every access history also goes to the Mc model; '
        '(c) JSON format: float-free documents (nesting <= 5, escape-worthy/astral/control characters, ints up to the 4300-digit limit) serialized by JSONHandler vs the model byte for byte; JSON texts '
        '(documents re-spelled with arbitrary whitespace, short/\\uXXXX/surrogate-pair escapes, duplicate keys, -0; 0-2 single-character edits; injected invalid UTF-8; a fixed list of edge texts) '
        'deserialized by JSONHandler vs the model (value, not-found or malformed; plus the bare loads); texts whose value has a float or a lone surrogate are skipped and counted; '
        '(d) form handler vs the Uf model: form documents of 0-4 names (8% the empty name) over an alphabet of reserved characters (& = + % , ; / ? #), space, controls, non-ASCII incl. astral, '
        'literal escapes (%41, %zz, %2C), values str (15% empty) or lists of 0/1/2/3 strings (20% empty elements) x handler options (defaults, each of keep_blank / csv given or not): serialize bytes, '
        'deserialize(serialize(d)) and the model normal form compared; 35% also through resp.media on a WSGI/ASGI app and req.get_media()/req.media on another (default-installed or configured handler); '
        'plus generated bodies (fields with literal commas, plus signs, escapes, "&&", raw UTF-8 / latin-1 bytes, empty) x options: parsed mapping or MediaMalformedError, 30% also through a full app; '
        'non-trivial = body non-empty; distinct = distinct (stack, content type, body, call sequence) / distinct document / distinct text')
PARTIAL = ('proved: the caching / error-caching / default contract of get_media, the JSON wrapper error mapping, the response render cache, and the JSON round trip '
           'loads(dumps(d)) = d over a native model of the text format for float-free documents (distinct keys, ints <= 4300 digits). '
           'Not proved: the round trip of float values (repr/float parsing; validated by the round-trip oracle only), documents nested beyond the interpreter recursion limit (a resource limit, '
           'not modelled); chunking independence is inherited from C07. The form (urlencoded) round trip IS proved (Uf.deserialize_serialize, on top of the C08 parser theorems) for '
           'documents whose names and values are str (valid UTF-8, no lone surrogates) or lists of str; non-str scalars (urlencode applies str() to them), bytes values and nested sequences are outside the Uf model. '
           'The sync-to-async adapter BaseHandler.deserialize_async (read everything, hand the sync deserialize a BytesIO and the true length) is NOT in the Lean model: custom handlers of every interface shape under every '
           'request framing (b3) are judged by the round-trip oracle only; their access histories are fed to Mc.getMedia, which models the handler as one opaque outcome.')
JOBS = {'quick': 4, 'thorough': 16}
LEVEL_TEXT = ('Lean 4 theorems over a model of Request.get_media (both request classes), the JSON handler wrapper and the response render cache: for every handler outcome and every call '
              'sequence the handler runs at most once, later calls return the same object or error without touching the stream, the default is returned only for media-not-found and never '
              'cached, undecodable bodies map to the 400-class error. The model is tied to the code by a differential correspondence through full WSGI/ASGI apps with counting handlers and '
              'streams; an independent oracle checks the same contract plus the document/form round trip on generated documents. The JSON text format of the default handler '
              '(json.dumps(ensure_ascii=False).encode() / json.loads(data.decode())) has a native Lean model with loads(dumps d) = d proved by structural induction for float-free documents, '
              'tied to JSONHandler.serialize/deserialize byte for byte. Partial: floats and interpreter resource limits are outside the model.')
LEVEL_NOTE = 'Trusted: Lean kernel; stdlib json (floats; model = C code only by correspondence)/urllib; the harness. See PARTIAL in the evidence.'
TECHNIQUE = 'Lean 4 invariant proof over call sequences + structural-induction round-trip proof over a JSON format model + differential correspondence + round-trip oracle'


def run(ctx):
    import asyncio
    import io
    import json
    import falcon
    import falcon.asgi
    import falcon.testing as ft
    from falcon import errors, media
    import lib_json as LJ
    rnd = ctx.rng
    DEF = object()

    class Boom(Exception):
        pass

    def make_handler(kind):
        """A JSON handler subclass (so the fast path is off) counting its deserialize calls; `kind` selects a custom failure."""
        class H(media.JSONHandler):
            calls = 0

            def _act(self, data):
                H.calls += 1
                if kind == 'boom': raise Boom('handler failed') from KeyError('what the handler tripped over')
                if kind == 'http': raise falcon.HTTPUnprocessableEntity(description='nope') from ValueError('inner detail')
                return self._deserialize(data)

            def deserialize(self, stream, ct, cl):
                return self._act(stream.read())

            async def deserialize_async(self, stream, ct, cl):
                return self._act(await stream.read())
        return H

    class CountingInput(io.BytesIO):
        def __init__(self, b):
            super().__init__(b); self.ops = 0
        def read(self, n=-1):
            self.ops += 1; return super().read(n)
        def readline(self, n=-1):
            self.ops += 1; return super().readline(n)

    def gen_doc(depth=0):
        k = rnd.random()
        if depth > 4 or k < 0.45:
            c = rnd.randrange(8)
            if c == 0: return None
            if c == 1: return rnd.random() < 0.5
            if c == 2: return rnd.choice([0, -1, 1, 2 ** 31, -2 ** 63, 2 ** 64 + 1, 10 ** 30, rnd.randint(-10 ** 6, 10 ** 6)])
            if c == 3: return rnd.choice([0.0, -0.0, 1.5, -2.25, 1e100, 1e-7, 3.141592653589793, rnd.random() * 10 ** rnd.randint(-5, 5)])
            return ''.join(rnd.choice(['a', 'Z', '0', ' ', '"', '\\', '/', '\n', '\t', '\x00', '\x1f', '\x7f', '\xe9', '€', ' ', '﻿', '\U0001f600', '퟿', '']) for _ in range(rnd.randint(0, 6)))
        if k < 0.72:
            return [gen_doc(depth + 1) for _ in range(rnd.randint(0, 4))]
        return {(''.join(rnd.choice('ab"\\\xe9\U0001f600 ') for _ in range(rnd.randint(0, 3)))): gen_doc(depth + 1) for _ in range(rnd.randint(0, 4))}

    def eq_doc(a, b):
        if type(a) is not type(b): return False
        if isinstance(a, list): return len(a) == len(b) and all(eq_doc(x, y) for x, y in zip(a, b))
        if isinstance(a, dict): return list(a) == list(b) and all(eq_doc(a[k], b[k]) for k in a)
        if isinstance(a, float): return (a == b and str(a) == str(b)) or (a != a and b != b)
        return a == b

    def chunkings(b):
        yield [b]
        if len(b) > 1:
            yield [b[i:i + 1] for i in range(len(b))]
            k = rnd.randrange(1, len(b)); yield [b[:k], b[k:]]
            yield [b'', b[:k], b'', b[k:], b'']

    sess = ctx.session('Request.get_media / JSON wrapper / render cache = Mc model', 'mcdriver')

    BODIES = [b'', b'{"a": 1}', b'[1,2', b'\xff\xfe', b'null', b'"x"', b' ', b'{"k":"\\ud83d\\ude00"}', b'[' * 100000, b'{"a":' * 3000 + b'1' + b'}' * 3000,
              b'1e999', b'NaN', b'{"a":1}garbage', b'\xef\xbb\xbf{}', b'0', b'[]', b'"\xe9"', '"é"'.encode(), b'{"a": 1, "a": 2}']

    def reference_outcome(body, kind):
        if kind == 'boom': return 'oth:1'
        if kind == 'http': return 'oth:2'
        if not body: return 'nf'
        if LJ.json_verdict(body) == 'invalid': return 'mal'     # not a JSON text by RFC 8259 / not UTF-8 (independent recognizer, lib_json.rfc8259)
        try:
            json.loads(body.decode()); return 'ok'
        except (ValueError, RecursionError):
            return 'mal'                                        # (JSON, but beyond a resource limit of the decoder: digits, nesting; or a BOM in front)

    def exc_tag(e):
        if isinstance(e, errors.MediaNotFoundError): return 'nf'
        if isinstance(e, errors.MediaMalformedError): return 'mal'
        if isinstance(e, Boom): return 'oth:1'
        if isinstance(e, falcon.HTTPUnprocessableEntity): return 'oth:2'
        return 'EXC:' + type(e).__name__

    def snap(e):
        """The observable CONTENT of an error object as an application that catches, logs or renders it reads it: class, text, args, the documented
        __cause__, and for HTTP errors status / title / description / headers / link / code / to_dict() / to_json().  Identity is judged separately;
        the traceback and the implicit __context__ (which legitimately depend on where the access was made) are not content."""
        c = e.__cause__
        d = {'class': type(e).__name__, 'str': str(e), 'repr': repr(e), 'args': repr(e.args), 'cause': None if c is None else f'{type(c).__name__}: {c}',
             'cause_object': None if c is None else id(c)}
        if isinstance(e, falcon.HTTPError):
            for a in ('status', 'status_code', 'title', 'description', 'headers', 'link', 'code'):
                try:
                    d[a] = repr(getattr(e, a))
                except Exception as x:  # noqa
                    d[a] = 'reading it raises ' + type(x).__name__
            for a in ('to_dict', 'to_json'):
                try:
                    d[a + '()'] = repr(getattr(e, a)())
                except Exception as x:  # noqa
                    d[a + '()'] = 'calling it raises ' + type(x).__name__
        return d

    def snap_diff(a, b, skip=()):
        return {k: (a.get(k), b.get(k)) for k in sorted(set(a) | set(b)) if k not in skip and a.get(k) != b.get(k)}

    # ------------------------------------------------------------ (a) caching contract
    # directed: a request WITHOUT a document (empty body), every access history of length <= 3 (quick; <= 4 thorough), every kind of
    # default (None and the falsy ones included), both stacks - sharded
    import itertools as _it
    FORCED = [(st_, sq, dv) for st_ in ('wsgi', 'asgi') for n_ in range(1, 4 if ctx.quick else 5) for sq in _it.product('mdp', repeat=n_)
              for dv in ('obj', None, {}, [], 0, '', False) if 'd' in sq]
    FORCED = [f for j, f in enumerate(FORCED) if j % ctx.shard[1] == ctx.shard[0]] if not ctx.searching else []
    for ci in range(len(FORCED) + ctx.n(500, 6000)):
        stack = rnd.choice(['wsgi', 'asgi'])
        kind = rnd.choice(['json', 'json', 'json', 'json', 'boom', 'http'])
        k_ = rnd.random()
        body = rnd.choice(BODIES) if k_ < 0.5 else json.dumps(gen_doc()).encode() if k_ < 0.7 else None
        if body is None:
            # a body that is not a JSON text, of every kind (raw control characters inside strings, bad numbers / literals / escapes, wrong encoding ...)
            ikind, body = LJ.gen_invalid(rnd, ctrl=chr(ci % 32))
            if LJ.json_verdict(body) != 'invalid':
                ikind = 'turned_out_' + LJ.json_verdict(body)
            ctx.count('a_body_' + ikind)
        if rnd.random() < 0.1 and body: body = body[:rnd.randrange(len(body))]
        seq = [rnd.choice(['m', 'd', 'p']) for _ in range(rnd.randint(1, 5))]
        # the default the application passes: any object, the falsy ones and None included (for bodies without a document, where the
        # default is what comes back, so that it cannot be mistaken for a parsed value)
        if not body.strip() and rnd.random() < 0.7:
            DEF = rnd.choice([None, None, {}, [], 0, '', False, ()])
            ctx.count('a_default_when_empty_' + repr(DEF))
        else:
            DEF = object()
        if ci < len(FORCED):
            stack, seq_, dv_ = FORCED[ci]
            kind, body, seq = 'json', b'', list(seq_)
            DEF = object() if isinstance(dv_, str) and dv_ == 'obj' else __import__('copy').copy(dv_)
            ctx.count('a_directed_empty_body_histories')
        # where an access is made is part of the history: 30% of them happen while the application is handling another (unrelated) exception
        nested = [rnd.random() < 0.3 for _ in seq]
        ctype = rnd.choice(['application/json', 'application/json', 'application/json; charset=utf-8', 'application/json;v=1', 'application/json ; charset="utf-8"'])
        if rnd.random() < 0.25:
            ctype = LJ.gen_json_ctype(rnd)[0]
        H = make_handler(kind)
        outs = []; ids = {}; streamops = []

        def note(v):
            return ids.setdefault(id(v), len(ids))
        if stack == 'wsgi':
            class R:
                def on_post(self, req, resp):
                    raw = req.env['wsgi.input']

                    def acc(s):
                        return req.get_media() if s == 'm' else (req.get_media(default_when_empty=DEF) if s == 'd' else req.media)
                    for s, nest in zip(seq, nested):
                        try:
                            if nest:
                                try:
                                    raise LookupError('an unrelated failure the application is handling')
                                except LookupError:
                                    v = acc(s)
                            else:
                                v = acc(s)
                            outs.append(('dflt',) if v is DEF else ('value', note(v), v))
                        except Exception as e:  # noqa
                            outs.append(('raise', exc_tag(e), e, snap(e)))
                        streamops.append(getattr(raw, 'ops', None))
            app = falcon.App()
        else:
            class R:
                async def on_post(self, req, resp):
                    async def acc(s):
                        return await (req.get_media() if s == 'm' else (req.get_media(default_when_empty=DEF) if s == 'd' else req.media))
                    for s, nest in zip(seq, nested):
                        try:
                            if nest:
                                try:
                                    raise LookupError('an unrelated failure the application is handling')
                                except LookupError:
                                    v = await acc(s)
                            else:
                                v = await acc(s)
                            outs.append(('dflt',) if v is DEF else ('value', note(v), v))
                        except Exception as e:  # noqa
                            outs.append(('raise', exc_tag(e), e, snap(e)))
                        streamops.append(recv_count[0])
            app = falcon.asgi.App()
        app.req_options.media_handlers['application/json'] = H()
        app.add_route('/', R())
        recv_count = [0]
        if stack == 'wsgi':
            env = ft.create_environ(method='POST', path='/', headers={'Content-Type': ctype, 'Content-Length': str(len(body))})
            env['wsgi.input'] = CountingInput(body)
            try:
                list(app(env, lambda s, h, e=None: None))
            except Exception as e:  # noqa
                outs.append(('escaped', repr(e)))
        else:
            scope = ft.create_scope(method='POST', path='/', headers={'Content-Type': ctype, 'Content-Length': str(len(body))})
            chunks = rnd.choice(list(chunkings(body)))
            evs = [{'type': 'http.request', 'body': c, 'more_body': i < len(chunks) - 1} for i, c in enumerate(chunks)]

            async def go():
                never = asyncio.get_running_loop().create_future()

                async def receive():
                    recv_count[0] += 1
                    if evs: return evs.pop(0)
                    await never

                async def send(m):
                    pass
                await asyncio.wait_for(app(scope, receive, send), 5)
            try:
                asyncio.run(go())
            except Exception as e:  # noqa
                outs.append(('escaped', repr(e)))
        ref = reference_outcome(body, kind)
        failed = None
        if H.calls > 1: failed = f'deserialize ran {H.calls} times'
        vals = [o for o in outs if o[0] == 'value']; excs = [o for o in outs if o[0] == 'raise']
        if len({o[1] for o in vals}) > 1: failed = failed or 'later calls returned a different object'
        if len({id(o[2]) for o in excs}) > 1 and len({o[1] for o in excs}) > 1: failed = failed or 'later calls raised a different error'
        # "re-raise the same error": what the error SAYS at the 2nd, 3rd ... access is what it said at the first (snapshots taken at each raise)
        changed_at = None
        for i_, o in enumerate(excs[1:], 2):
            dd = snap_diff(excs[0][3], o[3])
            if dd:
                changed_at = i_
                failed = failed or f'the error raised at failing access #{i_} is not the same error as at the first one: {dd}'
                break
        if len(excs) > 1: ctx.count('a_error_content_compared_over_%d_raises' % min(len(excs), 4))
        exp = []
        for s in seq:
            if ref == 'ok': exp.append('value')
            elif ref == 'nf' and s == 'd': exp.append('dflt')
            else: exp.append('raise ' + ref)
        got = [o[0] if o[0] != 'raise' else 'raise ' + o[1] for o in outs]
        if got != exp: failed = failed or f'calls answered {got}, the statement requires {exp}'
        if ref == 'ok' and vals and not eq_doc(vals[0][2], json.loads(body.decode())): failed = failed or 'deserialized document differs from the reference reading'
        if len(streamops) > 1 and any(x != streamops[0] for x in streamops[1:]): failed = failed or f'the body stream was touched after the first call: ops {streamops}'
        for o in excs:
            if o[1] in ('nf', 'mal') and not (isinstance(o[2], falcon.HTTPError) and 400 <= o[2].status_code < 500): failed = failed or 'media error is not a 400-class HTTP error'
            if o[1].startswith('EXC:'): failed = failed or f'undocumented exception {o[1]}'
        ctx.oracle('request media: parsed at most once; same object / same error; default only for not-found and not cached; stream untouched afterwards; undecodable -> 400 class',
                   failed is None, failed, {'stack': stack, 'handler': kind, 'content_type': ctype, 'body': body[:200], 'body_len': len(body), 'calls': seq,
                                            'access_made_while_handling_another_exception': nested})
        ctx.seen((stack, kind, ctype, body[:64], len(body), tuple(seq)), bool(body))
        ctx.count('ref_' + ref.split(':')[0]); ctx.count('stack_' + stack)
        # model correspondence
        sess.case({'stack': stack, 'kind': kind, 'body': body[:60], 'seq': seq})
        sess.op(f'new {"ok:0" if ref == "ok" else ref} 1', 'ok')
        first_exc = excs[0][3] if excs else None
        for s, o in zip(seq, outs):
            if o[0] == 'escaped': break
            r = 'dflt' if o[0] == 'dflt' else (f'value {o[1]}' if o[0] == 'value' else f'raise {o[1]}')
            # (the model re-raises the cached error VALUE: an error whose content is no longer that of the first raise is another value)
            if o[0] == 'raise' and snap_diff(first_exc, o[3]): r += '/content-changed:' + ','.join(snap_diff(first_exc, o[3]))
            sess.op(f'get {1 if s == "d" else 0}', f'{r} des={H.calls}')
        # JSON wrapper on the plain (non-subclassed) handler
        if kind == 'json':
            try:
                media.JSONHandler()._deserialize(body); w = 'ok:0'
            except errors.MediaNotFoundError: w = 'nf'
            except errors.MediaMalformedError: w = 'mal'
            except Exception as e:  # noqa
                w = 'oth:9'
            try:
                if body: json.loads(body.decode())
                l = 'ok:0'
            except RecursionError: l = 're'
            except ValueError: l = 've'
            sess.op(f'json {0 if body else 1} {l}', w)

    # ------------------------------------------------------------ (a3) the re-raised error is the SAME error: content at every access, and the response the client gets
    # One request, n = 2..4 accesses (media / get_media() / get_media(default_when_empty=...)), made in a middleware method, a before-hook or the responder.
    # The first k-1 failing accesses are caught by the application, the k-th one propagates to the framework: for k = 1..n the client must get the same
    # error response (default JSON / XML rendering, or an application error handler that reads title / description / __cause__ / to_dict()), and every
    # error object observed along the way must read the same as at the first raise.  Run on both stacks.
    name_a3 = ('re-raised media error: at the 1st, 2nd, 3rd ... failing access of one request (media / get_media, made in a middleware, a hook or the responder, possibly while another '
               'exception is being handled) the error raised is the same object with the same observable content (class, status, title, description, to_dict(), to_json(), headers, '
               'str, args, __cause__), and whichever access is the one that propagates, the client gets the same error response - on WSGI and ASGI')
    MAL_JSON = [b'[1,2', b'\xff\xfe', b'{"a": 1, "b" 2}', b'{"a":1}garbage', b'\xef\xbb\xbf{}', b'"\xe9"', b'9' * 5000, b'{"k": tru}', b"{'a': 1}", b'{"a": "\x01"}', b'[1,]', b'"abc', b'\x00']
    MAL_FORM = [b'a=\xe9', 'k=ü&x=1'.encode(), b'\xff', b'a=1&b=\x80\x81']
    FORM_T3 = 'application/x-www-form-urlencoded'

    def a3_run(stack, fmt, body, ctype, seq3, nested3, where, k, render, accept):
        """one request; accesses 1..k-1 are caught, from the k-th on they propagate.  -> (status, content type, body, [snapshot per raising access], [id per raising access])"""
        snaps, ids3, propagated = [], [], []
        asgi3 = stack == 'asgi'

        class CH(media.JSONHandler):
            def _fail(self, data):
                if fmt == 'custom_http': raise falcon.HTTPUnprocessableEntity(title='Unprocessable', description='cannot use this: %d bytes' % len(data)) from ValueError('inner detail of the custom handler')
                raise errors.MediaMalformedError('JSON') from ValueError('custom detail: first byte %r' % data[:1])

            def deserialize(self, stream, ct, cl):
                self._fail(stream.read())

            async def deserialize_async(self, stream, ct, cl):
                self._fail(await stream.read())

        def plan_for(stage):
            return [i for i in range(len(seq3)) if (where if i == 0 else 'responder') == stage]

        def do_sync(req, i):
            s = seq3[i]
            def acc():
                return req.get_media() if s == 'm' else (req.get_media(default_when_empty=DEF) if s == 'd' else req.media)
            try:
                if nested3[i]:
                    try:
                        raise LookupError('an unrelated failure the application is handling')
                    except LookupError:
                        acc()
                else:
                    acc()
            except Exception as e:  # noqa
                snaps.append(snap(e)); ids3.append(id(e))
                if i + 1 >= k:
                    propagated.append(len(snaps)); raise

        async def do_async(req, i):
            s = seq3[i]
            async def acc():
                return await (req.get_media() if s == 'm' else (req.get_media(default_when_empty=DEF) if s == 'd' else req.media))
            try:
                if nested3[i]:
                    try:
                        raise LookupError('an unrelated failure the application is handling')
                    except LookupError:
                        await acc()
                else:
                    await acc()
            except Exception as e:  # noqa
                snaps.append(snap(e)); ids3.append(id(e))
                if i + 1 >= k:
                    propagated.append(len(snaps)); raise

        if asgi3:
            async def hook(req, resp, resource, params):
                for i in plan_for('hook'): await do_async(req, i)

            class MW:
                async def process_request(self, req, resp):
                    for i in plan_for('mw_request'): await do_async(req, i)

                async def process_resource(self, req, resp, resource, params):
                    for i in plan_for('mw_resource'): await do_async(req, i)

            class R3:
                @falcon.before(hook)
                async def on_post(self, req, resp):
                    for i in plan_for('responder'): await do_async(req, i)
                    resp.media = {'ok': True}

            async def on_err(req, resp, ex, params, **kw):
                resp.status = ex.status
                resp.media = {'title': ex.title, 'description': ex.description, 'cause': repr(ex.__cause__), 'dict': ex.to_dict()}
            app = falcon.asgi.App(middleware=[MW()])
        else:
            def hook(req, resp, resource, params):
                for i in plan_for('hook'): do_sync(req, i)

            class MW:
                def process_request(self, req, resp):
                    for i in plan_for('mw_request'): do_sync(req, i)

                def process_resource(self, req, resp, resource, params):
                    for i in plan_for('mw_resource'): do_sync(req, i)

            class R3:
                @falcon.before(hook)
                def on_post(self, req, resp):
                    for i in plan_for('responder'): do_sync(req, i)
                    resp.media = {'ok': True}

            def on_err(req, resp, ex, params):
                resp.status = ex.status
                resp.media = {'title': ex.title, 'description': ex.description, 'cause': repr(ex.__cause__), 'dict': ex.to_dict()}
            app = falcon.App(middleware=[MW()])
        app.add_route('/', R3())
        if fmt.startswith('custom'):
            app.req_options.media_handlers['application/json'] = CH()
        if render == 'handler':
            app.add_error_handler(falcon.HTTPError, on_err)
        hdrs = {'Content-Type': ctype, 'Content-Length': str(len(body))}
        if accept: hdrs['Accept'] = accept
        out = {'body': b''}
        if not asgi3:
            env = ft.create_environ(method='POST', path='/', headers=hdrs, body=body)
            st = []
            out['body'] = b''.join(app(env, lambda sline, h, e=None: st.append((sline, h))))
            return int(st[0][0][:3]), dict((k_.lower(), v) for k_, v in st[0][1]).get('content-type'), out['body'], snaps, ids3, propagated
        scope = ft.create_scope(method='POST', path='/', headers=hdrs)
        chunks = rnd.choice(list(chunkings(body)))
        evs = [{'type': 'http.request', 'body': c, 'more_body': i < len(chunks) - 1} for i, c in enumerate(chunks)]

        async def go():
            never = asyncio.get_running_loop().create_future()

            async def receive():
                if evs: return evs.pop(0)
                await never

            async def send(m):
                if m['type'] == 'http.response.start':
                    out['status'] = m['status']; out['ct'] = {k_.decode().lower(): v.decode() for k_, v in m['headers']}.get('content-type')
                elif m['type'] == 'http.response.body':
                    out['body'] += m.get('body', b'')
            await asyncio.wait_for(app(scope, receive, send), 5)
        asyncio.run(go())
        return out['status'], out['ct'], out['body'], snaps, ids3, propagated

    for ci in range(ctx.n(220, 3000)):
        fmt = rnd.choice(['json'] * 6 + ['form'] * 2 + ['custom_http', 'custom_mal', 'empty'])
        ctype = 'application/json' if rnd.random() < 0.7 else LJ.gen_json_ctype(rnd)[0]
        if fmt == 'json':
            if rnd.random() < 0.5:
                body = rnd.choice(MAL_JSON)
            else:
                _, body = LJ.gen_invalid(rnd, ctrl=chr(ci % 32))
                if LJ.json_verdict(body) != 'invalid' or len(body) > 20000:
                    body = rnd.choice(MAL_JSON)
        elif fmt == 'form':
            body = rnd.choice(MAL_FORM); ctype = FORM_T3
        elif fmt == 'empty':
            body = b''
        else:
            body = json.dumps(gen_doc()).encode()
        n3 = rnd.randint(2, 4)
        seq3 = [rnd.choice(['m', 'm', 'p', 'p', 'd']) for _ in range(n3)]
        nested3 = [rnd.random() < 0.35 for _ in range(n3)]
        where = rnd.choice(['responder', 'responder', 'mw_request', 'mw_resource', 'hook'])
        render = rnd.choice(['default', 'default', 'handler'])
        accept = rnd.choice([None, 'application/json', 'text/xml', 'application/xml']) if render == 'default' else None
        failed = None
        per_stack = {}
        case3 = {'format': fmt, 'content_type': ctype, 'body': body[:200], 'body_len': len(body), 'accesses': seq3, 'access_made_while_handling_another_exception': nested3,
                 'first_access_in': where, 'error_rendering': render, 'accept': accept}
        for stack in ('wsgi', 'asgi'):
            runs = {}
            for k in range(1, n3 + 1):
                try:
                    runs[k] = a3_run(stack, fmt, body, ctype, seq3, nested3, where, k, render, accept)
                except Exception as e:  # noqa
                    failed = failed or f'{stack}, accesses 1..{k - 1} caught: the request raised {type(e).__name__}: {e}'
            per_stack[stack] = runs
            ref_run = None
            for k, (st3, ct3, b3, snaps, ids3, prop3) in runs.items():
                if failed: break
                if len(set(ids3)) > 1:
                    failed = f'{stack}, accesses 1..{k - 1} caught: the failing accesses raised {len(set(ids3))} different error objects'
                for j, sn in enumerate(snaps[1:], 2):
                    dd = snap_diff(snaps[0], sn)
                    if dd:
                        failed = failed or f'{stack}, accesses 1..{k - 1} caught: the error raised at failing access #{j} no longer reads like the one raised at the first: {dd}'
                        break
                if not prop3:
                    # (every failing access was caught, or answered by default_when_empty: the responder completes)
                    if st3 != 200: failed = failed or f'{stack}, accesses 1..{k - 1} caught and no later access fails: answered {st3}'
                    continue
                if ref_run is None:
                    ref_run = (k, st3, ct3, b3, snaps[0])
                    if not 400 <= st3 < 500: failed = failed or f'{stack}: a failed media access that propagates is answered {st3}'
                    continue
                k0, st0, ct0, b0, sn0 = ref_run
                dd = snap_diff(sn0, snaps[0], skip=('cause_object',))
                if dd:
                    failed = failed or f'{stack}: the same request fails differently when accesses 1..{k - 1} (instead of 1..{k0 - 1}) are caught: {dd}'
                elif (st3, ct3, b3) != (st0, ct0, b0):
                    failed = failed or (f'{stack}: when failing access #{prop3[0]} is the one that propagates the client gets {st3} {ct3} {b3[:300]!r}, '
                                        f'when failing access #{runs[k0][5][0]} propagates it gets {st0} {ct0} {b0[:300]!r}')
            if failed: break
        if failed is None:
            w_, a_ = per_stack['wsgi'], per_stack['asgi']
            for k in w_:
                if k in a_ and w_[k][5] and a_[k][5] and w_[k][:3] != a_[k][:3]:
                    failed = f'accesses 1..{k - 1} caught: WSGI answers {w_[k][0]} {w_[k][1]} {w_[k][2][:300]!r}, ASGI answers {a_[k][0]} {a_[k][1]} {a_[k][2][:300]!r}'
                    break
        ctx.oracle(name_a3, failed is None, failed, case3)
        ctx.seen(('a3', fmt, ctype, body[:200], tuple(seq3), tuple(nested3), where, render, accept), bool(body))
        ctx.count('a3_' + fmt); ctx.count('a3_first_access_in_' + where); ctx.count('a3_render_' + render)
        ctx.count('a3_accesses_%d' % n3)

    # ------------------------------------------------------------ (b) round trips
    def post_back(stack, ctype, body, chunks, handler=None):
        """Send `body` to a fresh app of the given stack and return what req.get_media() gives."""
        box = {}
        if stack == 'wsgi':
            class R:
                def on_post(self, req, resp): box['v'] = req.get_media()
            app = falcon.App(); app.add_route('/', R())
            if handler is not None: app.req_options.media_handlers['application/json'] = handler
            env = ft.create_environ(method='POST', path='/', headers={'Content-Type': ctype, 'Content-Length': str(len(body))})

            class Chunky(io.RawIOBase):
                def __init__(s): s.q = list(chunks); s.buf = b''
                def read(s, n=-1):
                    while (n is None or n < 0 or len(s.buf) < n) and s.q: s.buf += s.q.pop(0)
                    if n is None or n < 0: r, s.buf = s.buf, b''
                    else: r, s.buf = s.buf[:n], s.buf[n:]
                    return r
            env['wsgi.input'] = Chunky()
            st = []
            list(app(env, lambda s, h, e=None: st.append(s)))
            box['status'] = st[0]
        else:
            class R:
                async def on_post(self, req, resp): box['v'] = await req.get_media()
            app = falcon.asgi.App(); app.add_route('/', R())
            if handler is not None: app.req_options.media_handlers['application/json'] = handler
            scope = ft.create_scope(method='POST', path='/', headers={'Content-Type': ctype, 'Content-Length': str(len(body))})
            evs = [{'type': 'http.request', 'body': c, 'more_body': i < len(chunks) - 1} for i, c in enumerate(chunks)]

            async def go():
                never = asyncio.get_running_loop().create_future()

                async def receive():
                    if evs: return evs.pop(0)
                    await never

                async def send(m):
                    if m['type'] == 'http.response.start': box['status'] = str(m['status'])
                await asyncio.wait_for(app(scope, receive, send), 5)
            asyncio.run(go())
        return box

    # ------------------------------------------------------------ (a2) a body that is not a JSON text is answered 400, by whole apps
    # Bodies with one well-aimed defect of every kind (lib_json.gen_invalid; every control character U+0000..U+001F raw inside a string value / key),
    # kept when the independent RFC 8259 recognizer says "not JSON"; stock / subclassed / explicitly configured handler, any chunking, content types with parameters.
    name_a2 = 'a non-empty body that is not a JSON text (RFC 8259 grammar, UTF-8) is answered with the 400-class malformed-media error: not parsed, no server error'
    for ci in range(ctx.n(1000, 10000)):
        ikind, body = LJ.gen_invalid(rnd, ctrl=chr((ci * 7 + ctx.shard[0]) % 32))
        verdict = LJ.json_verdict(body)
        if verdict != 'invalid':
            ctx.count('notjson_generated_but_' + verdict); continue
        ctx.count('notjson_' + ikind)
        stack = rnd.choice(['wsgi', 'asgi'])
        hvar = rnd.choice(['stock', 'stock', 'stock', 'subclass', 'explicit_loads'])
        handler = (None if hvar == 'stock' else type('MyJSONHandler', (media.JSONHandler,), {})() if hvar == 'subclass'
                   else media.JSONHandler(dumps=json.dumps, loads=json.loads))
        ctype = 'application/json' if rnd.random() < 0.6 else LJ.gen_json_ctype(rnd)[0]
        chunks = rnd.choice(list(chunkings(body)))
        failed = None
        try:
            box = post_back(stack, ctype, body, chunks, handler)
            if 'v' in box: failed = f'the body was accepted and parsed to {box["v"]!r} (status {box.get("status")})'
            elif not str(box.get('status', '')).startswith('400'): failed = f'answered {box.get("status")}, not 400'
        except Exception as e:  # noqa
            failed = f'{type(e).__name__}: {e}'
        # the handler object itself
        if failed is None:
            try:
                v = (handler or media.JSONHandler()).deserialize(io.BytesIO(body), ctype, len(body))
                failed = f'JSONHandler.deserialize returned {v!r}'
            except errors.MediaMalformedError as e:
                if not 400 <= e.status_code < 500: failed = f'MediaMalformedError with status {e.status}'
            except Exception as e:  # noqa
                failed = f'JSONHandler.deserialize raised {type(e).__name__}: {e}'
        ctx.oracle(name_a2, failed is None, failed, {'body': body[:300], 'body_len': len(body), 'defect': ikind, 'stack': stack, 'content_type': ctype, 'json_handler': hvar,
                                                     'chunks': len(chunks)})
        ctx.seen(('a2', body[:200], stack, hvar), True)

    for ci in range(ctx.n(400, 5000)):
        form = rnd.random() < 0.3
        if form:
            doc = {}
            for _ in range(rnd.randint(0, 4)):
                k = ''.join(rnd.choice('ab &=+%,\xe9\U0001f600') for _ in range(rnd.randint(1, 4)))
                v = ''.join(rnd.choice('xy &=+%\xe9€') for _ in range(rnd.randint(1, 5)))
                doc[k] = v if rnd.random() < 0.7 else [v, ''.join(rnd.choice('pq &%') for _ in range(rnd.randint(1, 3)))]
            ctype = 'application/x-www-form-urlencoded'
        else:
            doc = gen_doc() if rnd.random() < 0.5 else LJ.gen_text_doc(rnd)
            ctype, cclass = LJ.gen_json_ctype(rnd)
            ctx.count('roundtrip_ctype_' + cclass)
        stack_out = rnd.choice(['wsgi', 'asgi']); stack_in = rnd.choice(['wsgi', 'asgi'])
        hvar = 'stock' if form else rnd.choice(['stock', 'stock', 'subclass', 'explicit_dumps'])

        def new_resp(stack):
            r_ = (falcon.Response if stack == 'wsgi' else falcon.asgi.Response)()
            if hvar == 'subclass':
                r_.options.media_handlers['application/json'] = type('MyJSONHandler', (media.JSONHandler,), {})()
            elif hvar == 'explicit_dumps':
                r_.options.media_handlers['application/json'] = media.JSONHandler(dumps=json.dumps, loads=json.loads)
            r_.content_type = ctype
            return r_
        resp = new_resp(stack_out)
        failed = None
        def render_early(r_, stack):
            nonlocal failed
            try:
                return r_.render_body() if stack == 'wsgi' else asyncio.run(r_.render_body())
            except Exception as e:  # noqa
                failed = failed or f'render_body (of the draft) raised {type(e).__name__}: {e}'
        if isinstance(doc, (dict, list)) and rnd.random() < 0.35:
            # history: assign, render early (e.g. for an ETag), change the document in place, assign it again
            ctx.count('roundtrip_reassigned_same_object')
            if form:
                draft = dict(doc); draft['draft'] = 'x'
                live = draft; resp.media = live
                early = render_early(resp, stack_out)
                live.clear(); live.update(doc)
            elif isinstance(doc, dict):
                live = dict(doc); live['__draft__'] = 1; resp.media = live
                early = render_early(resp, stack_out)
                del live['__draft__']
            else:
                live = list(doc) + ['draft']; resp.media = live
                early = render_early(resp, stack_out)
                live.pop()
            resp.media = live
        else:
            resp.media = doc
        try:
            body = resp.render_body() if stack_out == 'wsgi' else asyncio.run(resp.render_body())
            body2 = resp.render_body() if stack_out == 'wsgi' else asyncio.run(resp.render_body())
            if body is not body2 and body != body2: failed = 'render_body() gave different bytes on the second call'
        except Exception as e:  # noqa
            body = None; failed = f'render_body raised {type(e).__name__}: {e}'
        if body is not None and not form:
            # JSON text on the wire is UTF-8 whatever the parameters of the content type say (RFC 8259 8.1), and it is the document
            try:
                if not eq_doc(json.loads(body.decode('utf-8')), doc): failed = failed or f'the rendered body {body[:60]!r} is not the document'
            except ValueError as e:
                failed = failed or f'the rendered body {body[:60]!r} is not UTF-8 encoded JSON: {type(e).__name__}'
            # ... on WSGI and ASGI alike: the other stack's Response renders the same document to the same bytes
            other = 'asgi' if stack_out == 'wsgi' else 'wsgi'
            try:
                r2_ = new_resp(other); r2_.media = doc
                b2_ = r2_.render_body() if other == 'wsgi' else asyncio.run(r2_.render_body())
                if b2_ != body: failed = failed or f'{stack_out} renders {body[:60]!r}, {other} renders {b2_[:60]!r}'
            except Exception as e:  # noqa
                failed = failed or f'render_body on {other} raised {type(e).__name__}: {e}'
        if body is not None:
            for chunks in chunkings(body):
                box = post_back(stack_in, ctype, body, chunks)
                if 'v' not in box: failed = failed or f'posting the rendered body back answered {box.get("status")}'
                elif form:
                    got = box['v']
                    if got != doc: failed = failed or f'form came back as {got!r}'
                elif not eq_doc(box['v'], doc): failed = failed or f'document came back as {box["v"]!r}'
                if failed: break
        ctx.oracle('round trip: media serialized by the response deserializes to an equal document (WSGI/ASGI, every chunking class)', failed is None, failed,
                   {'document': doc, 'content_type': ctype, 'render_stack': stack_out, 'parse_stack': stack_in, 'json_handler': hvar})
        ctx.seen(('rt', repr(doc), ctype, stack_out, stack_in), True)
        ctx.count('roundtrip_form' if form else 'roundtrip_json')
        # render cache vs model
        sess.case({'render': True})
        class CH(media.BaseHandler):
            n = 0
            def serialize(self, m, ct=None):
                CH.n += 1; return bytes([m])
            def deserialize(self, stream, ct, cl):
                return None
        r2 = falcon.Response(); r2.options.media_handlers['application/json'] = CH()
        sess.op('rnew', 'ok')
        script = [rnd.choice(['set', 'render', 'render']) for _ in range(rnd.randint(1, 6))]
        for op in script:
            if op == 'set':
                m = rnd.choice([None, 1, 2, 3]); r2.media = m; sess.op(f'rset {"none" if m is None else m}', 'ok')
            else:
                d = r2.render_body(); sess.op('render', ('none' if d is None else f'some {list(d)}') + f' ser={CH.n}')
    

    # ------------------------------------------------------------ (b2) round trips through whole apps, request after request
    # The document is served by a responder of a real app (built through a public constructor, optionally with do-nothing
    # request_type= / response_type= subclasses), the bytes sent are posted back to an app of either stack whose responder
    # CHANGES the parsed document in place (it owns it), and then the same bytes are posted again: every request must see a
    # fresh, equal document - nothing survives from one request to the next.
    import copy

    def build(stack, custom):
        kw = {}
        if stack == 'wsgi':
            if custom in ('resp', 'both'): kw['response_type'] = type('MyResp', (falcon.Response,), {})
            if custom in ('req', 'both'): kw['request_type'] = type('MyReq', (falcon.Request,), {})
            ctor = falcon.API if custom == 'alias' else falcon.App
        else:
            if custom in ('resp', 'both'): kw['response_type'] = type('MyResp', (falcon.asgi.Response,), {})
            if custom in ('req', 'both'): kw['request_type'] = type('MyReq', (falcon.asgi.Request,), {})
            ctor = falcon.asgi.App
        import warnings
        with warnings.catch_warnings():
            warnings.simplefilter('ignore')          # (falcon.API is deprecated, and still public)
            return ctor(**kw)

    def serve(stack, app, method, ctype=None, body=b''):
        """one request through the whole app; returns (status code, response headers, payload)"""
        out = {'body': b''}
        hdrs = {'Content-Type': ctype, 'Content-Length': str(len(body))} if ctype else {}
        if stack == 'wsgi':
            env = ft.create_environ(method=method, path='/', headers=hdrs, body=body)
            st = []
            it = app(env, lambda sline, h, e=None: st.append((sline, h)))
            out['body'] = b''.join(it)
            return int(st[0][0][:3]), dict((k.lower(), v) for k, v in st[0][1]), out['body']
        scope = ft.create_scope(method=method, path='/', headers=hdrs)
        evs = [{'type': 'http.request', 'body': body, 'more_body': False}]

        async def go():
            never = asyncio.get_running_loop().create_future()

            async def receive():
                if evs: return evs.pop(0)
                await never

            async def send(m):
                if m['type'] == 'http.response.start':
                    out['status'] = m['status']; out['headers'] = {k.decode().lower(): v.decode() for k, v in m['headers']}
                elif m['type'] == 'http.response.body':
                    out['body'] += m.get('body', b'')
            await asyncio.wait_for(app(scope, receive, send), 5)
        asyncio.run(go())
        return out['status'], out['headers'], out['body']

    def mutate(v):
        """what a responder that owns its parsed document may do to it"""
        if isinstance(v, dict):
            for k in list(v):
                mutate(v[k])
            v['__touched__'] = True
            if len(v) > 1: v.pop(next(iter(v)))
        elif isinstance(v, list):
            for x in v:
                mutate(x)
            v.append('__touched__')
            if len(v) > 1: v.pop(0)

    FALSY = [[], {}, 0, 0.0, False, '', [[]], [{}], {'': ''}, [0], [False], [None], {'a': []}]

    # how the media handlers of the two apps are constructed: every documented constructor option, str- and bytes-returning
    # dumps functions, do-nothing subclasses (they switch the internal fast paths off), and subclasses that override only the
    # sync or only the async half (the override must be what runs on its stack)
    def make_media_handler(fmt, variant, calls):
        if fmt == 'json':
            kw = {}
            if variant in ('explicit', 'sub_explicit'):
                kw = {'dumps': json.dumps, 'loads': json.loads}
            elif variant in ('bytes_dumps', 'sub_bytes_dumps'):
                kw = {'dumps': lambda o: json.dumps(o).encode('utf-8'), 'loads': json.loads}      # an orjson-style dumps
            elif variant == 'compact':
                kw = {'dumps': lambda o: json.dumps(o, separators=(',', ':'), ensure_ascii=False)}
            base = media.JSONHandler
        else:
            kw = {'keep_blank': True, 'csv': variant in ('csv', 'sub_csv')}
            if variant == 'defaults':
                kw = {}
            base = media.URLEncodedFormHandler
        if variant.startswith('sub_') or variant in ('sub', 'async_only', 'sync_only'):
            ns = {}
            if variant == 'async_only':
                async def deserialize_async(self, stream, content_type, content_length):
                    calls.append('deserialize_async'); return await base.deserialize_async(self, stream, content_type, content_length)

                async def serialize_async(self, m, content_type=None):
                    calls.append('serialize_async'); return await base.serialize_async(self, m, content_type)
                ns = {'deserialize_async': deserialize_async, 'serialize_async': serialize_async}
            elif variant == 'sync_only':
                def deserialize(self, stream, content_type, content_length):
                    calls.append('deserialize'); return base.deserialize(self, stream, content_type, content_length)

                def serialize(self, m, content_type=None):
                    calls.append('serialize'); return base.serialize(self, m, content_type)
                ns = {'deserialize': deserialize, 'serialize': serialize}
            return type('My' + base.__name__, (base,), ns)(**kw)
        return base(**kw)
    JSON_VARIANTS = ['stock', 'stock', 'explicit', 'bytes_dumps', 'compact', 'sub', 'sub_explicit', 'sub_bytes_dumps', 'async_only', 'sync_only']
    FORM_VARIANTS = ['defaults', 'blank', 'csv', 'sub', 'sub_csv', 'async_only', 'sync_only']
    FORM_T = 'application/x-www-form-urlencoded'
    name_b2 = 'full-stack round trip: the document a responder serves is the document a responder receives, for every app construction, request after request (nothing shared between requests)'
    for ci in range(ctx.n(250, 4000)):
        fmt = 'form' if rnd.random() < 0.3 else 'json'
        if fmt == 'form':
            doc = {}
            for _ in range(rnd.randint(0, 4)):
                k = ''.join(rnd.choice('ab &=+%,\xe9') for _ in range(rnd.randint(1, 4)))
                v = ''.join(rnd.choice('xy &=+%,;\xe9€') for _ in range(rnd.randint(1, 6)))
                doc[k] = v if rnd.random() < 0.7 else [v, ''.join(rnd.choice('pq, &%') for _ in range(rnd.randint(1, 4)))]
        else:
            doc = copy.deepcopy(rnd.choice(FALSY)) if rnd.random() < 0.4 else gen_doc()
            if doc is None:
                doc = [None]
        h_out, h_in = (rnd.choice(FORM_VARIANTS if fmt == 'form' else JSON_VARIANTS) for _ in range(2))
        if fmt == 'form' and (('csv' in h_out) != ('csv' in h_in)):
            h_in = h_out            # (a comma-split reading of a form written without comma splitting is a different document)
        hcalls_out, hcalls_in = [], []
        s_out, s_in = rnd.choice(['wsgi', 'asgi']), rnd.choice(['wsgi', 'asgi'])
        c_out, c_in = rnd.choice(['plain', 'plain', 'resp', 'req', 'both', 'alias']), rnd.choice(['plain', 'plain', 'resp', 'req', 'both', 'alias'])
        served = copy.deepcopy(doc)
        # the content type the responder announces: none (the default), or JSON with parameters (charset in every spelling, other parameters)
        rct = None
        if fmt == 'json' and rnd.random() < 0.6:
            rct, cclass = LJ.gen_json_ctype(rnd)
            ctx.count('fullstack_ctype_' + cclass)
            if rnd.random() < 0.6:
                doc = LJ.gen_text_doc(rnd); served = copy.deepcopy(doc)
        if s_out == 'wsgi':
            class G:
                def on_get(self, req, resp):
                    resp.media = served
                    if rct is not None: resp.content_type = rct
        else:
            class G:
                async def on_get(self, req, resp):
                    resp.media = served
                    if rct is not None: resp.content_type = rct
        seen_docs = []
        if s_in == 'wsgi':
            class P:
                def on_post(self, req, resp):
                    v = req.get_media(); seen_docs.append(copy.deepcopy(v)); mutate(v); resp.media = {'ok': True}
        else:
            class P:
                async def on_post(self, req, resp):
                    v = await req.get_media(); seen_docs.append(copy.deepcopy(v)); mutate(v); resp.media = {'ok': True}
        failed = None
        case = {'document': doc, 'format': fmt, 'serving_app': f'{s_out}/{c_out}', 'receiving_app': f'{s_in}/{c_in}',
                'serving_handler': h_out, 'receiving_handler': h_in, 'response_content_type': rct}
        ctype_b2 = FORM_T if fmt == 'form' else 'application/json'
        try:
            a_out = build(s_out, c_out); a_out.add_route('/', G())
            a_in = build(s_in, c_in); a_in.add_route('/', P())
            if fmt == 'form':
                a_out.resp_options.default_media_type = FORM_T
            if not (fmt == 'json' and h_out == 'stock'):
                a_out.resp_options.media_handlers[ctype_b2] = make_media_handler(fmt, h_out, hcalls_out)
            if not (fmt == 'json' and h_in == 'stock'):
                a_in.req_options.media_handlers[ctype_b2] = make_media_handler(fmt, h_in, hcalls_in)
            st, hd, body = serve(s_out, a_out, 'GET')
            if st != 200: failed = f'serving the document answered {st}'
            elif hd.get('content-length') not in (None, str(len(body))): failed = f'Content-Length {hd.get("content-length")} for {len(body)} bytes'
            elif rct is not None and hd.get('content-type') != rct: failed = f'the responder set Content-Type {rct!r}, the response carries {hd.get("content-type")!r}'
            elif fmt == 'json':
                try:
                    if not eq_doc(json.loads(body.decode('utf-8')), doc): failed = f'the body sent {body[:60]!r} is not the document'
                except Exception as e:  # noqa
                    failed = f'the body sent {body[:60]!r} does not decode: {type(e).__name__}'
            # a handler that overrides one half must have that half run on its stack (sync on WSGI, async on ASGI)
            # (form handler only: JSONHandler installs its (de)serializers as instance attributes in __init__, which shadow methods a
            #  subclass defines - documented customisation of JSON goes through dumps= / loads=; not part of this property)
            want_out = {('async_only', 'asgi'): 'serialize_async', ('sync_only', 'wsgi'): 'serialize'}.get((h_out, s_out)) if fmt == 'form' else None
            if failed is None and want_out and hcalls_out.count(want_out) != 1:
                failed = f'the serving handler overrides {want_out}() but it ran {hcalls_out.count(want_out)} times (calls: {hcalls_out})'
            if failed is None:
                n_posts = rnd.choice([2, 2, 3])
                for k in range(n_posts):
                    # a second app of the other stack takes one of the later requests: the sharing, if any, is process-wide
                    if k == n_posts - 1 and rnd.random() < 0.3:
                        other = 'asgi' if s_in == 'wsgi' else 'wsgi'
                        a2 = build(other, 'plain')
                        if other == 'wsgi':
                            class P2:
                                def on_post(self, req, resp): seen_docs.append(copy.deepcopy(req.get_media()))
                        else:
                            class P2:
                                async def on_post(self, req, resp): seen_docs.append(copy.deepcopy(await req.get_media()))
                        a2.add_route('/', P2())
                        if not (fmt == 'json' and h_in == 'stock'):
                            a2.req_options.media_handlers[ctype_b2] = make_media_handler(fmt, h_in, [])
                        stp, _, _ = serve(other, a2, 'POST', hd.get('content-type', 'application/json'), body)
                    else:
                        stp, _, _ = serve(s_in, a_in, 'POST', hd.get('content-type', 'application/json'), body)
                    if stp != 200: failed = f'request #{k + 1} posting the served bytes back answered {stp}'; break
                    if len(seen_docs) != k + 1: failed = f'request #{k + 1}: the responder did not get a document'; break
                    if not eq_doc(seen_docs[k], doc):
                        failed = f'request #{k + 1} received {seen_docs[k]!r}' + (' (the document as changed by the responder of an earlier request)' if k else ''); break
            want_in = {('async_only', 'asgi'): 'deserialize_async', ('sync_only', 'wsgi'): 'deserialize'}.get((h_in, s_in)) if fmt == 'form' else None
            if failed is None and want_in and hcalls_in.count(want_in) < 1:
                failed = f'the receiving handler overrides {want_in}() but it never ran (calls: {hcalls_in})'
        except Exception as e:  # noqa
            failed = f'{type(e).__name__}: {e}'
        ctx.count(f'fullstack_{fmt}_handler_' + h_out)
        ctx.oracle(name_b2, failed is None, failed, case)
        ctx.seen(('b2', repr(doc), s_out, c_out, s_in, c_in), True)
        ctx.count('fullstack_roundtrip_' + ('falsy' if not doc else 'doc'))
        ctx.count('fullstack_app_' + c_out)

    # ------------------------------------------------------------ (b3) handler INTERFACE SHAPE x request FRAMING
    # An application's own media handler (a BaseHandler subclass for a vendor / +json type) implements only the sync pair, only the async
    # pair, or both; its deserializer reads the body (i) ignoring content_length, (ii) the way each interface documents it - sync:
    # stream.read(content_length or 0); async: read(content_length) when it is given, read() when it is None - or (iii) reading everything
    # and refusing when a GIVEN content_length is not the number of bytes read.  The served bytes come back as a request WITH a
    # Content-Length header, WITHOUT one (ASGI: the scope is built without the header and the body comes in http.request events, i.e. a
    # chunked upload; WSGI: a request without the header has no body), or with an empty body, under every chunking class, on both stacks.
    # Oracle (the statement): the document the handler serialized is what get_media() / media return (same object at every access),
    # the handler parsed at most once; an empty body gives what the handler documents (not-found, or the caller's default).
    # The access history also goes to the Mc model.
    VND_TYPES = ['application/vnd.acme.doc+json', 'application/x-doc', 'application/vnd.acme.v2+json', 'text/x-doc']
    SHAPES = ['sync_only', 'async_only', 'both']
    USES = ['ignore', 'documented', 'guard']

    def make_shape_handler(shape, use, exhaust, log):
        def parse(data):
            if not data: raise errors.MediaNotFoundError('DOC')
            try:
                return json.loads(data.decode('utf-8'))
            except ValueError as e:
                raise errors.MediaMalformedError('DOC') from e

        def serialize(self, m, content_type=None):
            log.append(('serialize', None)); return json.dumps(m, ensure_ascii=False).encode('utf-8')

        async def serialize_async(self, m, content_type=None):
            log.append(('serialize_async', None)); return json.dumps(m, ensure_ascii=False).encode('utf-8')

        def deserialize(self, stream, content_type, content_length):
            log.append(('deserialize', content_length))
            if use == 'documented': data = stream.read(content_length or 0)
            else: data = stream.read()
            if use == 'guard' and content_length is not None and content_length != len(data):
                raise errors.MediaMalformedError('DOC') from ValueError(f'content_length={content_length} for {len(data)} bytes')
            return parse(data)

        async def deserialize_async(self, stream, content_type, content_length):
            log.append(('deserialize_async', content_length))
            if use == 'documented' and content_length is not None: data = await stream.read(content_length)
            else: data = await stream.read()
            if use == 'guard' and content_length is not None and content_length != len(data):
                raise errors.MediaMalformedError('DOC') from ValueError(f'content_length={content_length} for {len(data)} bytes')
            return parse(data)
        ns = {'exhaust_stream': exhaust}
        if shape in ('sync_only', 'both'): ns.update(serialize=serialize, deserialize=deserialize)
        if shape in ('async_only', 'both'): ns.update(serialize_async=serialize_async, deserialize_async=deserialize_async)
        return type('DocHandler_' + shape, (media.BaseHandler,), ns)()

    def post_framed(stack, app, ctype, body, framing, chunks):
        """one POST through the whole app with the given framing; returns the status code"""
        hdrs = {'Content-Type': ctype}
        if framing == 'cl': hdrs['Content-Length'] = str(len(body))
        if stack == 'wsgi':
            env = ft.create_environ(method='POST', path='/', headers=hdrs)
            env['wsgi.input'] = io.BytesIO(body)
            if framing == 'cl': env['CONTENT_LENGTH'] = str(len(body))
            else: env.pop('CONTENT_LENGTH', None)
            st = []
            b''.join(app(env, lambda sline, h, e=None: st.append(sline)))
            return int(st[0][:3])
        scope = ft.create_scope(method='POST', path='/', headers=hdrs)
        scope['headers'] = [tuple(h) for h in scope['headers']]          # (create_scope hands out one-shot iterators)
        has_cl = any(k.lower() == b'content-length' for k, _ in scope['headers'])
        assert has_cl == (framing == 'cl'), 'harness: scope framing'
        evs = [{'type': 'http.request', 'body': c, 'more_body': i < len(chunks) - 1} for i, c in enumerate(chunks)]
        out = {}

        async def go():
            never = asyncio.get_running_loop().create_future()

            async def receive():
                if evs: return evs.pop(0)
                await never

            async def send(m):
                if m['type'] == 'http.response.start': out['status'] = m['status']
            await asyncio.wait_for(app(scope, receive, send), 5)
        asyncio.run(go())
        return out['status']

    name_b3 = ('custom handler round trip: the document an application media handler (sync pair only / async pair only / both; using its content_length argument or not) serialized is the '
               'document get_media() / media return - with, without a Content-Length header, with an empty body, every chunking class, both stacks - parsed at most once')
    DIRECTED3 = [(sh, us, st_, fr) for sh in SHAPES for us in USES for st_ in ('wsgi', 'asgi') for fr in ('cl', 'nocl', 'empty_cl', 'empty_nocl')
                 if not (sh == 'async_only' and st_ == 'wsgi') and not (st_ == 'wsgi' and fr == 'nocl')]
    DIRECTED3 = [d for j, d in enumerate(DIRECTED3) if j % ctx.shard[1] == ctx.shard[0]]
    for ci in range(len(DIRECTED3) + ctx.n(120, 2500)):
        if ci < len(DIRECTED3):
            h_in, use, s_in, fr = DIRECTED3[ci]
        else:
            s_in = rnd.choice(['wsgi', 'asgi', 'asgi'])
            h_in = rnd.choice(SHAPES if s_in == 'asgi' else ['sync_only', 'both'])
            use = rnd.choice(USES)
            fr = rnd.choice(['cl', 'nocl', 'nocl', 'empty_cl', 'empty_nocl'] if s_in == 'asgi' else ['cl', 'cl', 'empty_cl', 'empty_nocl'])
        s_out = rnd.choice(['wsgi', 'asgi'])
        h_out = rnd.choice(SHAPES if s_out == 'asgi' else ['sync_only', 'both'])
        exhaust = rnd.random() < 0.3
        vtype = rnd.choice(VND_TYPES)
        rtype = vtype + rnd.choice(['', '', '; v=2', '; charset=utf-8'])
        doc = copy.deepcopy(rnd.choice(FALSY)) if rnd.random() < 0.25 else (LJ.gen_text_doc(rnd) if rnd.random() < 0.3 else gen_doc())
        if doc is None: doc = [None]
        served = copy.deepcopy(doc)
        seq3 = [rnd.choice(['m', 'd', 'p']) for _ in range(rnd.randint(1, 4))]
        DEF3 = rnd.choice([None, {}, [], 0, '', False, object()]) if fr.startswith('empty') else object()
        log_out, log_in = [], []
        outs3 = []; ids3 = {}; chunks = []
        if s_out == 'wsgi':
            class G3:
                def on_get(self, req, resp):
                    resp.content_type = rtype; resp.media = served
        else:
            class G3:
                async def on_get(self, req, resp):
                    resp.content_type = rtype; resp.media = served

        def rec3(v):
            outs3.append((('dflt',) if v is DEF3 else ('value', ids3.setdefault(id(v), len(ids3)), copy.deepcopy(v))) + (len([1 for x in log_in if x[0].startswith('deserialize')]),))

        def rec3e(e):
            outs3.append(('raise', exc_tag(e), e, len([1 for x in log_in if x[0].startswith('deserialize')])))
        if s_in == 'wsgi':
            class P3:
                def on_post(self, req, resp):
                    for s in seq3:
                        try:
                            rec3(req.get_media() if s == 'm' else (req.get_media(default_when_empty=DEF3) if s == 'd' else req.media))
                        except Exception as e:  # noqa
                            rec3e(e)
        else:
            class P3:
                async def on_post(self, req, resp):
                    for s in seq3:
                        try:
                            rec3(await (req.get_media() if s == 'm' else (req.get_media(default_when_empty=DEF3) if s == 'd' else req.media)))
                        except Exception as e:  # noqa
                            rec3e(e)
        failed = None
        framing_body = not fr.startswith('empty')
        case = {'document': doc, 'content_type': rtype, 'serving_app': s_out, 'serving_handler_implements': h_out, 'receiving_app': s_in, 'receiving_handler_implements': h_in,
                'receiving_handler_uses_content_length': use, 'exhaust_stream': exhaust, 'request_framing': fr, 'accesses': seq3}
        try:
            a_out = build(s_out, 'plain'); a_out.add_route('/', G3())
            a_out.resp_options.media_handlers[vtype] = make_shape_handler(h_out, 'ignore', False, log_out)
            a_in = build(s_in, 'plain'); a_in.add_route('/', P3())
            a_in.req_options.media_handlers[vtype] = make_shape_handler(h_in, use, exhaust, log_in)
            st, hd, body = serve(s_out, a_out, 'GET')
            if st != 200: failed = f'serving the document answered {st}'
            elif hd.get('content-type') != rtype: failed = f'the responder set Content-Type {rtype!r}, the response carries {hd.get("content-type")!r}'
            elif len(log_out) != 1: failed = f'the serving handler serialized {len(log_out)} times ({log_out})'
            else:
                try:
                    if not eq_doc(json.loads(body.decode('utf-8')), doc): failed = f'the body sent {body[:60]!r} is not what the handler serialized'
                except Exception as e:  # noqa
                    failed = f'the body sent {body[:60]!r} does not decode: {type(e).__name__}'
            if failed is None:
                sent = body if framing_body else b''
                framing = 'cl' if fr in ('cl', 'empty_cl') else 'nocl'
                chunks = rnd.choice(list(chunkings(sent))) if sent else rnd.choice([[b''], [b'', b''], [b'', b'', b'']])
                case['request_body'] = sent[:200]; case['request_body_len'] = len(sent)
                case['events'] = [len(c) for c in chunks] if s_in == 'asgi' else None
                stp = post_framed(s_in, a_in, hd['content-type'], sent, framing, chunks)
                des_calls = [x for x in log_in if x[0].startswith('deserialize')]
                case['content_length_seen_by_the_handler'] = [x[1] for x in des_calls]
                got = [o[0] if o[0] != 'raise' else 'raise ' + o[1] for o in outs3]
                if framing_body:
                    exp = ['value'] * len(seq3)
                else:
                    exp = ['dflt' if s == 'd' else 'raise nf' for s in seq3]
                vals = [o for o in outs3 if o[0] == 'value']
                if stp != 200: failed = f'posting the served bytes back answered {stp}'
                elif got != exp: failed = f'accesses answered {got}, the statement requires {exp}'
                elif vals and not all(eq_doc(o[2], doc) for o in vals): failed = f'received {vals[0][2]!r}'
                elif len({o[1] for o in vals}) > 1: failed = 'later accesses returned a different object'
                elif len(des_calls) > 1: failed = f'the handler deserialized {len(des_calls)} times ({des_calls})'
                elif framing_body and len(des_calls) != 1: failed = f'the handler deserialized {len(des_calls)} times'
                else:
                    want = 'deserialize' if (s_in == 'wsgi' or h_in == 'sync_only') else 'deserialize_async'
                    if des_calls and des_calls[0][0] != want: failed = f'{des_calls[0][0]}() ran on {s_in} for a handler implementing {h_in} (expected {want}())'
                # model correspondence: the access history against Mc.getMedia
                sess.case({'b3': True, 'stack': s_in, 'shape': h_in, 'use': use, 'framing': fr, 'seq': seq3})
                sess.op(f'new {"ok:0" if framing_body else "nf"} {1 if exhaust else 0}', 'ok')
                for s, o in zip(seq3, outs3):
                    r = 'dflt' if o[0] == 'dflt' else (f'value {o[1]}' if o[0] == 'value' else f'raise {o[1]}')
                    sess.op(f'get {1 if s == "d" else 0}', f'{r} des={o[-1]}')
        except Exception as e:  # noqa
            failed = f'{type(e).__name__}: {e}'
        ctx.oracle(name_b3, failed is None, failed, case)
        ctx.seen(('b3', repr(doc), s_out, h_out, s_in, h_in, use, fr, tuple(seq3)), framing_body)
        ctx.count(f'shape_{h_in}_on_{s_in}_framing_{fr}'); ctx.count('shape_uses_content_length_' + use)
        ctx.count('shape_serving_' + h_out + '_on_' + s_out)
        if s_in == 'asgi' and fr == 'nocl': ctx.count('shape_asgi_headerless_events_%s' % ('1' if len(chunks) == 1 else 'many'))

    # ------------------------------------------------------------ (c) the JSON text format of the default handler vs the Js model
    from runner import hx, alarm, Hang
    js = ctx.session('JSONHandler.serialize / deserialize = Js model (dumps / loads, byte level)', 'jsdriver')
    jh = media.JSONHandler()
    for ci in range(ctx.n(1200, 15000)):
        doc = LJ.gen_doc_nf(rnd)
        failed = None
        try:
            data = jh.serialize(doc, 'application/json')
        except Exception as e:  # noqa
            data = None; failed = f'serialize raised {type(e).__name__}: {e}'
        if data is not None:
            try:
                back = jh.deserialize(io.BytesIO(data), 'application/json', len(data))
                if not eq_doc(back, doc): failed = f'document came back as {back!r}'
            except Exception as e:  # noqa
                failed = f'deserialize raised {type(e).__name__}: {e}'
        ctx.oracle('handler round trip: JSONHandler.deserialize(JSONHandler.serialize(d)) == d (float-free documents)', failed is None, failed, {'document': doc, 'body': data})
        ctx.seen(('jsd', repr(doc)), True); ctx.count('js_dumps')
        if data is not None:
            js.case({'dumps': doc if len(repr(doc)) < 300 else repr(doc)[:300]})
            js.op('dumps ' + LJ.enc_doc(doc), hx(data))

    def real_des(b):
        """what JSONHandler.deserialize answers for the body `b` in the driver's format: 'ok <doc>' | 'nf' | 'mal'; None = the value is outside the modelled document type"""
        try:
            v = jh.deserialize(io.BytesIO(b), 'application/json', len(b))
        except errors.MediaNotFoundError:
            return 'nf'
        except errors.MediaMalformedError:
            return 'mal'
        except Exception as e:  # noqa
            return 'EXC:' + type(e).__name__
        try:
            why = LJ.outside_reason(b.decode())
        except ValueError:
            why = None                   # the handler accepted a body that is not UTF-8 / not JSON: the model will disagree
        if why:
            ctx.count('js_des_outside_' + why); return None
        try:
            return 'ok ' + LJ.enc_doc(v)
        except LJ.Outside:
            return 'ok ?'
    texts = []
    if ctx.shard[0] == 0:
        texts += [t.encode('utf-8', 'surrogatepass') for t in LJ.EDGE_TEXTS]
    for ci in range(ctx.n(1600, 20000)):
        t = LJ.render_text(rnd, LJ.gen_doc_nf(rnd))
        r = rnd.random()
        if r >= 0.4: t = LJ.edit_text(rnd, t)
        if r >= 0.9: t = LJ.edit_text(rnd, t)
        b = t.encode()
        if rnd.random() < 0.05:
            k = rnd.randrange(len(b) + 1); b = b[:k] + rnd.choice(LJ.BAD_UTF8) + b[k + rnd.randrange(2):]
        texts.append(b)
    for ci in range(ctx.n(1000, 10000)):
        ikind, b = LJ.gen_invalid(rnd, ctrl=chr((ci * 11 + ctx.shard[0]) % 32))
        ctx.count('js_des_defect_' + ikind)
        texts.append(b)
    texts.append(b'')
    name_c = 'JSONHandler.deserialize: a non-empty body that is not a JSON text (RFC 8259 grammar, UTF-8; lib_json.rfc8259) raises MediaMalformedError'
    for b in texts:
        verdict = LJ.json_verdict(b)
        e = real_des(b)
        ctx.count('js_text_verdict_' + verdict)
        if verdict == 'invalid':
            ctx.oracle(name_c, e == 'mal', None if e == 'mal' else f'deserialize answered {"a value" if e is None else e[:80]!r}', {'body': b[:300], 'body_len': len(b)})
        ctx.seen(('jsl', b), bool(b))
        if e is None: continue
        ctx.count('js_des_' + e.split(' ')[0])
        js.case({'deserialize': b[:300]})
        js.op('des ' + hx(b), e)
        if e != 'nf':
            js.op('loads ' + hx(b), 'none' if e == 'mal' else 'some' + e[2:])
    js.finish()
    sess.finish()

    # ------------------------------------------------------------ (d) URLEncodedFormHandler vs the Uf model (urlencode / parse_query_string)
    uf = ctx.session('URLEncodedFormHandler.serialize / deserialize = Uf model (quote_plus fields joined by "&"; ascii check + Qs.parseQS)', 'ufdriver')
    name_d = ('form round trip: a mapping of distinct names to strings / lists of strings served as application/x-www-form-urlencoded reads back as the same mapping '
              '(a list of one as its element, an empty list and dropped blank values absent), for every keep_blank / csv setting, directly and through WSGI and ASGI apps')
    name_d2 = 'form bodies: an empty body is {}, a body with a non-ASCII byte is MediaMalformedError (400), every other body parses; nothing else is raised'
    FORM_D = 'application/x-www-form-urlencoded'
    ATOMS = ['a', 'b', 'z', '0', ' ', '&', '=', '+', '%', ',', ';', '/', '?', '#', '~', '-', '_', '.', '*', '"', "'", '\\', '\x00', '\n', '\x7f',
             '\xe9', '€', '\U0001f600', '%41', '%zz', '%2C', '%', '+', ',', ' ']

    def uf_text(lo, hi):
        return ''.join(rnd.choice(ATOMS) for _ in range(rnd.randint(lo, hi)))

    def uf_s(s): return '.'.join(str(ord(c)) for c in s) or '-'

    def uf_show(res):
        if isinstance(res, str): return res
        if not res: return '{}'
        return ' '.join(uf_s(k) + '=' + ('m:' + ','.join(uf_s(x) for x in v) if isinstance(v, list) else '1:' + uf_s(v)) for k, v in res.items())

    def uf_enc(doc):
        if not doc: return '-'
        return ';'.join(hx(k.encode()) + '=' + ('m:' + ','.join(hx(x.encode()) for x in v) if isinstance(v, list) else '1:' + hx(v.encode())) for k, v in doc.items())

    def uf_des(h, body):
        try:
            with alarm(3):
                r = h.deserialize(io.BytesIO(body), FORM_D, len(body))
            return r if isinstance(r, dict) else 'not-a-dict:' + type(r).__name__
        except errors.MediaMalformedError as e:
            return 'malformed' if e.status.startswith('400') else 'malformed-with-status-' + e.status
        except Hang:
            return 'hang'
        except Exception as e:  # noqa
            return 'error:' + type(e).__name__

    def uf_normal(doc, kb):
        """the reading of the statement: same names in order; per name the values that a form can carry"""
        out = {}
        for k, v in doc.items():
            vals = [x for x in (v if isinstance(v, list) else [v]) if x != '' or (kb and k != '')]
            if len(vals) == 1: out[k] = vals[0]
            elif vals: out[k] = vals
        return out

    def uf_same(a, b):
        return isinstance(a, dict) and list(a.items()) == list(b.items()) and all(type(a[k]) is type(b[k]) for k in a)

    OPTS = [(None, None), (None, None), (True, False), (False, False), (True, True), (False, True), (None, True), (False, None)]
    for ci in range(ctx.n(400, 6000)):
        doc = {}
        for _ in range(rnd.choice([0, 1, 1, 2, 2, 3, 4])):
            k = '' if rnd.random() < 0.08 else uf_text(1, 4)
            r = rnd.random()
            if r < 0.55: v = uf_text(0, 6) if rnd.random() < 0.85 else ''
            else: v = [('' if rnd.random() < 0.2 else uf_text(0, 4)) for _ in range(rnd.choice([0, 1, 1, 2, 2, 3]))]
            doc[k] = v
        kb, csv = rnd.choice(OPTS)
        kw = {}
        if kb is not None: kw['keep_blank'] = kb
        if csv is not None: kw['csv'] = csv
        okb, ocsv = ('-' if kb is None else str(int(kb))), ('-' if csv is None else str(int(csv)))
        eff_kb = True if kb is None else kb                       # the DOCUMENTED default ("keep_blank=True, csv=False")
        h = media.URLEncodedFormHandler(**kw)
        case = {'document': doc, 'keep_blank': kb, 'csv': csv}
        try:
            body = h.serialize(copy.deepcopy(doc), FORM_D)
        except Exception as e:  # noqa
            ctx.oracle(name_d, False, f'serialize raised {type(e).__name__}: {e}', case); continue
        res = uf_des(h, body)
        uf.case(case)
        uf.op('ser ' + uf_enc(doc), hx(body))
        uf.op(f'rt {okb} {ocsv} {uf_enc(doc)}', uf_show(res))
        uf.op(f'nf {okb} {uf_enc(doc)}', uf_show(res))
        want = uf_normal(doc, eff_kb)
        failed = None
        if not isinstance(body, bytes): failed = f'serialize returned {type(body).__name__}'
        elif not uf_same(res, want): failed = f'served {body[:80]!r}; read back {res!r}, the document is {want!r}'
        exact = want == doc
        ctx.count('form_doc_' + ('exact' if exact else 'normalised')); ctx.count(f'form_opts_kb{okb}_csv{ocsv}')
        # through the apps: resp.media on one stack, req.get_media on the other
        if failed is None and rnd.random() < 0.35:
            s_out, s_in = rnd.choice(['wsgi', 'asgi']), rnd.choice(['wsgi', 'asgi'])
            served = copy.deepcopy(doc); got = []
            if s_out == 'wsgi':
                class GF:
                    def on_get(self, req, resp): resp.content_type = FORM_D; resp.media = served
            else:
                class GF:
                    async def on_get(self, req, resp): resp.content_type = FORM_D; resp.media = served
            if s_in == 'wsgi':
                class PF:
                    def on_post(self, req, resp): got.append(req.get_media()); got.append(req.media)
            else:
                class PF:
                    async def on_post(self, req, resp): got.append(await req.get_media()); got.append(await req.media)
            try:
                a_out = build(s_out, 'plain'); a_out.add_route('/', GF())
                a_in = build(s_in, 'plain'); a_in.add_route('/', PF())
                if kw or rnd.random() < 0.5:                     # (no options: the handler the app installs by default is under test too)
                    a_out.resp_options.media_handlers[FORM_D] = media.URLEncodedFormHandler(**kw)
                    a_in.req_options.media_handlers[FORM_D] = media.URLEncodedFormHandler(**kw)
                st, hd, wire = serve(s_out, a_out, 'GET')
                if st != 200: failed = f'{s_out}: serving the form answered {st}'
                elif wire != body: failed = f'{s_out}: resp.media rendered {wire[:80]!r}, the handler serializes {body[:80]!r}'
                else:
                    stp, _, _ = serve(s_in, a_in, 'POST', hd.get('content-type', FORM_D) if rnd.random() < 0.7 else FORM_D + '; charset=utf-8', wire)
                    if stp != 200 or len(got) != 2: failed = f'{s_in}: posting the served form back answered {stp}'
                    elif not uf_same(got[0], want): failed = f'{s_in}: req.get_media() gave {got[0]!r}, the document is {want!r}'
                    elif got[1] is not got[0]: failed = f'{s_in}: the second access parsed again'
                uf.op(f'rt {okb} {ocsv} {uf_enc(doc)}', uf_show(got[0]) if got else 'no-document')
            except Exception as e:  # noqa
                failed = f'{type(e).__name__}: {e}'
            ctx.count(f'form_fullstack_{s_out}_to_{s_in}')
        ctx.oracle(name_d, failed is None, failed, case)
        ctx.seen(('uf', repr(doc), kb, csv), bool(doc))

    for ci in range(ctx.n(300, 5000)):
        r = rnd.random()
        if r < 0.06: b = b''
        else:
            parts = []
            for _ in range(rnd.randint(1, 4)):
                parts.append(uf_text(0, 3) + (rnd.choice(['=', '=', '=', '', '==']) + uf_text(0, 5)))
            t = rnd.choice(['&', '&', '&&', ';']).join(parts)
            if r < 0.3: b = t.encode('utf-8')                                       # non-ASCII atoms stay raw: malformed when present
            elif r < 0.4: b = t.encode('latin-1', 'replace')
            else: b = t.encode('ascii', 'ignore')
        kb, csv = rnd.choice(OPTS)
        kw = {}
        if kb is not None: kw['keep_blank'] = kb
        if csv is not None: kw['csv'] = csv
        okb, ocsv = ('-' if kb is None else str(int(kb))), ('-' if csv is None else str(int(csv)))
        res = uf_des(media.URLEncodedFormHandler(**kw), b)
        case = {'body': b, 'keep_blank': kb, 'csv': csv}
        uf.case(case); uf.op(f'des {okb} {ocsv} {hx(b)}', uf_show(res))
        nonascii = any(c >= 128 for c in b)
        failed = None
        if nonascii and res != 'malformed': failed = f'a body with a non-ASCII byte gave {res!r}'
        elif not nonascii and not isinstance(res, dict): failed = f'an ASCII body gave {res!r}'
        elif b == b'' and res != {}: failed = f'the empty body gave {res!r}'
        elif isinstance(res, dict) and not csv and sum(len(v) if isinstance(v, list) else 1 for v in res.values()) > sum(1 for f in b.split(b'&') if f):
            failed = f'without csv (documented default: off) {len(b.split(b"&"))} fields gave more values: {res!r}'     # a literal comma never splits
        if failed is None and rnd.random() < 0.3:
            s_in = rnd.choice(['wsgi', 'asgi']); got = []
            if s_in == 'wsgi':
                class PB:
                    def on_post(self, req, resp): got.append(req.get_media())
            else:
                class PB:
                    async def on_post(self, req, resp): got.append(await req.get_media())
            try:
                a_in = build(s_in, 'plain'); a_in.add_route('/', PB())
                if kw: a_in.req_options.media_handlers[FORM_D] = media.URLEncodedFormHandler(**kw)
                stp, _, _ = serve(s_in, a_in, 'POST', FORM_D, b)
                full = 'malformed' if stp == 400 and not got else (got[0] if stp == 200 and got else f'status-{stp}')
                uf.op(f'des {okb} {ocsv} {hx(b)}', uf_show(full))
                if uf_show(full) != uf_show(res): failed = f'{s_in}: req.get_media() gave {full!r}, the handler gives {res!r}'
            except Exception as e:  # noqa
                failed = f'{type(e).__name__}: {e}'
            ctx.count('form_body_fullstack_' + s_in)
        ctx.count('form_body_' + ('malformed' if nonascii else 'empty' if not b else 'parsed'))
        ctx.oracle(name_d2, failed is None, failed, case)
        ctx.seen(('ufb', b, kb, csv), bool(b))
    uf.finish()

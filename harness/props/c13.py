"""C13 - multipart forms parse to exactly the parts that were encoded, however consumed."""
PROP = 'C13'
LEAN_MODULES = ['FalconModel.Multipart', 'FalconModel.PeekProofs', 'FalconModel.MultipartProofs', 'FalconModel.ReaderPublic',
                'FalconModel.MultipartFlat', 'FalconModel.MultipartFlatProofs', 'FalconModel.ReaderMap', 'FalconModel.MultipartBridge',
                'FalconModel.MultipartAsync', 'FalconModel.MultipartAsyncProofs', 'FalconModel.MultipartAsyncReaderProofs', 'FalconModel.MediaType',
                'FalconModel.QuotedString', 'FalconModel.QuotedStringProofs']
DRIVERS = ['mpdriver', 'madriver']
THEOREMS = [
    # ---- cursor level (FalconModel/MultipartFlat.lean: reference encoder Mf.encodeForm, flat parser Mf.next / parseAll / parseFlat;
    #      proofs in FalconModel/MultipartFlatProofs.lean)
    'Mf.parse_encode', 'Mf.parse_encode_noLimits', 'Mf.parseAll_encode', 'Mf.encode_eq', 'Mf.parseLoop_encoded', 'Mf.next_part', 'Mf.next_closing',
    'Mf.untilConsume_safe', 'Mf.untilConsume_short', 'Mf.contentOf_safe', 'Mf.stopAt_safe', 'Mf.parseHeaders_block', 'Mf.splitAux_join',
    'Mf.expect_pass', 'Mf.expect_append',
    'Mf.headers_size_limit_exact', 'Mf.headers_cap_exact', 'Mf.headers_cap_none', 'Mf.part_count_limit_exact', 'Mf.part_count_limit_encoded',
    'Mf.parser_terminates', 'Mf.invalid_is_parse_error_only', 'Mf.next_part_frame', 'Mf.next_tooMany_frame', 'Mf.parseHeaders_eq_L',
    # ---- the bridge Mp.next (buffered reader, any chunking, any consumption) = Mf (flat text): FalconModel/MultipartBridge.lean,
    #      FalconModel/ReaderMap.lean (naturality of every reader operation in its source)
    'Mf.next_refines_flat', 'Mf.next_refines_flat_fresh', 'Mf.consumption_independent', 'Mf.consumption_full_read', 'Mf.chunking_independent',
    'Mf.chunking_independent_parts', 'Mf.impl_parse_encode', 'Mf.impl_error_only', 'Mf.run_refines', 'Mf.next_step', 'Mf.part_stream_refines', 'Mf.next_skip',
    'Mf.gd_at', 'Mf.gd_read', 'Mf.toDelim_sim', 'Mf.stopAt_drop', 'Mf.runFlat_parse', 'Mf.parseHeaders_err_cte',
    'Mf.readerStep_map', 'Mf.readerRun_map', 'Mf.readUntil_map', 'Mf.readUntilLoop_map', 'Mf.performRead_map', 'Mf.pipeUntil_map', 'Mf.read_map',
    'Mf.peek_map', 'Mf.pipe_map', 'Mf.readline_map', 'Mf.readlines_map', 'Mf.exhaust_map',
    # ---- the reader refinements the bridge rewrites with (FalconModel/ReaderC14.lean, ReaderPublic.lean, PeekProofs.lean)
    'Rd.public_history_refines_cursor', 'Rd.readerStep_refines', 'Rd.pipeUntil_consume_refines', 'Rd.readUntil_consume_refines',
    'Rd.readUntil_refines_all', 'Rd.read_refines', 'Rd.fresh_reader',
    # (Mp.reader_* are Rd.read'_refines, Rd.read'_pos_le, Rd.readUntil'_refines restated under prime-free names: the
    #  audit's output parser cannot handle a ' inside a name)
    'Rd.performRead_spec', 'Mp.reader_read_refines', 'Mp.reader_read_pos_le', 'Rd.fillBuffer_abs', 'Rd.fillBuffer_full',
    'Rd.find_spec', 'Rd.fragment_first_occ', 'Rd.readUntilLoop_refines', 'Mp.reader_readUntil_refines',
    'Rd.implStep_refines', 'Rd.history_refines_cursor',
    'Rd.peek_refines', 'Rd.tailPeek_spec', 'Rd.finishRU_consume_peek', 'Rd.finalize_consume_of_notfound',
    # facts about Mp.next itself that hold for every stream state (FalconModel/MultipartProofs.lean)
    'Mp.next_part', 'Mp.next_tooMany', 'Mp.next_finished', 'Mp.yields_count', 'Mp.part_count_limit_exact',
    'Mp.yields_delim', 'Mp.part_stream_delimiter',
    # ---- the async parser (FalconModel/MultipartAsync.lean: Ma.next = MultipartForm._iterate_parts over a reader interface Ma.Ops, Ma.getData =
    #      BodyPart.get_data; proofs in FalconModel/MultipartAsyncProofs.lean, for every reader satisfying the flat-cursor laws Ma.Lawful)
    'Ma.async_refines_flat', 'Ma.sync_async_agree', 'Ma.sync_async_agree_parts', 'Ma.next_sync_eq', 'Ma.runA_sync_eq', 'Ma.next_step', 'Ma.run_refines',
    'Ma.until_cases', 'Ma.pipeUntil_cases', 'Ma.readUntil_cases', 'Ma.peek2', 'Ma.read2', 'Ma.syncStep_eq', 'Ma.crun_sync_eq', 'Ma.crun_cur',
    'Ma.async_error_only', 'Ma.async_part_count_limit_exact', 'Ma.runA_count', 'Ma.next_part', 'Ma.next_tooMany', 'Ma.next_finished',
    'Ma.async_parse_encode', 'Ma.async_headers_size_limit_exact', 'Ma.async_part_count_limit_encoded',
    'Ma.async_buffer_limit_exact', 'Ma.buffer_limit_every_call', 'Ma.tooLarge_sticky', 'Ma.getData_le_limit', 'Ma.getData_cases', 'Ma.pstep_cache',
    'Ma.getData_tooLarge_cache', 'Ma.first_read', 'Ma.getDataPinned_after_tooLarge',
    # (the two instances of the law structure: definitions whose fields are proofs)
    'Ma.syncLawful', 'Ma.curLawful',
    # ---- the transcription of falcon/asgi/reader.py (Ma.AR, generic in its chunk source, delimit = nested reader over parent._iter_delimited)
    #      satisfies the laws: FalconModel/MultipartAsyncReaderProofs.lean; concrete corollaries for every chunking
    'Ma.arLawful', 'Ma.async_concrete_refines_flat', 'Ma.sync_async_agree_concrete', 'Ma.async_concrete_parse_encode',
    'Ma.async_concrete_error_only', 'Ma.async_chunking_independent', 'Ma.fresh_good',
    'Ma.ar_history_refines_cursor', 'Ma.arStep_refines', 'Ma.read_refines', 'Ma.readall_refines', 'Ma.peek_refines', 'Ma.pipe_refines',
    'Ma.iterate_refines', 'Ma.exhaust_refines', 'Ma.readUntil_refines', 'Ma.pipeUntil_refines', 'Ma.until_tail', 'Ma.pipe_spec',
    'Ma.normLoop_spec', 'Ma.nextNorm_spec', 'Ma.straddle', 'Ma.U_spec', 'Ma.U_drop', 'Ma.stopAt_eq_min_U',
    'Ma.step_spec', 'Ma.step_w', 'Ma.wSource_spec', 'Ma.dLoop_spec', 'Ma.dStart_spec', 'Ma.dPreLoop_spec', 'Ma.dAfterOutput_spec', 'Ma.dCheck_spec',
    'Ma.readAll_spec', 'Ma.readN_spec', 'Ma.readFrom_spec', 'Ma.prepend_spec', 'Ma.peekLoop_spec', 'Ma.peek_spec', 'Ma.consume_spec',
    'Ma.need_le_fuelOf', 'Ma.weight_lt_big', 'Ma.mu_le',
    'Ma.PInv_reach', 'Ma.arRun_reach', 'Ma.arStep_reach', 'Ma.gstep_reach', 'Ma.nextNorm_reach', 'Ma.readFrom_reach', 'Ma.peek_reach', 'Ma.crun_arOps',
    # ---- parse_header (Mt.parseHeader, the model behind BodyPart.name / filename / get_text) inverts the reference quoted-string writer
    #      Qe.quote / Qe.render / Qe.renderG (FalconModel/QuotedString.lean) exactly outside class F46: FalconModel/QuotedStringProofs.lean
    'Mt.unquote_quote', 'Mt.parseHeader_render', 'Mt.parseHeader_renderG', 'Mt.parseHeader_render_get', 'Mt.render_eq_renderG',
    'Mt.f46_exact', 'Mt.f46_not_roundtrip', 'Mt.f46_value', 'Mt.parseHeader_render_iff_partial', 'Mt.split_render_iff', 'Mt.split_renderParams_iff',
    'Mt.field_bad_length', 'Mt.split_render', 'Mt.split_prefix',
    'Mt.parseParamOld_fuel', 'Mt.quoteAwareEnd_fuel', 'Mt.quoteAwareEnd_eq_cut', 'Mt.parseHeaderOld_eq', 'Mt.pp_semi', 'Mt.parseParamOld_other',
    'Mt.par_eq_uq', 'Mt.par_eq_odd', 'Mt.count_split', 'Mt.field_scan', 'Mt.field_scanG', 'Mt.esc_scan', 'Mt.esc_scan_out', 'Mt.badPrefix_scan',
    'Mt.pp_badPair_nosemi', 'Mt.pp_badPair_semi', 'Mt.pp_esc_tail_nosemi', 'Mt.f46_unquote', 'Mt.pass1', 'Mt.pass2',
    'Mt.addField_field', 'Mt.fold_fields', 'Mt.pget_pset', 'Mt.strip_wrap',
    'Mt.cd_name_filename', 'Mt.cd_filename_name', 'Mt.cd_name_only', 'Mt.cd_name_back', 'Mt.cd_last_may_end_in_backslash', 'Mt.cd_f46',
]
STATEMENTS = {
    'Mf.parse_encode': 'for every list of parts (raw header lines + content), boundary, preamble, epilogue, with or without the final CRLF: if the form is BoundarySafe (the first --boundary of preamble++--boundary is the appended one; the first CRLF--boundary of content++CRLF--boundary is the appended one, for every part), HeadersSafe (no blank line inside a header block, no CRLF inside a line, no Content-Transfer-Encoding other than binary) and WithinLimits, then parseFlat(encodeForm(parts)) = ok [(header dict of the lines, content) for each part], in order; each side condition has a decided witness that it is needed',
    'Mf.parseAll_encode': 'the same with limits that bite: for boundary-safe forms parseAll(encodeForm(parts)) is the spec function expect(limits, parts): parts come back until a header block exceeds max_body_part_headers_size (checked first), a bad Content-Transfer-Encoding is met, or part max_body_part_count+1 is reached',
    'Mf.headers_size_limit_exact': 'max_body_part_headers_size = m: parts whose header blocks have at most m bytes (in particular exactly m) are parsed; the first part whose block has more (in particular m+1) raises "incomplete body part headers" after exactly the parts before it',
    'Mf.headers_cap_exact': 'for ARBITRARY text with its first blank line p bytes in: the header read read_until(CRLFCRLF, n, consume) succeeds iff p <= n and then returns exactly those p bytes and steps over the blank line',
    'Mf.part_count_limit_exact': 'for ARBITRARY bodies: with max_body_part_count = m > 0 at most m parts are handed out, and the count error is raised only after exactly m parts and only if m > 0',
    'Mf.part_count_limit_encoded': 'encoded forms: n <= m parts (or m = 0) parse completely; with more parts exactly the first m come back and then "maximum number of form body parts exceeded"',
    'Mf.parser_terminates': 'for every body, boundary and limits the loop fuel len(body)+1 is never exhausted: every resumption that yields a part has consumed at least the delimiter',
    'Mf.invalid_is_parse_error_only': 'for EVERY body the flat parser returns: either it reaches the closing delimiter (list(form) = the parts handed out) or it raises one of the four MultipartParseErrors after the parts handed out so far; there is no third outcome',
    'Mf.next_step': 'one resumption of the generator: for every reader state satisfying the invariant, every lawful source, chunk size >= max(4, len(CRLF--boundary)): Mp.next (pipe_until+consume, peek(2), read(2), read_until(CRLF,0,consume), read_until(CRLFCRLF,max,consume), delimit) returns the same frame, the same headers / the same error kind as Mf.next on the text still to come, and the part stream is delimit(d) of a parent in a good state whose text is the flat cursor',
    'Mf.part_stream_refines': '(delimit_refines_subcursor) any history of public reader operations (read, peek, read_until, pipe_until, readline(s), pipe, exhaust) on delimit(parent, d) observes exactly what a flat cursor over the text up to the first d observes, and leaves the parent in a good state with its cursor NOT beyond that first d (a delimited reader never passes its delimiter)',
    'Mf.next_skip': 'resuming the generator from anywhere inside the previous part\'s content (not beyond its delimiter) is the same as resuming it from the start of that content',
    'Mf.readerRun_map': 'every public reader operation is natural in its source: for a simulation f of sources (commutes with read for positive sizes, preserves bound), running a history on mapR f r is running it on r and mapping the result; this transfers the reader theorems from the lawful presentation GD of a delimited source to the real R (Delim s)',
    'Mf.next_refines_flat': 'THE BRIDGE: for any reader in a good state over ANY lawful source (every transport chunking / short-read pattern), chunk size >= len(CRLF--boundary), limits >= 0 (or -1), and ANY application behaviour between resumptions that is a history of public reader operations on the part stream: iterating Mp.next hands out exactly the parts Mf.parseAll finds in the text still to come (same header dicts, same order, same StopIteration / MultipartParseError kind) and every part stream behaves operation by operation as a flat cursor over that part\'s content',
    'Mf.next_refines_flat_fresh': 'the same for BufferedReader(read, max_stream_len, chunk_size) freshly constructed: the text is the first max_stream_len bytes the source delivers',
    'Mf.consumption_independent': 'whatever two applications do with the part streams, they are handed the same number of parts with the same header dicts in the same order and iteration ends the same way, namely as parseAll says',
    'Mf.consumption_full_read': 'an application that pipes every part to its end sees exactly the contents parseAll computes',
    'Mf.chunking_independent': 'two readers over two arbitrary lawful sources (possibly of different types), in arbitrary buffer states, same chunk size, same text still to come, same scripts: identical parts, identical observations on every part stream, identical end',
    'Mf.chunking_independent_parts': 'with different chunk sizes (each >= the delimiter length) and different scripts still the same header dicts and the same end',
    'Mf.impl_parse_encode': 'end to end: a safe form encoded by the reference encoder, delivered by any lawful source in any chunking, consumed in any way: the model of MultipartForm.__iter__ hands out exactly the encoded parts and StopIteration, each part stream being a flat cursor over exactly the encoded content',
    'Mf.impl_error_only': 'under the hypotheses of the bridge, iterating Mp.next over the buffered reader - whatever the body holds, however chunked, however consumed - ends with StopIteration or one of the four MultipartParseErrors: never out of fuel (no hang), never ValueError',
    'Rd.public_history_refines_cursor': '(C14) every history of public operations on one reader refines the flat cursor; used here on the lawful presentation of the part stream',
    'Rd.performRead_spec': '_perform_read(size) returns the next min(size, remaining, available) bytes of the source whatever short reads the source makes, and accounts for exactly those bytes',
    'Mp.reader_read_refines': "(= Rd.read'_refines) _read(n) (all four branches) returns the next n bytes of the flat text (buffer rest ++ unread source) and leaves exactly the rest; used by Mp.next for stream.read(2) and by every part.stream.read / get_data",
    'Mp.reader_readUntil_refines': "(= Rd.readUntil'_refines) _read_until(d, size) without consuming: for every buffer state, source chunking, chunk size and delimiter of length 1..chunk size it returns the text up to the first occurrence of d, or size bytes, or the end, whichever comes first, and leaves the cursor right after the returned bytes; this is what every read of a delimited part stream (delimit(CRLF--boundary)) reduces to, so a part never contains or passes its delimiter",
    'Rd.history_refines_cursor': 'any history of _read(n) and _read_until(d, n) calls on one reader returns call by call what a flat cursor over the same text returns (so how much of an earlier part was read cannot change what later calls see)',
    'Rd.peek_refines': 'peek(size) returns the next min(size clamped to the chunk size, rest) bytes and does not move the cursor; used for the closing "--" test',
    'Rd.tailPeek_spec': 'the consume_delimiter tail (peek(len d) == d ? step over it : DelimiterError) succeeds exactly when the cursor is at the delimiter and otherwise does not move',
    'Rd.finalize_consume_of_notfound': 'the three exits of the _read_until loop that end without having located the delimiter, with consume_delimiter=True, return the same bytes as the non-consuming call and step over the delimiter iff the cursor is at it, else raise DelimiterError without moving (read_until(CRLF, 0, True) and the header block read of Mp.next)',
    'Mp.next_part': 'when resuming the generator yields a part: remaining_parts went down by exactly one, the count limit did not apply (not (remaining-1 < 0 < max)), the generator stays alive, the frame delimiter is CRLF+dash-boundary, and the part stream is delimit(parent, exactly that delimiter) with the parent chunk size',
    'Mp.next_tooMany': 'the "maximum number of form body parts exceeded" error is raised only if remaining_parts-1 < 0 and the limit is positive, and it ends the generator',
    'Mp.part_count_limit_exact': 'max_body_part_count = m is enforced exactly (model level, for arbitrary stream contents and arbitrary consumption between resumptions): the k-th part is yielded only if m = 0 or k <= m; the limit error is raised only when resuming after exactly m > 0 yielded parts (part m+1), never earlier and never for m = 0',
    'Mp.yields_delim': 'after at least one yielded part the frame delimiter is the dash-boundary with CRLF prepended exactly once (RFC 7578 4.1), whatever the streams held',
    'Mp.part_stream_delimiter': 'every part stream ever handed out is the parent reader delimited by CRLF ++ "--" ++ boundary',
    'Mp.next_finished': 'whenever resuming does not yield a part (form end or any error) the generator is finished (a later next() is StopIteration)',
    'Ma.async_refines_flat': 'THE ASYNC BRIDGE: for ANY reader implementation o : Ops satisfying the flat-cursor laws Lawful o (explicit structure fields: pipe_until / peek / read / read_until observe what Rd.cursorStep observes on text(r) and leave its rest; delimit(p, d) behaves for every history of application operations as a cursor over the text up to the first d and leaves the shared parent good and not beyond that d), chunk size >= len(CRLF--boundary), limits >= 0 or -1, and ANY application behaviour between resumptions that is a history of part-stream operations (read, readall, peek, read_until, pipe_until, pipe, exhaust, async for): iterating Ma.next (the transcription of MultipartForm._iterate_parts) hands out exactly the parts Mf.parseAll finds in the text still to come (same header dicts, same order, same StopAsyncIteration / MultipartParseError kind) and every part stream behaves operation by operation as a flat cursor over that part\'s content',
    'Ma.sync_async_agree': 'the async parser over ANY lawful reader and the sync parser (Mp.next over the buffered-reader model of falcon/util/reader.py, any lawful source = any transport chunking), started on the same text with the same chunk size, limits and application scripts: same parts, same observation for every operation on every part stream, same end (composition of async_refines_flat with Mf.next_refines_flat)',
    'Ma.sync_async_agree_parts': 'with different chunk sizes (each >= the delimiter length) and different application behaviour on the two stacks, still the same header dicts in the same order and the same end',
    'Ma.next_sync_eq': 'the generator body of falcon/asgi/multipart.py instantiated with the SYNC reader model is literally Mp.next (the transcription of falcon/media/multipart.py __iter__): the two loops are the same function of the reader calls; every difference between the stacks is inside the reader',
    'Ma.runA_sync_eq': 'hence iterating Ma.next over the sync reader is iterating Mp.next, observation by observation',
    'Ma.syncLawful': 'the sync reader model Rd.R over any lawful source satisfies Lawful (text = abs, good = Inv and pos <= len): its fields are Rd.readerStep_refines / Rd.peek_refines / Rd.read_refines (C14) and Mf.part_stream_refines (the bridge) - so the laws are exactly what is already proved for falcon/util/reader.py',
    'Ma.curLawful': 'the flat cursor itself (a reader that holds the whole text) satisfies Lawful: the laws are satisfiable by the specification',
    'Ma.arLawful': 'for every chunk source that delivers its text in arbitrary pieces (also empty ones) and never raises (LawfulASource; a list of pieces is one), the transcription Ma.AR of falcon/asgi/reader.py - read, peek, read_until, pipe_until with and without consume_delimiter, and delimit as a SECOND reader (own buffer, own _iter_normalized) over parent._iter_delimited(d) - satisfies the flat-cursor laws Ma.Lawful with text = unread buffer ++ what _iter_normalized holds ++ what the source still delivers and good = the representation invariant',
    'Ma.async_concrete_refines_flat': 'async_refines_flat for the CONCRETE async stack and every chunking: for EVERY list of transport pieces (any sizes, empty pieces anywhere), every reader chunk size >= len(CRLF--boundary), limits >= 0 or -1 and every application behaviour on the part streams, Ma.next over Ma.AR hands out exactly the parts Mf.parseAll finds in the joined body, with exactly their contents, and ends the same way',
    'Ma.sync_async_agree_concrete': 'sync_async_agree for the two concrete stacks: the async parser over the transcribed async reader fed by ANY list of pieces and the sync parser over the buffered-reader model of falcon/util/reader.py on ANY lawful source, same body, same chunk size, same limits, same application scripts: same parts, same observation for every operation on every part stream, same end',
    'Ma.async_concrete_parse_encode': 'a safe form within the limits, encoded by the reference encoder, cut into ANY pieces, read with any chunk size >= len(CRLF--boundary), consumed in any way through the concrete async stack: exactly the encoded parts in order, each part stream a flat cursor over exactly the encoded content, then StopAsyncIteration',
    'Ma.async_concrete_error_only': 'whatever the pieces hold, the concrete async stack ends with StopAsyncIteration or one of the four MultipartParseErrors: never out of fuel (no hang), never ValueError',
    'Ma.async_chunking_independent': 'two deliveries of the same body in different pieces give the same run of the concrete async stack',
    'Ma.ar_history_refines_cursor': '(C14 for the transcription used here, generic in the source) every history of read / readall / peek / read_until / pipe_until / pipe / exhaust / async-for on one reader over a lawful chunk source returns operation by operation what the flat cursor returns on absA(r), leaves exactly its rest, keeps the invariant, the chunk size and consumed + future',
    'Ma.step_spec': 'one resumption of _iter_with_buffer / _iter_delimited at any program counter from any state satisfying the generator invariant: a yield hands out the next bytes of the flat text within the generator share (everything / up to the first occurrence of the delimiter), StopAsyncIteration only when the share is used up; the recursion fuel suffices',
    'Ma.straddle': 'cross-chunk delimiter detection of _iter_delimited: an occurrence that starts inside the buffered text is seen exactly by the search in buffer[len-(len(d)-1):] + chunk[:len(d)-1], provided the chunk is a full one (>= chunk_size >= len(d)) or the last',
    'Ma.PInv_reach': 'whatever is done with a part stream (any number of __anext__ calls on parent._iter_delimited(d), abandoned anywhere): the parent satisfies the generator invariant, keeps its chunk size, and its text is the text at opening time minus j bytes with j not beyond the first d (a part stream never passes its delimiter)',
    'Ma.arRun_reach': 'every reader operation touches its source only through __anext__ (structural, no lawfulness needed)',
    'Ma.next_step': 'one resumption of the async generator over a lawful reader computes Mf.next on the text still to come (same frame, same headers / error kind; the part stream is delimit(d) of a good parent whose text is the flat cursor)',
    'Ma.async_error_only': 'under the hypotheses of async_refines_flat the async iteration ends with StopAsyncIteration or one of the four MultipartParseErrors: never out of fuel (no hang), never ValueError',
    'Ma.async_part_count_limit_exact': 'max_body_part_count = m for the async loop, for EVERY reader implementation (no law used), body, chunking, application behaviour and number of resumptions: at most m parts are handed out when m > 0, and the count error is raised only after exactly m parts and only if m > 0',
    'Ma.async_headers_size_limit_exact': 'encoded forms through the async loop with max_body_part_headers_size = m: header blocks of at most m bytes (in particular exactly m) pass; the first block with more (in particular m+1) raises "incomplete body part headers" after exactly the parts before it',
    'Ma.async_part_count_limit_encoded': 'encoded forms through the async loop: n <= m parts (or m = 0) come back completely; with more parts exactly the first m and then "maximum number of form body parts exceeded"',
    'Ma.async_parse_encode': 'end to end for the async parser: a safe encoded form held by any lawful reader, consumed in any way: exactly the encoded parts and StopAsyncIteration, each part stream a flat cursor over exactly the encoded content',
    'Ma.async_buffer_limit_exact': 'BodyPart.get_data (Ma.getData, sync and async have the same body) on an unread part stream over a lawful reader with max_body_part_buffer_size = m >= 0: content of at most m bytes (in particular exactly m) is returned whole and cached; content with more (in particular m+1) raises "body part is too large"',
    'Ma.buffer_limit_every_call': '(repair 913e041 / F39) for EVERY reader implementation and every history of operations on a BodyPart (part.stream operations and get_data calls - get_text, .data, .text are get_data plus decoding - in any order): no get_data ever returns more than max_body_part_buffer_size bytes',
    'Ma.tooLarge_sticky': '(repair 913e041 / F39) once get_data has raised "body part is too large", every later get_data on that part raises it again, whatever else the application does with the part in between',
    'Ma.getDataPinned_after_tooLarge': 'REGRESSION WITNESS F39: the code before 913e041 (getDataPinned: cache assigned before the test, test only on the buffering call) raises on the first call and returns the truncated first m+1 bytes on the second; a decided example on the concrete reader sits beside it',
    'Rd.fragment_first_occ': 'cross-chunk delimiter detection: searching buffer[offset:] + next_chunk[:len(d)-1] finds the first occurrence that straddles the buffer edge',
    'Mt.unquote_quote': 'for EVERY string v: the unquoting of parse_header (strip the outer DQUOTEs, replace backslash-backslash by backslash, then backslash-DQUOTE by DQUOTE) applied to the RFC 9110 quoted-string of v (DQUOTE + v with backslash -> 2 backslashes, DQUOTE -> backslash DQUOTE + DQUOTE) gives back v',
    'Mt.parseHeader_render': 'THE ROUND TRIP: for every main value without ; " backslash and without white space at its ends, every list of parameters whose names are lower-case tokens, pairwise distinct, and whose VALUES ARE ARBITRARY strings (any characters: ; " backslash = blanks ...) - decidable predicate WF - such that no value FOLLOWED by another parameter ends in a backslash (decidable predicate noF46): parse_header(main; n1="quoted v1"; n2="quoted v2"...) = (main, [(n1, v1), (n2, v2), ...]) in this order',
    'Mt.parseHeader_renderG': 'the same for the general writer of RFC 9110 5.6.6 - any white space (every character str.strip() removes) before and after each semicolon, names in any case (pairwise distinct after lower-casing), all values as quoted-strings, i.e. what _enc_params(quote_all) of the harness writes: the result is (main, [(lower(name), value)...])',
    'Mt.parseHeader_render_get': 'under WF and noF46 every written parameter is found under its name with exactly its value (params.get(name) - what BodyPart.name / filename read)',
    'Mt.f46_exact': 'noF46 IS NECESSARY (class F46, for the whole class with the offending value next to last): for every well-formed prefix of parameters none of whose values ends in a backslash, EVERY value v ending in a backslash and EVERY following parameter (n, w): the parsed dictionary does NOT give w for n (n is absent, or - when w holds a ; - bound to a text without ;)',
    'Mt.f46_not_roundtrip': 'hence on that class parse_header(render(main, params)) is never (main, params)',
    'Mt.f46_value': 'the exact outcome in class F46 when the follower value has no ";": for every prefix, v0, n, w the two parameters a="v0\\\\"; n="w" are read as the ONE parameter a = v0"; n="w (name="x\\\\"; filename="y" gives name = x"; filename="y and no filename)',
    'Mt.parseHeader_render_iff_partial': 'PARTIAL form of the full equivalence (WF -> (parse_header(render) = (main, params) <-> noF46 params)): proved when the only value that may end in a backslash is the one next to last; the implication <- holds for every list (parseHeader_render); -> with the offending value at an arbitrary position is proved only for the splitter (split_render_iff), not for the dictionary',
    'Mt.split_render_iff': 'THE SPLITTER IS EXACT: for every well-formed rendered header with any number of parameters, _parse_param_old_stdlib returns exactly the written fields [main, n1="..", n2="..", ...] IF AND ONLY IF noF46 (the offending value anywhere): a field after a value ending in a backslash is strictly longer than written (field_bad_length)',
    'Mt.parseParamOld_fuel': 'the fuel of the model of _parse_param_old_stdlib is sufficient for EVERY input: every fuel >= len(s) gives the same field list (the model is given len(line)+2 for ";"+line); pp_semi / parseParamOld_other are the fuel-free unfolding equations of the while loop',
    'Mt.quoteAwareEnd_fuel': 'the fuel of the inner while loop (end = s.find(";", end+1) while the quote parity is odd) is sufficient for EVERY input: every fuel > len(s) gives the fuel-free left-to-right scan cut',
    'Mt.quoteAwareEnd_eq_cut': 'THE SPLITTER IS A TWO-BIT SCAN: for every string s the end computed by the inner while loop is cut(s): read s left to right with the state (previous character is a backslash, number of DQUOTEs not preceded by a backslash is odd) and stop at the first ";" met in an even state (else len(s))',
    'Mt.par_eq_uq': 'for every prefix a: (a.count(DQUOTE) - a.count(backslash DQUOTE)) % 2 != 0 iff the number of DQUOTEs of a that are not immediately preceded by a backslash is odd (count_split: count(DQUOTE) = count(backslash DQUOTE) + that number)',
    'Mt.field_scan': 'the parity test on rendered text: scanning blank name="escaped value" from outside quotes never stops inside (every ; of the value is met in an odd state) and ends OUTSIDE quotes iff the value does not end in a backslash - the closing DQUOTE after an escaped backslash is taken for an escaped DQUOTE (the root of F46)',
    'Mt.cd_name_filename': 'Content-Disposition: form-data; name="N"; filename="F" written by the reference encoder parses to exactly (form-data, name = N, filename = F) for EVERY F and every N that does not end in a backslash',
    'Mt.cd_filename_name': 'the same in the order filename, name, for every N and every F that does not end in a backslash',
    'Mt.cd_name_only': 'form-data; name="N" alone: EVERY N comes back, also one ending in a backslash',
    'Mt.cd_name_back': 'params.get("name") = N and params.get("filename") = F on form-data; name="N"; filename="F" (N not ending in a backslash)',
    'Mt.cd_f46': 'form-data; name="x\\\\"; filename="F": for every x and F, params.get("filename") is NOT F (the known finding F46 as a theorem about the model)',
}
TRUSTED = [
    'the reference multipart encoder and the flat-buffer reference splitter in harness/props/c13.py (written from RFC 7578 / RFC 2046 5.1.1 and the property statement, bytes.find over one bytes object, no buffering)',
    'SIGPROF after 3 CPU-seconds (wall-clock backstop 90 s) / asyncio.wait_for(30 s) deciding "did not return" for the implementation side',
    'CPython json / urllib for the expected value of get_media() on application/json and urlencoded parts',
    'the strict RFC 8187 ext-value decoder, the liberal readings and the judgement table of harness/lib_extvalue.py (written from the RFC grammar; UTF-8 per RFC 3629, ISO-8859-1 and US-ASCII decoded by hand - the UTF-8 decoder agrees with CPython strict decoding on all 1-2 octet strings and 400000 random longer ones); the CPython codec registry for which other charset names denote a text encoding and bytes.decode for those optional charsets',
    'the reference writer of header parameters (_enc_params/_qstr: RFC 9110 5.6.4 quoted-string with quoted-pairs for DQUOTE and backslash only, RFC 9110 5.6.6 parameters, bare tokens, any attribute-name case, optional blanks around ";"; _qstr and the all-quoted writer are tied character for character to the Lean encoder Qe.quote / Qe.renderG of the round-trip theorems) and CPython bytes.decode(charset) for the expected value of get_text() (the documented contract of get_text)',
]
ASSUMPTIONS = [
    'Lean side of the bridge: chunk size >= len(CRLF--boundary) and >= 4 (Mf.next_refines_flat hypothesis hc); max_body_part_headers_size >= 0 or -1; the application\'s behaviour on a part stream is a (for the given body fixed) list of public reader operations with valid arguments (sizes None/-1/>= 0, delimiters non-empty and <= chunk size); get_data/get_text/get_media (BodyPart accessors, max_body_part_buffer_size) are not operations of the reader model',
    'reference forms are boundary-safe: CRLF--boundary occurs nowhere in CRLF+content, the preamble does not contain --boundary and ends with CRLF; names/filenames contain no CR or LF (a header line cannot carry them); in sections (b)/(c) they contain no double quote or backslash, in section (d) they range over every printable ASCII character (quote and backslash written as quoted-pairs), HTAB and some non-ASCII letters',
    'KNOWN FINDING F46 (recorded for C11 in known_findings.json; root cause _parse_param_old_stdlib of falcon/util/mediatypes.py, which C13 reaches through BodyPart.name/filename/get_text): a QUOTED parameter value ENDING in an escaped backslash that is FOLLOWED by another parameter swallows the following parameters on the unchanged tree (name="x\\\\"; filename="y" gives name x\\"; filename="y and no filename). Exactly that class (decided by the encoder: quoted value ends in a backslash and is not the last parameter) is generated but judged under its own oracle name, which demands the part count, order, content type, contents, outcome and WSGI/ASGI agreement but NOT the value of name/filename (a str, None or the parse error is accepted). The same value as the LAST parameter is parsed correctly by the unchanged tree and is judged strictly. A strict judgement of the class needs a C13 entry for F46 in known_findings.json',
    'section (g), filename* values: (i) STRICT: a well-formed value in UTF-8 / ISO-8859-1 / US-ASCII (IANA names and aliases, any case), with any well-formed language tag - also one with subtags, en-GB / zh-Hant-TW: class L, finding F48, repaired in /repo 4cb5964 - must give exactly the decoded name; well-formed grammar whose octets are ill-formed in such a charset must give the multipart parse error; a charset beyond those (RFC 8187 3.2.1: recipients need not support it) may be decoded (then exactly), refused or ignored, an unknown one refused or ignored - "ignored" = part.filename is the plain filename parameter or None. (ii) LIBERAL: values that violate the ext-value grammar (stray %, characters outside attr-char incl. raw non-ASCII, extra/missing quote mark, bad charset/language syntax, no value characters) are not refused by the tree but read literally or ignored (accepted by the coordinator as not part of the statement); the oracle accepts the parse error, ignored, or a liberal literal reading (every well-formed pct-encoded is an octet, any other character stands for itself) and such a reading exists only if its octets are well-formed in the charset - so a made-up U+FFFD name is a failure in every class. name* is not supported (RFC 7578 4.2 forbids it): it must change nothing',
    'section (e): get_media() on a part may also raise the HTTP errors of the part media handlers - HTTPUnsupportedMediaType (415: no handler for the declared type) and MediaMalformedError (400: the content is not a document of the declared type); these are accepted there besides a value and the multipart parse error. get_text()/get_data()/name/filename/content_type may only give a value or MultipartParseError. The expected text of get_text() is bytes.decode(charset) as documented (the charset must be supported by bytes.decode), MultipartParseError when that raises anything; with a duplicated charset parameter or a near-miss media type (TEXT/PLAIN, blanks) any str/None/MultipartParseError is accepted',
    'the parse_header correspondence feeds ASCII header values only (str.strip()/str.lower() on non-ASCII text are outside the Mt model); non-ASCII names are covered by the oracle',
    'reader chunk sizes are >= len(CRLF--boundary) (always true for the default 32 KiB / 8 KiB and boundaries <= 70 bytes); smaller chunk sizes are exercised only in the correspondence, where next() raises ValueError on both sides',
    'the async parser: Ma.next is the transcription of falcon/asgi/multipart.py _iterate_parts over a reader interface (Ma.Ops); async_refines_flat, sync_async_agree and the async limit theorems hold for every reader that satisfies the flat-cursor laws Ma.Lawful (explicit structure fields; proved for the sync reader model, for the cursor itself, and - arLawful - for the transcription Ma.AR of falcon/asgi/reader.py over any lawful chunk source incl. delimit as a nested reader over parent._iter_delimited); Ma.next over Ma.AR is tied to the real async parser by the madriver correspondence (headers, bytes, error kinds, tell()/eof of the part stream, tell() of the parent)',
    'async side of the theorems: chunk size >= len(CRLF--boundary) and >= 4; application behaviour on a part stream is a list of read/readall/peek/read_until/pipe_until/pipe/exhaust/async-for operations with valid arguments (a second async for on the same stream raises OperationNotAllowed in the code and is not an operation of the model); get_data is modelled (Ma.getData), get_text/get_media are get_data/read + exhaust followed by decoding and are carried by the oracle',
    'the mapping of DelimiterError to MultipartParseError, parse_header/RFC 5987 decoding of name/filename and the BodyPart accessors are outside Mp.next and are carried by the oracle only',
]
RULE = ('(a1) async model correspondence (madriver): messy / reference-encoded / edited / truncated bodies, boundaries 1..70, transport pieces of 1..1000 bytes incl. empty ones, reader chunk sizes from len(--boundary) (below the delimiter: ValueError on both sides) to 8192, header limits 0/20/40/8192, count limits 0/1/2/64, buffer limits 0/3/5/20/1MiB, interleaved __anext__ / read / readall / peek / read_until / pipe_until / pipe / exhaust / async for / get_data (repeated) on the part stream, 35% whole-form iterations; compared: headers, bytes, error kinds, tell()/eof of the part stream, tell() of the parent; (a2) buffer-limit oracle: 2-5 calls of get_data / .data / get_text / .text per part with the limit at len-1/len/len+1 and small values, both stacks; (a0) cursor-level correspondences: reference-encoded forms (oracle generator and forms with arbitrary CRLF-free header lines, 0-5 parts, boundaries 1..70), 40% intact / 40% 1-2 byte edits / 20% truncated, 12% messy; limits at block-size-1/size/size+1 and count n-1/n/n+1; reader chunk sizes from len(delimiter); every transport chunk plan; each part read to its end by read()/pipe()/read(k) loop/readline loop/read_until loop (sync) or read()/readall()/pipe()/read(k) loop/async iteration (async); (a) correspondence: forms of 0-4 parts over {a,b,CR,LF,-,:,space,boundary bytes} with valid/odd header lines, near-miss delimiters, 25% single/double byte edits, 10% truncations, '
        'declared length +-, short reads, chunk sizes from len(delimiter)-1 to 64, header-size limits 20/40/8192, part-count limits 0/1/2/64, interleaved next/read/peek/read_until/readline/pipe on the part stream; '
        '(b) oracle: reference-encoded forms of 0-5 parts (binary contents built from CR, LF, dashes, boundary prefixes, NUL, 0xff; json/urlencoded/text parts; 0..70000 bytes), boundaries of length 1..70 over the RFC 2046 bchars (quoted when needed, trailing blanks), '
        'optional preamble/epilogue/final CRLF, plain / UTF-8 / RFC 5987 filenames, ignored extra headers, header-name case; x transport chunking (1 byte .. whole, two-chunk splits at every offset for small bodies) x reader chunk size '
        'x per-part consumption script (skip, peek, partial read, read loop, full read, get_data/data, get_text/text, get_media/media, read_until, readline|async-iteration, pipe, exhaust) x limits at size-1/size/size+1 '
        'x entry point (handler.deserialize[_async] on a raw stream / BufferedReader / BoundedStream, Request.get_media, full App call); '
        '(c) random single/double edits (delete, substitute, insert, truncate - also by Content-Length only) of valid bodies, plus for small bodies every single-byte deletion, every truncation and every substitution by each of CR LF - : ; space " = NUL 0xff 0xc3 A * (3 of them per position in quick), judged by a flat-buffer reference splitter; '
        '(d) characters of names and filenames: EXHAUSTIVELY every 1-character string over printable ASCII + HTAB + the empty string, every 2-character string over the 20-symbol alphabet {" \\ ; = , * \' % space a z N 0 . - / : ( & e-acute}, every pair special x printable ASCII in both orders (2207 strings per run, sharded), every 3-character string over the alphabet in the thorough tier (2400 sampled in quick), plus random strings of 2-8 fragments (\";  \\\"  name=  filename*=  UTF-8\'\'  %22 ...) or 4-24 characters; each string is placed as name (only / last / first parameter) and as filename (last / first), beside a second value from a list with its own specials, written as quoted-string (a token sometimes bare, so the fast path of parse_header is taken too), attribute names in any case, blanks/HTAB around the semicolons, 20% an extra parameter anywhere, form-data in any case; 1-6 such parts per form x random boundary/chunking/consumption script/entry point as in (b); judged for exact name, filename, content type, content (class F46 under its own oracle, see ASSUMPTIONS); '
        '(e) parameter values handed to library functions: forms of 1-3 parts whose Content-Type is text/plain with a charset that is valid (11 spellings) or odd (one NUL/control/DEL/blank/quote/backslash/;/=/%/non-ASCII character inserted into, substituted in, put before or after a valid name; the character alone; empty; unknown; non-text codecs hex/rot13/base64/undefined/idna/punycode/unicode_escape/utf-7/mbcs; 30..7900 characters, also across the header-size limit), quoted when needed, in any position among 0-2 other parameters; json/urlencoded parts with well-formed parameters (strict get_media value) or odd parameters/suffixes (;; =  q=\"  NUL  2500-character parameter lists); odd media types (empty, blank, /, a/b/c, */*, NUL inside, 3000 characters, TEXT/PLAIN, duplicated charset); 30% a filename* whose charset/language are valid or odd; consumed 50% by get_text/.text, 20% get_media/.media, 15% get_data/.data, rest stream reads, on both stacks and all entry points; '
        'plus for one small valid form per shard EVERY position of every parameter value (name, filename/filename*, both charsets, incl. the = and the byte after the value) x byte values {0x00-0x20, \" % \' * ; = A \\ DEL 0x80 0xC3 0xE9 0xFF} (all 256 in the thorough tier) as substitution and (charset values; everywhere in thorough) insertion, read by get_text/.text (70%), get_media, get_data, judged by the flat-buffer splitter; '
        '(g) RFC 8187/5987 extended values, WELL-FORMED AND MALFORMED: for 10 (thorough: 16) well-formed filename* values (UTF-8 with 2/3/4-octet sequences, ISO-8859-1, US-ASCII, windows-1252, with/without language, en-GB) EVERY single edit of the whole '
        'value - each deletion, each substitution by one of 34 characters (hex digits of both cases, % G z \' " blank * ; = \\ - e-acute), each insertion of one of 13 characters, at every position incl. charset, quote marks and language (12865 values per run, sharded) - '
        'plus a grammar (charset: 11 core spellings / 14 optional / 11 unknown / 15 syntactically odd; language: none, en, en-GB, zh-Hant-TW, odd; value-chars composed of encodable text with over-escaping and lower-case hex, '
        'octet sequences ILL-FORMED in UTF-8 by family - truncated, lone continuation, overlong, surrogate, > U+10FFFF, invalid octet, lead byte followed by ASCII -, octets >= 0x80 (ill-formed when declared US-ASCII), stray percent signs, characters outside attr-char incl. raw non-ASCII; '
        '0-3 quote marks; empty value); each value is written bare or as quoted-string, alone or with a plain filename before/after it, 8% with a name* beside it, 1-6 such parts per form x random boundary/chunking/consumption script/entry point as in (b), both stacks; '
        'judged by the strict reference decoder of harness/lib_extvalue.py (hand-written RFC 3629 / ISO-8859-1 / US-ASCII decoders): well-formed -> exactly the decoded name, octets ill-formed in the declared charset -> the multipart parse error (and secure_filename too), '
        'unknown/optional charset -> decoded, parse error or ignored; grammar violations under their own oracle (see ASSUMPTIONS); '
        'SECOND-ORDER observation in (a)-(g): every byte string a part hands out (stream.read/peek/read_until/readline, each piece of a read loop, each chunk written by pipe or yielded by an iteration, get_data(), .data) must be exactly a bytes '
        '(type(x) is bytes; a bytearray with the right content is a difference for the oracles and, as a !TYPE suffix the models never emit, for the correspondences); get_data/.data -> bytes and get_text/.text -> str in the buffer-limit oracle; '
        '(f) correspondence parse_header = Mt.parseHeader on ASCII Content-Disposition values from the sweep, Content-Type values with odd charsets and junk over {\" \\ ; = blank HTAB NUL 0x1C ,}; '
        '(f2) the encoder of the round-trip theorems: 1-4 parameters with distinct names in any case, values from the swept strings / random over the specials (ASCII), white space {empty, SP, HTAB, SP SP, SP HTAB, 0x0B, 0x1F} before and after each semicolon, main values form-data / text/plain / attachment / empty / Form-Data; correspondence _qstr = Qe.quote and header text = Qe.renderG character for character; oracle (the statement of Mt.parseHeader_renderG evaluated on the REAL parse_header): outside class F46 the result is exactly (main, {lower(name): value}) in order; class F46 lines go to the parse_header = Mt.parseHeader correspondence only; '
        'non-trivial = at least one part was yielded or a parse error was raised; distinct = distinct (body, boundary, options, script, chunking, path)')
PARTIAL = ('Proved in Lean: parse_encode (with decided necessity witnesses), parseAll_encode with biting limits, headers_size_limit_exact, part_count_limit_exact (arbitrary and encoded bodies), '
           'parser_terminates, invalid_is_parse_error_only on the flat parser Mf; the full bridge next_refines_flat (Mp.next over the buffered reader = Mf on the text, every lawful source/chunking, '
           'every history of public reader operations on the part streams) with consumption_independent, chunking_independent, impl_parse_encode; '
           'for the ASYNC parser (Ma.next = transcription of falcon/asgi/multipart.py _iterate_parts over a reader interface): async_refines_flat, sync_async_agree, async_error_only, '
           'async_headers_size_limit_exact, async_part_count_limit_encoded, async_parse_encode for EVERY reader satisfying the flat-cursor laws Ma.Lawful (explicit structure fields), next_sync_eq (over the sync reader '
           'the async loop IS Mp.next), async_part_count_limit_exact for every reader whatsoever; arLawful: the transcription Ma.AR of falcon/asgi/reader.py, generic in its chunk source, with delimit as a second '
           'reader over parent._iter_delimited (own buffer, own _iter_normalized), satisfies the laws - hence async_concrete_refines_flat, sync_async_agree_concrete, async_concrete_parse_encode, '
           'async_concrete_error_only, async_chunking_independent for EVERY list of transport pieces; BodyPart.get_data (same body on both stacks): '
           'async_buffer_limit_exact, buffer_limit_every_call, tooLarge_sticky (repair 913e041, F39) with the pinned regression witness. '
           'NOT proved in Lean: (1) get_text/get_media decoding, RFC 5987 decoding of filename* (oracle: strict reference decoder over all single edits of well-formed values + a grammar of malformed ones), the TYPE of the byte strings handed out (not a notion of the models; oracle + rendering), content_type, secure_filename and the mapping '
           'DelimiterError -> MultipartParseError are outside the models and are carried by the oracle only; parse_header (which name/filename/get_text go through) is MODELLED (Mt.parseHeader, the C11 model, tied here by its own correspondence on Content-Disposition/Content-Type values) and its round trip IS PROVED (FalconModel/QuotedStringProofs.lean): parseHeader_render / parseHeader_renderG - for every main value, every list of distinct token names (any case, any white space around the semicolons) and ARBITRARY values written as RFC 9110 quoted-strings, parse_header gives back exactly the names and values provided no value followed by another parameter ends in a backslash (noF46); unquote_quote for every string; the splitter is a two-bit scan (quoteAwareEnd_eq_cut) whose fuels suffice for every input (parseParamOld_fuel, quoteAwareEnd_fuel); noF46 is necessary: split_render_iff (splitter level, offending value anywhere), f46_exact / f46_value / parseHeader_render_iff_partial (dictionary level, offending value next to last after any well-formed prefix; f46_value is the exact wrong outcome); still NOT proved there: the dictionary-level necessity with the offending value at an arbitrary position (full statement kept in the Lean file; the real function satisfies it on all 67081 two-parameter lists over a 6-symbol alphabet), values written as bare tokens (fast path: correspondence + sweep only), RFC 5987 decoding; (2) the bridges need chunk size >= len(CRLF--boundary) (below it next() raises ValueError: correspondence only) '
           'and max_body_part_headers_size >= 0 or -1; (3) application behaviour is a list of reader operations fixed per body (an adaptive application performs some such list on each body, so this loses nothing for a given run); '
           'on the async side a second `async for` over the same stream (OperationNotAllowed) and tell()/eof are not part of the theorems (tell()/eof are compared in the correspondence). '
           'Mp.next = the real sync parser, Ma.next over Ma.AR = the real async parser and Mf.parseAll = the real sync/async parsers are correspondences (differential), not proofs about Python.')
JOBS = {'quick': 4, 'thorough': 16}

CRLF = b'\r\n'


def run(ctx):
    if ctx.shard[0] == 0:
        _example(ctx)
    _corr(ctx)
    _flat(ctx)
    _oracle(ctx)
    # (the newer sections come last so that the random streams of the older ones are what they were)
    _acorr(ctx)
    _buffer_oracle(ctx)
    _oracle(ctx, section='headers')
    _ph_corr(ctx)
    _qs_corr(ctx)


def _example(ctx):
    """one fixed oracle case for the evidence file (what the reference encoder produces and what the handler must yield)"""
    import io
    from falcon.media import MultipartFormHandler
    b = b'-x.y'
    parts = [{'block': b'Content-Disposition: form-data; name="a"', 'data': b'\r\n---x.'},
             {'block': b"content-type: application/json\r\nContent-Disposition: form-data; name=\"f\"; filename*=UTF-8''%E2%82%AC.json", 'data': b'{"k": 1}'}]
    body = _encode(parts, b, b'preamble\r\n', b'\r\nepilogue')
    try:
        form = MultipartFormHandler().deserialize(io.BytesIO(body), 'multipart/form-data; boundary="-x.y"', len(body))
        impl = [[p.name, p.filename, p.content_type, p.get_data()] for p in form]
    except Exception as e:  # noqa  (only an illustration: the oracles below judge)
        impl = f'raised {type(e).__name__}'
    ctx.sample({'oracle_example': {'body': body, 'boundary': b, 'reference_split': _ref_split(body, b, 8192, 64), 'implementation': impl}})


import contextlib


@contextlib.contextmanager
def alarm(cpu=3.0, wall=90.0):
    """Like runner.alarm, but the 3 s are CPU seconds of this process (ITIMER_PROF): a busy loop in the implementation is
    still an outcome (`Hang`), while a heavily loaded machine (many checks running side by side) cannot turn a 50 ms
    parse into a false "did not return". A generous wall-clock limit backs it up for a wait that burns no CPU."""
    import signal
    from runner import Hang

    def fire(signum, frame):
        raise Hang()
    o1 = signal.signal(signal.SIGPROF, fire); o2 = signal.signal(signal.SIGALRM, fire)
    signal.setitimer(signal.ITIMER_PROF, cpu); signal.setitimer(signal.ITIMER_REAL, wall)
    try:
        yield
    finally:
        signal.setitimer(signal.ITIMER_PROF, 0); signal.setitimer(signal.ITIMER_REAL, 0)
        signal.signal(signal.SIGPROF, o1); signal.signal(signal.SIGALRM, o2)


# =========================================================================================== correspondence (Mp.next)

_ERR = {'unexpected form structure': 'structure', 'incomplete body part headers': 'headers',
        'the deprecated Content-Transfer-Encoding header field is unsupported': 'cte',
        'maximum number of form body parts exceeded': 'count'}


def _gen_messy_body(rnd, boundary):
    alph = b'ab\r\n-: ' + boundary

    def junk(n):
        return bytes(rnd.choice(alph) for _ in range(n))
    out = b''
    if rnd.random() < 0.3:
        out += junk(rnd.randint(0, 6)) + (CRLF if rnd.random() < 0.5 else b'')
    for i in range(rnd.choice([0, 1, 1, 2, 2, 3, 4])):
        out += b'--' + boundary + CRLF
        hs = []
        for _ in range(rnd.choice([0, 1, 1, 2, 3])):
            hs.append(rnd.choice([b'Content-Disposition: form-data; name="f%d"' % i, b'content-type: text/plain', b'CONTENT-TYPE: a/b',
                                  b'X-Other: 1', b'Content-Transfer-Encoding: binary', b'Content-Transfer-Encoding: base64', b'novalue',
                                  b'Content-Type:nospace', b'Content-Type: x: y', b': empty', b'Content-Disposition: ' + junk(3)]))
        out += CRLF.join(hs) + CRLF + CRLF
        out += junk(rnd.choice([0, 1, 2, 5, 9, 20]))
        if rnd.random() < 0.15:
            out += b'\r\n--' + boundary[:-1]   # near miss
        out += CRLF
    out += b'--' + boundary + b'--'
    if rnd.random() < 0.6:
        out += CRLF
    if rnd.random() < 0.2:
        out += junk(rnd.randint(1, 5))
    r = rnd.random()
    if r < 0.25 and out:
        for _ in range(rnd.choice([1, 1, 2])):
            p = rnd.randrange(len(out)); k = rnd.choice('dir')
            if k == 'd': out = out[:p] + out[p + 1:]
            elif k == 'i': out = out[:p] + bytes([rnd.choice(alph)]) + out[p:]
            else: out = out[:p] + bytes([rnd.choice(alph)]) + out[p + 1:]
    elif r < 0.35:
        out = out[:rnd.randrange(len(out) + 1)]
    return out


def _corr(ctx):
    import io
    import re
    import asyncio
    from runner import hx, Hang
    from falcon.util.reader import BufferedReader
    from falcon.asgi.reader import BufferedReader as ABR
    from falcon.errors import DelimiterError, MultipartParseError
    from falcon.media.multipart import MultipartForm, MultipartParseOptions
    from falcon.asgi.multipart import MultipartForm as AForm
    rnd = ctx.rng

    class Src:
        def __init__(self, data, shorts):
            self.data = data; self.shorts = list(shorts); self.asked = []

        def read(self, size):
            self.asked.append(size)
            n = max(size, 0); cap = n
            if self.shorts:
                c = self.shorts.pop(0)
                if c: cap = min(c, n)
            k = min(cap, len(self.data)); out = self.data[:k]; self.data = self.data[k:]; return out

    # private bookkeeping (remaining budgets) is printed by the driver but is not part of the comparison
    strip_priv = lambda s: re.sub(r' rem=-?\d+| crem=-?\d+', '', s)
    strip_all = lambda s: re.sub(r' rem=-?\d+| crem=-?\d+| asked=\[[^\]]*\]', '', s)
    sess = ctx.session('sync MultipartForm.__iter__ + part-stream ops = Mp.next (incl. sizes asked of the raw stream)', 'mpdriver', norm=strip_priv)
    asess = ctx.session('async MultipartForm._iterate_parts + part-stream ops = Mp.next (observable outputs)', 'mpdriver', norm=strip_all)

    def hdrs(part):
        return ';'.join(sorted(k.hex() + '=' + v.hex() for k, v in part._headers.items()))

    def sync_case():
        boundary = rnd.choice([b'b', b'XY', b'-x', b'ab', b'B0UND'])
        body = _gen_messy_body(rnd, boundary)
        dlen = len(boundary) + 4
        chunk = rnd.choice([dlen, dlen, dlen + 1, dlen + 1, 9, 13, 16, 64, 64, max(1, dlen - 1)])
        L = len(body); maxlen = rnd.choice([L, L, L, L, max(0, L - 2), L + 3])
        shorts = [rnd.choice([0, 0, 1, 2, 3]) for _ in range(rnd.randint(0, 12))]
        maxhdr = rnd.choice([8192] * 5 + [20, 40]); maxcount = rnd.choice([64] * 4 + [1, 2, 0])
        s = Src(body, shorts); reader = BufferedReader(s.read, maxlen, chunk)
        opts = MultipartParseOptions(); opts.max_body_part_headers_size = maxhdr; opts.max_body_part_count = maxcount
        form = MultipartForm(reader, boundary, None, opts); it = iter(form); finished = False; part = None
        newline = f"mpnew {chunk} {maxlen} {hx(body)} {','.join(map(str, shorts)) or '-'} {boundary.hex()} {maxhdr} {maxcount}"
        sess.case({'body': body, 'boundary': boundary}); sess.op(newline, 'ok')
        hist = []; nontriv = False; hang = None
        for _ in range(rnd.randint(1, 10)):
            op = rnd.choice(['next', 'next', 'next', 'read', 'read', 'ru', 'rl', 'pipe', 'peek']) if (part is not None and chunk >= dlen) else 'next'
            try:
                with alarm(3):
                    if op == 'next':
                        hist.append('next')
                        if finished:
                            sess.op('next', 'stop'); continue
                        try:
                            part = next(it); nontriv = True
                            sess.op('next', f"part {hdrs(part)} rem={reader._max_bytes_remaining} crem={part.stream._max_bytes_remaining} asked={s.asked}")
                            ctx.count('corr_sync_part')
                        except StopIteration:
                            finished = True; part = None; sess.op('next', f"end rem={reader._max_bytes_remaining} asked={s.asked}"); ctx.count('corr_sync_end')
                        except MultipartParseError as e:
                            finished = True; part = None; k = _ERR.get(e.description, 'other:' + str(e.description)); nontriv = True
                            sess.op('next', f"err {k} rem={reader._max_bytes_remaining} asked={s.asked}"); ctx.count('corr_sync_err_' + k)
                        except ValueError:
                            finished = True; part = None; sess.op('next', f"err value rem={reader._max_bytes_remaining} asked={s.asked}"); ctx.count('corr_sync_err_value')
                        except Hang:
                            raise
                        except Exception as e:  # noqa  (no such outcome exists in the model: a correspondence mismatch)
                            finished = True; part = None; sess.op('next', f"err other:{type(e).__name__} asked={s.asked}")
                        continue
                    r = part.stream
                    st = lambda: f" rem={reader._max_bytes_remaining} crem={r._max_bytes_remaining} asked={s.asked}"
                    line = None
                    try:
                        if op == 'read':
                            n = rnd.choice([None, -1, 0, 1, 2, 3, 5, 9, 100]); line = f"p read {'none' if n is None else n}"; out = r.read(n); sess.op(line, 'ok ' + _hxt(out) + st())
                        elif op == 'peek':
                            n = rnd.choice([-1, 0, 1, 2, 3, 9]); line = f"p peek {n}"; out = r.peek(n); sess.op(line, 'ok ' + _hxt(out) + st())
                        elif op == 'ru':
                            d = rnd.choice([b'\n', b'-', b'\r\n', b'--', b'a-a', b'ab']); n = rnd.choice([-1, -1, 0, 1, 2, 3, 4, 8, 16, 100]); c = rnd.choice([0, 0, 1])
                            line = f"p ru {d.hex()} {n} {c}"; out = r.read_until(d, n, bool(c)); sess.op(line, 'ok ' + _hxt(out) + st())
                        elif op == 'pipe':
                            line = 'p pipe'; dst = _ListSink(); r.pipe(dst); sess.op(line, 'ok ' + _hxj(dst.got) + st())
                        elif op == 'rl':
                            n = rnd.choice([-1, -1, 0, 1, 3, 100]); line = f"p rl {n}"; out = r.readline(n); sess.op(line, 'ok ' + _hxt(out) + st())
                        hist.append(line)
                    except DelimiterError:
                        sess.op(line, 'err delim' + st()); hist.append(line)
                    except ValueError:
                        sess.op(line, 'err value' + st()); hist.append(line)
                    except Hang:
                        raise
                    except Exception as e:  # noqa
                        sess.op(line, f'err other:{type(e).__name__}' + st()); hist.append(line)
            except Hang:
                hang = f'{op} did not return within 3 CPU-seconds'
                break
        ctx.oracle('sync parser: every next()/part-stream call returns (no hang) on arbitrary, also malformed, bodies', hang is None, hang,
                   {'kind': 'messy-sync', 'body': body, 'boundary': boundary, 'chunk_size': chunk, 'max_stream_len': maxlen, 'shorts': shorts,
                    'max_body_part_headers_size': maxhdr, 'max_body_part_count': maxcount, 'history': hist})
        ctx.seen(('cs', newline, tuple(hist)), nontriv)

    for _ in range(ctx.n(12000, 160000)):
        sync_case()
    sess.finish()

    async def async_case():
        boundary = rnd.choice([b'b', b'XY', b'-x', b'ab', b'B0UND'])
        body = _gen_messy_body(rnd, boundary)
        dlen = len(boundary) + 4
        chunk = rnd.choice([dlen, dlen, dlen + 1, dlen + 2, 9, 13, 16, 64, 64]); chunk = max(chunk, dlen)
        maxhdr = rnd.choice([8192] * 5 + [20, 40]); maxcount = rnd.choice([64] * 4 + [1, 2, 0])
        pieces = []; i = 0
        while i < len(body):
            k = rnd.choice([1, 1, 2, 3, 5, 8, 30, 1000]); pieces.append(body[i:i + k]); i += k
        if rnd.random() < 0.2: pieces.insert(rnd.randint(0, len(pieces)), b'')

        async def gen():
            for c in pieces: yield c
        opts = MultipartParseOptions(); opts.max_body_part_headers_size = maxhdr; opts.max_body_part_count = maxcount
        form = AForm(ABR(gen(), chunk), boundary, None, opts); it = form.__aiter__(); finished = False; part = None
        # the model side reads the same text through a sync reader of the same chunk size: by the Rd.* refinement theorems
        # the observable outputs do not depend on the chunking
        newline = f"mpnew {chunk} {len(body)} {hx(body)} - {boundary.hex()} {maxhdr} {maxcount}"
        asess.case({'body': body, 'boundary': boundary, 'pieces': [len(p) for p in pieces]}); asess.op(newline, 'ok')
        hist = []; nontriv = False; hang = None
        for _ in range(rnd.randint(1, 10)):
            op = rnd.choice(['next', 'next', 'next', 'read', 'read', 'ru', 'pipe', 'peek']) if part is not None else 'next'
            try:
                with alarm(3):
                    if op == 'next':
                        hist.append('next')
                        if finished:
                            asess.op('next', 'stop'); continue
                        try:
                            part = await asyncio.wait_for(it.__anext__(), 30); nontriv = True
                            asess.op('next', f"part {hdrs(part)}"); ctx.count('corr_async_part')
                        except StopAsyncIteration:
                            finished = True; part = None; asess.op('next', 'end'); ctx.count('corr_async_end')
                        except MultipartParseError as e:
                            finished = True; part = None; k = _ERR.get(e.description, 'other:' + str(e.description)); nontriv = True
                            asess.op('next', f"err {k}"); ctx.count('corr_async_err_' + k)
                        except (Hang, asyncio.TimeoutError):
                            raise
                        except Exception as e:  # noqa
                            finished = True; part = None; asess.op('next', f"err other:{type(e).__name__}")
                        continue
                    r = part.stream; line = None
                    try:
                        if op == 'read':
                            n = rnd.choice([None, -1, 0, 1, 2, 3, 5, 9, 100]); line = f"p read {'none' if n is None else n}"
                            out = await asyncio.wait_for(r.read(n),30); asess.op(line, 'ok ' + _hxt(out))
                        elif op == 'peek':
                            n = rnd.choice([-1, 0, 1, 2, 3, 9]); line = f"p peek {n}"; out = await asyncio.wait_for(r.peek(n),30); asess.op(line, 'ok ' + _hxt(out))
                        elif op == 'ru':
                            d = rnd.choice([b'\n', b'-', b'\r\n', b'--', b'a-a', b'ab']); n = rnd.choice([-1, -1, 1, 2, 3, 4, 8, 16, 100]); c = rnd.choice([0, 0, 1])
                            line = f"p ru {d.hex()} {n} {c}"; out = await asyncio.wait_for(r.read_until(d, n, bool(c)),30); asess.op(line, 'ok ' + _hxt(out))
                        elif op == 'pipe':
                            line = 'p pipe'; acc = []

                            class Dst:
                                async def write(self, data): acc.append(data)
                            await asyncio.wait_for(r.pipe(Dst()),30); asess.op(line, 'ok ' + _hxj(acc))
                        hist.append(line)
                    except DelimiterError:
                        asess.op(line, 'err delim'); hist.append(line)
                    except ValueError:
                        asess.op(line, 'err value'); hist.append(line)
                    except (Hang, asyncio.TimeoutError):
                        raise
                    except Exception as e:  # noqa
                        asess.op(line, f'err other:{type(e).__name__}'); hist.append(line)
            except (Hang, asyncio.TimeoutError):
                hang = f'{op} did not return (3 CPU-seconds / blocked for 30 s)'
                break
        ctx.oracle('async parser: every __anext__()/part-stream call returns (no hang) on arbitrary, also malformed, bodies', hang is None, hang,
                   {'kind': 'messy-async', 'body': body, 'boundary': boundary, 'chunk_size': chunk, 'pieces': [len(p) for p in pieces],
                    'max_body_part_headers_size': maxhdr, 'max_body_part_count': maxcount, 'history': hist})
        ctx.seen(('ca', newline, tuple(hist), tuple(len(p) for p in pieces)), nontriv)

    async def amain():
        for _ in range(ctx.n(8000, 100000)):
            await async_case()
    asyncio.run(amain())
    asess.finish()


# =========================================================================================== correspondence (Ma: async parser)

def _acorr(ctx):
    """Ties FalconModel/MultipartAsync.lean (Ma.next over the transcription Ma.AR of falcon/asgi/reader.py, the part stream being
    the nested reader over parent._iter_delimited; Ma.getData) to the real falcon/asgi/multipart.py: same body, same transport
    pieces, same reader chunk size, same limits, same interleaving of __anext__ and part-stream operations."""
    sess = ctx.session('async MultipartForm._iterate_parts + BodyPart.get_data + part-stream ops = Ma.next / Ma.getData over the async reader model '
                       '(headers, bytes, error kinds, tell()/eof of the part stream, tell() of the parent)', 'madriver')
    _acorr_cases(ctx, sess, ctx.n(7000, 90000))
    sess.finish()


def _acorr_cases(ctx, sess, n):
    import asyncio
    from runner import hx, Hang
    from falcon.asgi.reader import BufferedReader as ABR
    from falcon.errors import DelimiterError, MultipartParseError
    from falcon.media.multipart import MultipartParseOptions
    from falcon.asgi.multipart import MultipartForm as AForm
    rnd = ctx.rng

    def hdrs(part):
        return ';'.join(sorted(k.hex() + '=' + v.hex() for k, v in part._headers.items()))

    def gen_body(b):
        r = rnd.random()
        if r < 0.45:
            return _gen_messy_body(rnd, b), 'messy'
        parts = _make_parts(rnd, b, nmax=4, big=False)
        for q in parts:
            if len(q['data']) > 40 and rnd.random() < 0.7: q['data'] = q['data'][:rnd.choice([0, 1, 7, 30])]
            if rnd.random() < 0.5: q['block'] = rnd.choice([b'', b'Content-Type: a/b', b'content-disposition: form-data; name="x"', b'X: y\r\nContent-Type: t'])
        parts = [q for q in parts if b'\r\n--' + b not in CRLF + q['data'] + CRLF]
        pre = rnd.choice([b'', b'', b'preamble\r\n', b'\r\n', b'-', b'x\r\n-- no\r\n'])
        if b'--' + b in pre + b'--' + b[:-1]: pre = b''
        tail = rnd.choice([b'', CRLF, CRLF, b'\r\nepilogue', b'epi'])
        body = _encode(parts, b, pre, tail)
        if r < 0.75 or not body: return body, 'encoded'
        if r < 0.9:
            bb = bytearray(body)
            for _ in range(rnd.choice([1, 1, 2])):
                if not bb: break
                i = rnd.randrange(len(bb)); k = rnd.random(); c = rnd.choice(b'\r\n-:; ab' + b)
                if k < 0.35: del bb[i]
                elif k < 0.8: bb[i] = c
                else: bb.insert(i, c)
            return bytes(bb), 'edited'
        return body[:rnd.randrange(len(body) + 1)], 'truncated'

    async def one():
        b = rnd.choice([b'b', b'XY', b'-x', b'ab', b'B0UND', b'-']) if rnd.random() < 0.8 else _boundary(rnd)
        body, kind = gen_body(b)
        dlen = len(b) + 4
        chunk = rnd.choice([dlen, dlen, dlen, dlen + 1, dlen + 1, dlen + 2, 9, 13, 16, 64, 64, 8192, dlen - 1, dlen - 2])
        chunk = max(chunk, 1)
        maxhdr = rnd.choice([8192] * 5 + [20, 40, 0]); maxcount = rnd.choice([64] * 4 + [1, 2, 0]); maxbuf = rnd.choice([1 << 20] * 3 + [0, 3, 5, 20])
        pieces = []; i = 0
        sizes = rnd.choice([[1], [1, 1, 2, 3], [1, 2, 3, 5, 8, 30], [5, 8, 30, 1000], [1000]])
        while i < len(body):
            k = rnd.choice(sizes); pieces.append(body[i:i + k]); i += k
        for _ in range(rnd.choice([0, 0, 0, 1, 2])): pieces.insert(rnd.randint(0, len(pieces)), b'')

        async def gen():
            for c in pieces: yield c
        opts = MultipartParseOptions(); opts.max_body_part_headers_size = maxhdr; opts.max_body_part_count = maxcount; opts.max_body_part_buffer_size = maxbuf
        parent = ABR(gen(), chunk)
        form = AForm(parent, b, None, opts); it = form.__aiter__(); finished = False; part = None; iterated = False
        newline = f"manew {chunk} {','.join(hx(p) for p in pieces) or '_'} {b.hex()} {maxhdr} {maxcount} {maxbuf}"
        sess.case({'body': body, 'boundary': b, 'kind': kind, 'pieces': [len(p) for p in pieces], 'chunk_size': chunk,
                   'max_body_part_headers_size': maxhdr, 'max_body_part_count': maxcount, 'max_body_part_buffer_size': maxbuf})
        sess.op(newline, 'ok')
        hist = []; nontriv = False; hang = None
        full = rnd.random() < 0.35     # iterate the whole form, one consumption step per part
        for _ in range(40 if full else rnd.randint(1, 12)):
            if part is None: op = 'next'
            elif full: op = 'next' if hist[-1] != 'next' else rnd.choice(['next', 'read', 'readall', 'pipe', 'iter', 'getdata', 'exhaust', 'ru', 'peek'])
            else: op = rnd.choice(['next', 'next', 'next', 'read', 'read', 'readall', 'ru', 'ru', 'pu', 'pipe', 'peek', 'peek', 'exhaust', 'iter', 'getdata', 'getdata'])
            if op == 'iter' and iterated: op = 'readall'
            try:
                with alarm(3):
                    if op == 'next':
                        hist.append('next')
                        if finished:
                            sess.op('next', 'stop')
                            if full: break
                            continue
                        iterated = False
                        try:
                            part = await asyncio.wait_for(it.__anext__(), 30); nontriv = True
                            sess.op('next', f"part {hdrs(part)} ptell={parent.tell()}"); ctx.count('acorr_part')
                        except StopAsyncIteration:
                            finished = True; part = None; sess.op('next', f"end ptell={parent.tell()}"); ctx.count('acorr_end')
                        except MultipartParseError as e:
                            finished = True; part = None; k = _ERR.get(e.description, 'other:' + str(e.description)); nontriv = True
                            sess.op('next', f"err {k} ptell={parent.tell()}"); ctx.count('acorr_err_' + k)
                        except ValueError:
                            finished = True; part = None; sess.op('next', f"err value ptell={parent.tell()}"); ctx.count('acorr_err_value')
                        except (Hang, asyncio.TimeoutError):
                            raise
                        except Exception as e:  # noqa  (no such outcome exists in the model: a correspondence mismatch)
                            finished = True; part = None; sess.op('next', f"err other:{type(e).__name__}")
                        continue
                    r = part.stream
                    st = lambda: f" tell={r.tell()} eof={str(r.eof).lower()} ptell={parent.tell()}"
                    line = None
                    try:
                        if op == 'read':
                            k = rnd.choice([None, -1, 0, 1, 2, 3, 5, 9, 100]); line = f"p read {'none' if k is None else k}"
                            out = await asyncio.wait_for(r.read(k), 30); sess.op(line, 'ok ' + _hxt(out) + st())
                        elif op == 'readall':
                            line = 'p readall'; out = await asyncio.wait_for(r.readall(), 30); sess.op(line, 'ok ' + _hxt(out) + st())
                        elif op == 'peek':
                            k = rnd.choice([-1, 0, 1, 2, 3, 9, 10000]); line = f"p peek {k}"; out = await asyncio.wait_for(r.peek(k), 30); sess.op(line, 'ok ' + _hxt(out) + st())
                        elif op == 'ru':
                            d = rnd.choice([b'\n', b'-', b'\r\n', b'--', b'a-a', b'ab', b'\r\n--' + b]); k = rnd.choice([None, -1, -1, 0, 1, 2, 3, 4, 8, 16, 100]); c = rnd.choice([0, 0, 1])
                            line = f"p ru {d.hex()} {'none' if k is None else k} {c}"; out = await asyncio.wait_for(r.read_until(d, k, bool(c)), 30); sess.op(line, 'ok ' + _hxt(out) + st())
                        elif op in ('pu', 'pipe', 'exhaust'):
                            acc = []

                            class Dst:
                                async def write(self, data): acc.append(data)
                            if op == 'pu':
                                d = rnd.choice([b'\n', b'-', b'\r\n', b'--', b'ab']); c = rnd.choice([0, 0, 1]); line = f"p pu {d.hex()} {c}"
                                await asyncio.wait_for(r.pipe_until(d, Dst(), bool(c)), 30); sess.op(line, 'ok ' + _hxj(acc) + st())
                            elif op == 'pipe':
                                line = 'p pipe'; await asyncio.wait_for(r.pipe(Dst()), 30); sess.op(line, 'ok ' + _hxj(acc) + st())
                            else:
                                line = 'p exhaust'; await asyncio.wait_for(r.exhaust(), 30); sess.op(line, 'unit' + st())
                        elif op == 'iter':
                            line = 'p iter'; iterated = True; acc = []

                            async def run_iter():
                                async for c in r: acc.append(c)
                            await asyncio.wait_for(run_iter(), 30); sess.op(line, 'ok ' + _hxj(acc) + st())
                        elif op == 'getdata':
                            line = 'p getdata'
                            try:
                                out = await asyncio.wait_for(part.get_data(), 30); sess.op(line, 'ok ' + _hxt(out) + st())
                            except MultipartParseError as e:
                                sess.op(line, 'err ' + ('toolarge' if e.description == 'body part is too large' else 'other:' + str(e.description)) + st()); ctx.count('acorr_toolarge')
                        hist.append(line); ctx.count('acorr_op_' + op)
                    except DelimiterError:
                        sess.op(line, 'err delim' + st()); hist.append(line)
                    except ValueError:
                        sess.op(line, 'err value' + st()); hist.append(line); ctx.count('acorr_op_valueerror')
                    except (Hang, asyncio.TimeoutError):
                        raise
                    except Exception as e:  # noqa
                        sess.op(line, f'err other:{type(e).__name__}' + st()); hist.append(line)
            except (Hang, asyncio.TimeoutError):
                hang = f'{op} did not return (3 CPU-seconds / blocked for 30 s)'
                break
        ctx.oracle('async parser: every __anext__()/part-stream call returns (no hang) on arbitrary, also malformed, bodies', hang is None, hang,
                   {'kind': 'acorr-' + kind, 'body': body, 'boundary': b, 'chunk_size': chunk, 'pieces': [len(p) for p in pieces],
                    'max_body_part_headers_size': maxhdr, 'max_body_part_count': maxcount, 'history': hist})
        ctx.count('acorr_' + kind); ctx.count('acorr_chunk_' + ('below_delimiter' if chunk < dlen else 'at_delimiter' if chunk == dlen else 'above'))
        ctx.seen(('ma', newline, tuple(hist)), nontriv)

    async def amain():
        for _ in range(n):
            await one()
    asyncio.run(amain())


# =========================================================================================== correspondence (Mf: cursor level)

def _flat(ctx):
    """Ties FalconModel/MultipartFlat.lean to the tree: (1) the harness's reference encoder (the one the oracle uses) and
    Mf.encodeForm produce the same bytes; (2) the real sync and async parsers, with every part read to its end in one of
    several ways, hand out exactly the (header dict, content) sequence and the outcome that Mf.parseAll computes on the flat
    body - for reference-encoded, edited, truncated and messy bodies, limits at their thresholds, every transport chunking."""
    import asyncio
    import io
    from runner import hx, Hang
    from falcon.util.reader import BufferedReader
    from falcon.asgi.reader import BufferedReader as ABR
    from falcon.errors import MultipartParseError
    from falcon.media.multipart import MultipartForm, MultipartParseOptions
    from falcon.asgi.multipart import MultipartForm as AForm
    rnd = ctx.rng
    enc = ctx.session('reference encoder of the harness (_encode) = Mf.encodeForm, byte for byte', 'mpdriver')
    fs = ctx.session('sync MultipartForm, parts read to their end = Mf.parseAll on the flat body (parts, contents, outcome)', 'mpdriver')
    fa = ctx.session('async MultipartForm, parts read to their end = Mf.parseAll on the flat body (parts, contents, outcome)', 'mpdriver')

    def hdrs(part):
        return ';'.join(sorted(k.hex() + '=' + v.hex() for k, v in part._headers.items())) or '-'

    def small_parts(b):
        """parts with arbitrary CRLF-free header lines (also none, empty ones, near-miss names)"""
        alph = b'ab\r\n-: ' + b
        parts = []
        for _ in range(rnd.choice([0, 1, 1, 2, 3])):
            lines = []
            for _l in range(rnd.choice([0, 0, 1, 1, 2, 3])):
                lines.append(rnd.choice([b'', b'Content-Type: a/b', b'content-disposition: form-data; name="x"', b'CONTENT-TYPE: x', b'content-type:nospace',
                                         b'Content-Transfer-Encoding: binary', b'X: y', b'Content-Type: 1: 2', bytes(rnd.choice(b'ab\r\n-: ') for _ in range(rnd.randint(0, 5)))]))
            lines = [ln.replace(b'\r\n', b'\r') for ln in lines]
            data = bytes(rnd.choice(alph) for _ in range(rnd.choice([0, 1, 2, 5, 9, 20])))
            while b'\r\n--' + b in data + b'\r\n--' + b[:-1]:
                data = data.replace(b'--', b'-')
            parts.append({'lines': lines, 'block': CRLF.join(lines), 'data': data})
        return parts

    def gen_form():
        """-> (boundary, parts or None, body, how it was made)"""
        r = rnd.random()
        if r < 0.5:
            b = _boundary(rnd) if rnd.random() < 0.5 else rnd.choice([b'b', b'XY', b'-x', b'B0UND'])
            parts = _make_parts(rnd, b, nmax=4, big=False)
            for q in parts: q['lines'] = q['block'].split(CRLF)
        else:
            b = rnd.choice([b'b', b'XY', b'-x', b'ab', b'B0UND', b'-'])
            parts = small_parts(b)
        pre = rnd.choice([b'', b'', b'preamble\r\n', b'\r\n', b'-', b'--', b'x\r\n-- no\r\n'])
        if b'--' + b in pre + b'--' + b[:-1]: pre = b''
        tail = rnd.choice([b'', CRLF, CRLF, b'\r\nepilogue', b'epi', b'\r\n--' + b + b'\r\n\r\nx\r\n--' + b + b'--'])
        return b, parts, pre, tail, _encode(parts, b, pre, tail)

    def damage(body, b):
        r = rnd.random()
        if r < 0.4 or not body: return body, 'intact'
        if r < 0.8:
            bb = bytearray(body)
            for _ in range(rnd.choice([1, 1, 2])):
                if not bb: break
                i = rnd.randrange(len(bb)); k = rnd.random(); c = rnd.choice(b'\r\n-:; ab' + b)
                if k < 0.35: del bb[i]
                elif k < 0.8: bb[i] = c
                else: bb.insert(i, c)
            return bytes(bb), 'edited'
        return body[:rnd.randrange(len(body) + 1)], 'truncated'

    def limits(parts):
        maxhdr = 8192; maxcount = rnd.choice([64, 64, 0])
        r = rnd.random()
        if r < 0.25 and parts:
            H = len(rnd.choice(parts)['block']); maxhdr = rnd.choice([max(0, H - 1), H, H + 1])
        elif r < 0.35:
            maxhdr = rnd.choice([0, 20, 40])
        elif r < 0.6:
            n = len(parts or []); maxcount = rnd.choice([max(0, n - 1), n, n + 1, 1, 2])
        return maxhdr, maxcount

    def full_read_sync(part):
        how = rnd.choice(['read', 'read', 'pipe', 'loop', 'lines', 'until'])
        s = part.stream
        if how == 'read': return T(s.read())
        if how == 'pipe':
            dst = _ListSink(); s.pipe(dst); return b''.join(T(c) for c in dst.got)
        if how == 'loop':
            k = rnd.choice([1, 2, 7, 64]); out = b''
            while True:
                c = T(s.read(k))
                if not c: return out
                out += c
        if how == 'lines':
            out = b''
            while True:
                ln = T(s.readline())
                if not ln: return out
                out += ln
        out = b''
        while True:
            c = T(s.read_until(b'-')); d = T(s.read(1)); out += c + d
            if not c and not d: return out

    async def full_read_async(part):
        how = rnd.choice(['read', 'readall', 'pipe', 'loop', 'iter'])
        s = part.stream
        if how == 'read': return T(await s.read())
        if how == 'readall': return T(await s.readall())
        if how == 'pipe':
            got = []

            class Dst:
                async def write(self, d): got.append(d)
            await s.pipe(Dst()); return b''.join(T(c) for c in got)
        if how == 'loop':
            k = rnd.choice([1, 2, 7, 64]); out = b''
            while True:
                c = T(await s.read(k))
                if not c: return out
                out += c
        out = b''
        async for c in s: out += T(c)
        return out

    wrong_types = []

    def T(x):
        """every byte string a part stream hands out must be exactly a bytes (the model's contents are); anything else is appended to the reply"""
        if type(x) is not bytes:
            wrong_types.append(type(x).__name__); return _flatb(x)
        return x

    def render(got, outcome):
        tail = (' TYPES!' + ','.join(wrong_types)) if wrong_types else ''
        del wrong_types[:]
        return ''.join(f'p {h} {hx(c)} ' for h, c in got) + outcome + tail

    def setup():
        b, parts, pre, tail, body = gen_form()
        body2, kind = damage(body, b)
        if rnd.random() < 0.12:
            body2 = _gen_messy_body(rnd, b); kind = 'messy'
        maxhdr, maxcount = limits(parts)
        dlen = len(b) + 4
        chunk = rnd.choice([dlen, dlen, dlen + 1, dlen + 3, 2 * dlen, 64 + dlen, 8192])
        opts = MultipartParseOptions(); opts.max_body_part_headers_size = maxhdr; opts.max_body_part_count = maxcount
        return b, body2, kind, maxhdr, maxcount, chunk, opts, _chunk_plan(rnd, len(body2))

    # (1) the encoder
    for _ in range(ctx.n(1200, 16000)):
        b, parts, pre, tail, body = gen_form()
        fin = tail.startswith(CRLF); epi = tail[2:] if fin else tail
        spec = ';'.join((','.join(hx(ln) for ln in q['lines']) if q['lines'] else '_') + '|' + hx(q['data']) for q in parts) or '-'
        enc.case({'boundary': b, 'preamble': pre, 'tail': tail, 'parts': [(q['lines'], q['data']) for q in parts]})
        enc.op(f"encode {hx(b)} {hx(pre)} {hx(epi)} {int(fin)} {spec}", hx(body))
        ctx.seen(('enc', body, b), len(parts) > 0); ctx.count('flat_encode_parts', len(parts))
    enc.finish()

    # (2) the sync parser
    for _ in range(ctx.n(2500, 36000)):
        b, body, kind, maxhdr, maxcount, chunk, opts, plan = setup()
        raw = _WsgiInput(_pieces(plan, body))
        form = MultipartForm(BufferedReader(raw.read, len(body), chunk), b, None, opts)
        got = []; outcome = None
        try:
            with alarm(3):
                try:
                    for part in form:
                        got.append((hdrs(part), full_read_sync(part)))
                    outcome = 'end'
                except MultipartParseError as e:
                    outcome = 'err ' + _ERR.get(e.description, 'other:' + str(e.description))
        except Hang:
            outcome = 'hang'
        except Exception as e:  # noqa  (no such outcome in the model: a mismatch)
            outcome = 'raised ' + type(e).__name__
        fs.case({'body': body, 'boundary': b, 'kind': kind, 'max_headers_size': maxhdr, 'max_count': maxcount, 'chunk_size': chunk, 'chunk_plan': plan})
        fs.op(f"parseflat {hx(body)} {hx(b)} {maxhdr} {maxcount}", render(got, outcome))
        ctx.count('flat_sync_' + kind); ctx.count('flat_sync_outcome_' + outcome.replace(' ', '_'))
        ctx.seen(('fs', body, b, maxhdr, maxcount, chunk, plan), bool(got) or outcome != 'end')
    fs.finish()

    # (3) the async parser
    async def amain():
        for _ in range(ctx.n(1500, 24000)):
            b, body, kind, maxhdr, maxcount, chunk, opts, plan = setup()
            pieces = _pieces(plan, body)

            async def gen():
                for c in pieces: yield c
            form = AForm(ABR(gen(), chunk), b, None, opts)
            got = []; outcome = None

            async def go():
                async for part in form:
                    got.append((hdrs(part), await full_read_async(part)))
            try:
                with alarm(3):
                    try:
                        await asyncio.wait_for(go(), 30); outcome = 'end'
                    except MultipartParseError as e:
                        outcome = 'err ' + _ERR.get(e.description, 'other:' + str(e.description))
            except (Hang, asyncio.TimeoutError):
                outcome = 'hang'
            except Exception as e:  # noqa
                outcome = 'raised ' + type(e).__name__
            fa.case({'body': body, 'boundary': b, 'kind': kind, 'max_headers_size': maxhdr, 'max_count': maxcount, 'chunk_size': chunk, 'chunk_plan': plan})
            fa.op(f"parseflat {hx(body)} {hx(b)} {maxhdr} {maxcount}", render(got, outcome))
            ctx.count('flat_async_' + kind); ctx.count('flat_async_outcome_' + outcome.replace(' ', '_'))
            ctx.seen(('fa', body, b, maxhdr, maxcount, chunk, plan), bool(got) or outcome != 'end')
    asyncio.run(amain())
    fa.finish()


# =========================================================================================== oracle: reference encoder

_TOKEN = b'abcdefghijklmnopqrstuvwxyzABCDEFGHIJKLMNOPQRSTUVWXYZ0123456789-_'
_BCHARS = _TOKEN + b"'()+,./:=? "


def _boundary(rnd):
    n = rnd.choice([1, 1, 2, 3, 5, 8, 16, 30, 40, 69, 70, 70])
    r = rnd.random()
    alph = _TOKEN if r < 0.6 else _BCHARS.replace(b',', b'') if r < 0.92 else _BCHARS   # ',' only sometimes: request-level handling of it is finding F24
    b = bytes(rnd.choice(alph) for _ in range(n))
    if b.endswith(b' '):
        b = b[:-1] + b'x'
    return b


# ---- header parameters (RFC 9110 5.6.6: *( OWS ";" OWS name "=" ( token / quoted-string ) ); quoted-string per 5.6.4)

_TCHAR = set("!#$%&'*+-.^_`|~abcdefghijklmnopqrstuvwxyzABCDEFGHIJKLMNOPQRSTUVWXYZ0123456789")
_SPECIALS = '"\\;=,*\'% '
_ALPHA20 = list(_SPECIALS) + list('azN0.-/:(&') + ['\u00e9']      # the 20-symbol alphabet of the exhaustive pair / triple sweeps
_PRINTABLE = [chr(c) for c in range(0x20, 0x7f)]
_FRAGS = ['";', '\\"', '\\', '"', ';', '; ', 'name=', 'filename=', 'filename*=', "UTF-8''", '%22', '%5C', '%', ' ', '=', ',', '*', "'", 'a', 'bc', 'N', '\u00e9', '\u20ac',
          'form-data', 'x.txt', '/', '..', '\t', '""', '\\\\', '="', '";name="', 'is_admin', '\\";', '";"', ';"']


def _qstr(v):
    """quoted-string = DQUOTE *( qdtext / quoted-pair ) DQUOTE; only DQUOTE and backslash need the quoted-pair"""
    return '"' + v.replace('\\', '\\\\').replace('"', '\\"') + '"'


def _is_token(v):
    return v != '' and all(c in _TCHAR for c in v)


def _enc_params(rnd, first, params, quote_all=False):
    """-> (header value, in_f46_class): values are written as quoted-strings, a token sometimes bare; attribute names in any case;
    optional blanks around the semicolons. in_f46_class: a quoted value ending in an escaped backslash is followed by another
    parameter (known finding F46 of C11: the splitter takes that closing quote for an escaped one)."""
    out = first; f46 = False
    for i, (attr, val) in enumerate(params):
        quoted = quote_all or not (_is_token(val) and rnd.random() < 0.25)
        if quoted and val.endswith('\\') and i < len(params) - 1: f46 = True
        attr = rnd.choice([attr, attr, attr, attr.upper(), attr.capitalize()])
        out += rnd.choice(['; ', '; ', '; ', ';', ' ; ', ';\t']) + attr + '=' + (_qstr(val) if quoted else val)
    return out, f46


def _swept_strings():
    """the deterministic part of the name/filename sweep: [(string, class)]"""
    out = [(s, 'single') for s in _PRINTABLE + ['\t', '']]
    out += [(a + c, 'pair') for a in _ALPHA20 for c in _ALPHA20]
    out += [(a + c, 'special_x_printable') for a in _SPECIALS for c in _PRINTABLE] + [(c + a, 'special_x_printable') for a in _SPECIALS for c in _PRINTABLE]
    return out


def _long_string(rnd):
    if rnd.random() < 0.5:
        return ''.join(rnd.choice(_FRAGS) for _ in range(rnd.randint(2, 8)))
    return ''.join(rnd.choice(_ALPHA20 if rnd.random() < 0.7 else _PRINTABLE) for _ in range(rnd.randint(4, 24)))


def _content_type_header(rnd, b):
    """the request's Content-Type for boundary b: quoted when it holds non-token characters; a quoted value may carry
    trailing blanks, which RFC 2046 5.1.1 says were added by a gateway and must be deleted"""
    s = b.decode('ascii')
    if any(c not in _TOKEN for c in b) or rnd.random() < 0.3:
        s = '"' + s + rnd.choice(['', '', '', ' ', '  ']) + '"'
    return rnd.choice(['multipart/form-data; boundary=', 'multipart/form-data;boundary=', 'multipart/form-data; charset=utf-8; boundary=']) + s


def _pct(s, charset):
    out = ''
    for c in s.encode(charset):
        out += chr(c) if (chr(c).isalnum() and c < 128) or chr(c) in '!#$&+-.^_`|~' else '%%%02X' % c
    return out


def _binary(rnd, n, b):
    alph = [b'\r', b'\n', b'-', b'--', b'a', CRLF, b'\r\n-', b'\r\n--', b'\r\n--' + b[:-1], b'--' + b, b, b'--' + b + b'--', b'x', b'\x00', b'\xff', b': ', b'\r\n\r\n']
    out = b''
    while len(out) < n:
        out += rnd.choice(alph)
    return out[:n] if rnd.random() < 0.5 else out


def _make_parts(rnd, b, nmax=5, big=True):
    import json
    delim = b'\r\n--' + b
    parts = []
    for i in range(rnd.choice([0, 1, 1, 2, 2, 3, 3, 4, 5][:nmax + 4])):
        kind = rnd.choice(['bin', 'bin', 'bin', 'bin', 'text', 'text', 'json', 'urlenc'])
        obj = None; charset = 'utf-8'
        if kind == 'bin':
            r = rnd.random()
            n = rnd.choice([8000, 8192, 9000, 33000, 70000]) if (big and r < 0.015) else rnd.choice([0, 0, 1, 2, 3, 5, 17, 30, 100, 300])
            data = _binary(rnd, n, b)
            ct = rnd.choice([None, 'application/octet-stream', 'image/png', 'text/plain', 'application/x-custom; v=1'])
        elif kind == 'text':
            txt = rnd.choice(['', 'hello', 'two\r\nlines', '--', 'ząsis €', 'line\nline\n', 'café'])
            ct, charset = rnd.choice([(None, 'utf-8'), ('text/plain', 'utf-8'), ('text/plain; charset=utf-8', 'utf-8'), ('text/plain; charset=iso-8859-1', 'iso-8859-1'),
                                      ('text/plain;charset=utf-16-le', 'utf-16-le')])
            try:
                data = txt.encode(charset)
            except UnicodeEncodeError:
                data = txt.encode('utf-8')   # undecodable in the declared charset for some inputs: expected outcome is computed below anyway
        elif kind == 'json':
            obj = rnd.choice([{'a': 1}, [1, 2, 'x\r\n--' + b.decode('ascii')], 'str', 3.5, None, {'k': ['v', {'n': [True, False]}]}, {}])
            data = json.dumps(obj).encode(); ct = rnd.choice(['application/json', 'application/json; charset=utf-8'])
        else:
            obj = {'a': '1', 'b': 'two', 'c': '--'}; data = b'a=1&b=two&c=%2D%2D'; ct = 'application/x-www-form-urlencoded'
        while delim in CRLF + data:
            data = (CRLF + data).replace(b'--' + b, b'-x')[2:]
        name = rnd.choice(['f%d' % i, 'f%d' % i, 'field name', 'ключ', 'a;b=c', 'n' * 40, ''])
        fmode = rnd.choice(['none', 'none', 'plain', 'plain', 'ext', 'both'])
        fname = None; cd = 'form-data; name="%s"' % name
        if fmode in ('plain', 'both'):
            fname = rnd.choice(['a.txt', 'x y.bin', 'žuvis.png', 'semi;colon.txt', '../../etc/passwd', '.hidden'])
            cd += '; filename="%s"' % fname
        if fmode in ('ext', 'both'):
            cs, lang, fname = rnd.choice([('UTF-8', '', '€ rates.txt'), ('utf-8', 'en', 'naïve file.bin'), ('ISO-8859-1', 'en', '£ rates'), ('UTF-8', '', 'plain.txt')])
            cd += "; filename*=%s'%s'%s" % (cs, lang, _pct(fname, cs))
        lines = [rnd.choice(['Content-Disposition', 'Content-Disposition', 'content-disposition', 'CONTENT-DISPOSITION']).encode() + b': ' + cd.encode('utf-8')]
        if ct is not None:
            lines.append(rnd.choice(['Content-Type', 'Content-Type', 'content-type', 'CONTENT-TYPE']).encode() + b': ' + ct.encode())
        for _ in range(rnd.choice([0, 0, 0, 1, 2])):
            lines.append(rnd.choice([b'X-Custom: 1', b'Content-Length: %d' % len(data), b'Content-Transfer-Encoding: binary', b'X-Long: ' + b'v' * rnd.choice([10, 100])]))
        rnd.shuffle(lines)
        parts.append({'name': name, 'filename': fname, 'ct': ct or 'text/plain', 'data': data, 'kind': kind, 'obj': obj, 'charset': charset,
                      'block': CRLF.join(lines)})
    return parts


def _encode(parts, b, preamble=b'', tail=b'\r\n'):
    """RFC 2046 5.1.1: [preamble CRLF] dash-boundary CRLF body-part *(CRLF dash-boundary CRLF body-part) CRLF dash-boundary "--" [CRLF epilogue]"""
    out = preamble
    for p in parts:
        out += b'--' + b + CRLF + p['block'] + CRLF + CRLF + p['data'] + CRLF
    return out + b'--' + b + b'--' + tail


def _ref_split(body, b, maxhdr, maxcount):
    """Flat-buffer reference for arbitrary (also damaged) bodies: ([(header block, content)], 'end' | 'error').
    A part whose closing delimiter is missing is still handed out (its content is everything that is left); the error
    is then due when the application asks for the next part."""
    dash = b'--' + b; delim = CRLF + dash
    i = body.find(dash)
    if i < 0:
        return [], 'error'
    pos = i + len(dash); parts = []
    while True:
        two = body[pos:pos + 2]
        if two == b'--':
            return parts, 'end'
        if two != CRLF:
            return parts, 'error'
        pos += 2
        j = body.find(b'\r\n\r\n', pos)
        if j < 0 or j - pos > maxhdr:
            return parts, 'error'
        block = body[pos:j]; pos = j + 4
        for line in block.split(CRLF):
            k = line.find(b': ')
            if k >= 0 and line[:k].lower() == b'content-transfer-encoding' and line[k + 2:] != b'binary':
                return parts, 'error'
        if maxcount > 0 and len(parts) >= maxcount:
            return parts, 'error'
        k = body.find(delim, pos)
        if k < 0:
            parts.append((block, body[pos:]))
            return parts, 'error'
        parts.append((block, body[pos:k])); pos = k + len(delim)


_ANYHDR = '<str|None|MPE>'


class _Any:
    def __repr__(self): return '<any str|None|MPE>'


_ANY = _Any()   # expected name/filename of a part that is not judged for equality (known class F46)


def _expect_obs(how, arg, data, ct, charset, obj, buf):
    """what one consumption step must observe on a part whose content is `data`"""
    if how in ('skip', 'exhaust'):
        return ('none',)
    if how == 'peek':
        return ('peek', data[:arg])
    if how in ('read_all', 'read_loop', 'lines', 'pipe'):
        return ('bytes', data)
    if how == 'read_n':
        return ('prefix', data[:arg])
    if how in ('get_data', 'data_prop'):
        return ('bytes', data) if len(data) <= buf else ('MPE',)
    if how in ('get_text', 'text_prop'):
        if ct is None:
            return ('anytext',)
        if ct.split(';')[0].strip() != 'text/plain':
            return ('text', None)
        if len(data) > buf:
            return ('MPE',)
        try:
            return ('text', data.decode(charset))
        except UnicodeDecodeError:
            return ('MPE',)
    if how in ('get_media', 'media_prop'):
        return ('media', obj) if ct is not None else ('media-loose',)
    if how == 'read_until':
        i = data.find(arg); a = data if i < 0 else data[:i]
        return ('split', a, data[len(a):])
    raise AssertionError(how)


def _script(rnd, parts, valid=True):
    sc = []
    for i in range(max(1, len(parts) if valid else 6)):
        p = parts[i] if (valid and i < len(parts)) else None
        how = rnd.choice(['skip', 'skip', 'peek', 'read_all', 'read_n', 'read_n', 'read_loop', 'get_data', 'data_prop', 'get_text', 'text_prop',
                          'get_media', 'read_until', 'lines', 'pipe', 'exhaust'])
        arg = None
        if how in ('get_media', 'media_prop') and (p is None or p['kind'] not in ('json', 'urlenc')):
            how = 'get_data'
        if how == 'get_media' and rnd.random() < 0.5:
            how = 'media_prop'
        if how == 'peek': arg = rnd.choice([1, 2, 3])
        elif how == 'read_all': arg = rnd.choice([None, 'readall'])   # async: stream.read() or stream.readall()
        elif how == 'read_n': arg = rnd.choice([0, 1, 2, 3, 7, 50, 10 ** 6] + ([len(p['data']), len(p['data']) + 1, max(0, len(p['data']) - 1)] if p else []))
        elif how == 'read_loop': arg = rnd.choice([1, 2, 5, 64, 5000] if (p is None or len(p['data']) < 5000) else [64, 5000])
        elif how == 'read_until': arg = rnd.choice([b'\n', CRLF, b'-', b'--', b'a', b'\r\n--', b'\xff'])
        sc.append((how, arg))
    return sc


def _chunk_plan(rnd, L):
    r = rnd.random()
    if r < 0.25: return ('uniform', rnd.choice([1, 1, 2, 3, 5, 7, 16, 61]))
    if r < 0.50: return ('split', rnd.randint(0, L))
    if r < 0.85: return ('random', rnd.getrandbits(30))
    return ('whole', 0)


def _pieces(plan, body):
    import random
    kind, x = plan
    if kind == 'uniform': return [body[i:i + x] for i in range(0, len(body), x)]
    if kind == 'split': return [body[:x], body[x:]]
    if kind == 'whole': return [body]
    r = random.Random(x); out = []; i = 0
    while i < len(body):
        k = r.choice([1, 1, 2, 3, 7, 50, 10000]); out.append(body[i:i + k]); i += k
    return out


class _WsgiInput:
    """wsgi.input delivering the body in the planned pieces (a read never spans two pieces)"""
    def __init__(self, pieces):
        self.p = [x for x in pieces if x]; self.calls = 0

    def read(self, n=-1):
        self.calls += 1
        if not self.p: return b''
        c = self.p[0]
        if n is None or n < 0 or n >= len(c):
            self.p.pop(0); return c
        self.p[0] = c[n:]; return c[:n]


def _oracle(ctx, section='main'):
    import asyncio
    import io
    from runner import Hang
    import lib_extvalue as X
    import falcon
    import falcon.asgi
    import falcon.testing as ft
    from falcon.media import MultipartFormHandler
    from falcon.media.multipart import MultipartParseOptions, MultipartParseError as MPE
    from falcon.util.reader import BufferedReader
    from falcon.asgi.reader import BufferedReader as ABR
    from falcon.stream import BoundedStream
    from falcon.asgi.stream import BoundedStream as ABoundedStream
    rnd = ctx.rng

    ntyped = [0]

    def acc(f):
        try:
            return f()
        except MPE:
            return ('MPE',)

    # ------------------------------------------------------------------ consuming one part
    def B(x):
        """second-order observation: a byte string handed out by a part must be exactly a `bytes` (bytearray(b'a') == b'a' is True,
        so the value comparison alone would accept a mutable, unhashable look-alike)"""
        ntyped[0] += 1
        return x if type(x) is bytes else ('NOT-A-BYTES-OBJECT', type(x).__name__, _flatb(x))

    def Bs(xs, joined):
        """... for a sequence of pieces (read loop, lines, chunks written by pipe, chunks of an iteration): the joined bytes if every piece is a bytes"""
        ntyped[0] += len(xs)
        bad = [type(x).__name__ for x in xs if type(x) is not bytes]
        return joined if not bad else ('NOT-ALL-BYTES-OBJECTS', [type(x).__name__ for x in xs], joined)

    class WDst:
        def __init__(self): self.got = []
        def write(self, d): self.got.append(d); return len(d)

    def part_sync(p, how, arg):
        s = p.stream
        try:
            if how == 'skip': return ('none',)
            if how == 'exhaust': s.exhaust(); return ('none',)
            if how == 'peek': return ('peek', B(s.peek(arg)))
            if how == 'read_all': return ('bytes', B(s.read()))
            if how == 'read_n': return ('prefix', B(s.read(arg)))
            if how == 'read_loop':
                out = b''; pieces = []
                while True:
                    c = s.read(arg)
                    pieces.append(c)
                    if not c: return ('bytes', Bs(pieces, out))
                    if len(c) > arg: return ('oversized-read', c)
                    out += c
            if how == 'get_data':
                d = p.get_data(); return ('bytes', B(d)) if p.get_data() is d else ('not-cached',)
            if how == 'data_prop': return ('bytes', B(p.data))
            if how == 'get_text': return ('text', p.get_text())
            if how == 'text_prop': return ('text', p.text)
            if how == 'get_media':
                m = p.get_media(); return ('media', m) if p.get_media() is m else ('not-cached',)
            if how == 'media_prop': return ('media', p.media)
            if how == 'read_until':
                a = s.read_until(arg); return ('split', B(a), B(s.read()))
            if how == 'lines':
                out = []
                while True:
                    ln = s.readline()
                    if not ln: break
                    if b'\n' in ln[:-1]: return ('bad-line', ln)
                    out.append(ln)
                if any(not x.endswith(b'\n') for x in out[:-1]): return ('bad-lines', out)
                return ('bytes', Bs(out, b''.join(out)))
            if how == 'pipe':
                dst = WDst(); s.pipe(dst); return ('bytes', Bs(dst.got, b''.join(dst.got)))
        except MPE:
            return ('MPE',)
        except falcon.HTTPUnsupportedMediaType:
            if how in ('get_media', 'media_prop'): return ('415',)
            raise
        except falcon.MediaMalformedError:
            if how in ('get_media', 'media_prop'): return ('malformed',)
            raise
        raise AssertionError(how)

    async def part_async(p, how, arg):
        s = p.stream
        try:
            if how == 'skip': return ('none',)
            if how == 'exhaust': await s.exhaust(); return ('none',)
            if how == 'peek': return ('peek', B(await s.peek(arg)))
            if how == 'read_all': return ('bytes', B(await (s.read() if arg is None else s.readall())))
            if how == 'read_n': return ('prefix', B(await s.read(arg)))
            if how == 'read_loop':
                out = b''; pieces = []
                while True:
                    c = await s.read(arg)
                    pieces.append(c)
                    if not c: return ('bytes', Bs(pieces, out))
                    if len(c) > arg: return ('oversized-read', c)
                    out += c
            if how == 'get_data':
                d = await p.get_data(); return ('bytes', B(d)) if (await p.get_data()) is d else ('not-cached',)
            if how == 'data_prop': return ('bytes', B(await p.data))
            if how == 'get_text': return ('text', await p.get_text())
            if how == 'text_prop': return ('text', await p.text)
            if how == 'get_media':
                m = await p.get_media(); return ('media', m) if (await p.get_media()) is m else ('not-cached',)
            if how == 'media_prop': return ('media', await p.media)
            if how == 'read_until':
                a = await s.read_until(arg); return ('split', B(a), B(await s.read()))
            if how == 'lines':   # the async stream has no readline: iterate it instead
                out = b''; pieces = []
                async for c in s:
                    pieces.append(c); out += c
                return ('bytes', Bs(pieces, out))
            if how == 'pipe':
                got = []

                class Dst:
                    async def write(self, d): got.append(d)
                await s.pipe(Dst()); return ('bytes', Bs(got, b''.join(got)))
        except MPE:
            return ('MPE',)
        except falcon.HTTPUnsupportedMediaType:
            if how in ('get_media', 'media_prop'): return ('415',)
            raise
        except falcon.MediaMalformedError:
            if how in ('get_media', 'media_prop'): return ('malformed',)
            raise
        raise AssertionError(how)

    def consume_sync(form, script, out, catch=True):
        i = 0
        try:
            for p in form:
                how, arg = script[i % len(script)]; i += 1
                rec = [acc(lambda: p.name), acc(lambda: p.filename), acc(lambda: p.content_type), acc(lambda: p.secure_filename)]
                out.append(rec)
                rec.append(part_sync(p, how, arg))
        except MPE:
            if not catch: raise
            out.append('MPE'); return
        if catch: out.append('end')

    async def consume_async(form, script, out, catch=True):
        i = 0
        try:
            async for p in form:
                how, arg = script[i % len(script)]; i += 1
                rec = [acc(lambda: p.name), acc(lambda: p.filename), acc(lambda: p.content_type), acc(lambda: p.secure_filename)]
                out.append(rec)
                rec.append(await part_async(p, how, arg))
        except MPE:
            if not catch: raise
            out.append('MPE'); return
        if catch: out.append('end')

    # ------------------------------------------------------------------ the entry points
    handler = MultipartFormHandler()
    state = {}

    class WRes:
        def on_post(self, req, resp):
            consume_sync(req.get_media(), state['script'], state['out'], catch=False)
            resp.media = {'ok': True}

    class ARes:
        async def on_post(self, req, resp):
            await consume_async(await req.get_media(), state['script'], state['out'], catch=False)
            resp.media = {'ok': True}

    wapp = falcon.App(); wapp.req_options.media_handlers[falcon.MEDIA_MULTIPART] = handler; wapp.add_route('/', WRes())
    aapp = falcon.asgi.App(); aapp.req_options.media_handlers[falcon.MEDIA_MULTIPART] = handler; aapp.add_route('/', ARes())

    def mkopts(o):
        po = MultipartParseOptions()
        po.max_body_part_count = o['count']; po.max_body_part_headers_size = o['hdr']; po.max_body_part_buffer_size = o['buf']
        return po

    def run_sync(path, body, cth, cl, pieces, cs, o, script):
        """-> observation list, or ('RAISED', repr) / ('HANG',)"""
        out = []
        handler.parse_options = mkopts(o)
        raw = _WsgiInput(pieces)
        try:
            with alarm(3):
                if path in ('raw', 'reader', 'bounded'):
                    stream = raw if path == 'raw' else BufferedReader(raw.read, cl, cs) if path == 'reader' else BoundedStream(raw, cl)
                    consume_sync(handler.deserialize(stream, cth, cl), script, out)
                else:
                    env = ft.create_environ(method='POST', path='/', headers={'Content-Type': cth, 'Content-Length': str(cl)})
                    env['wsgi.input'] = raw; env['wsgi.errors'] = io.StringIO()   # an unexpected exception is judged from the 500, not printed
                    if path == 'request':
                        consume_sync(falcon.Request(env, options=wapp.req_options).get_media(), script, out)
                    else:
                        state['script'] = script; state['out'] = out; st = []
                        res = wapp(env, lambda status, headers, exc_info=None: st.append(status))
                        b''.join(res)
                        out.append('end' if st[0].startswith('200') else 'MPE' if st[0].startswith('400') else 'status ' + st[0])
        except Hang:
            return ('HANG',)
        except Exception as e:  # noqa
            return ('RAISED', f'{type(e).__name__}: {e}'[:300], out)
        return out

    async def run_async(path, body, cth, cl, pieces, cs, o, script):
        out = []
        handler.parse_options = mkopts(o)
        events = [{'type': 'http.request', 'body': c, 'more_body': True} for c in pieces] or [{'type': 'http.request', 'body': b'', 'more_body': True}]
        events[-1]['more_body'] = False

        async def receive():
            return events.pop(0) if events else {'type': 'http.disconnect'}

        async def gen():
            for c in pieces: yield c

        async def go():
            if path in ('raw', 'reader', 'bounded'):
                stream = gen() if path == 'raw' else ABR(gen(), cs) if path == 'reader' else ABoundedStream(receive, content_length=cl)
                await consume_async(await handler.deserialize_async(stream, cth, cl), script, out)
            else:
                scope = ft.create_scope(method='POST', path='/', headers={'Content-Type': cth, 'Content-Length': str(cl)})
                if path == 'request':
                    first = await receive()
                    await consume_async(await falcon.asgi.Request(scope, receive, first_event=first, options=aapp.req_options).get_media(), script, out)
                else:
                    state['script'] = script; state['out'] = out; sent = []

                    async def send(ev): sent.append(ev)
                    await aapp(scope, receive, send)
                    st = [e['status'] for e in sent if e['type'] == 'http.response.start']
                    out.append('end' if st and st[0] == 200 else 'MPE' if st and st[0] == 400 else f'status {st}')
        try:
            with alarm(3):
                await asyncio.wait_for(go(), 30)
        except (Hang, asyncio.TimeoutError):
            return ('HANG',)
        except Exception as e:  # noqa
            return ('RAISED', f'{type(e).__name__}: {e}'[:300], out)
        return out

    def judge(got, exp, loose_headers):
        """None when the observations are what the reference says, else a description"""
        if isinstance(got, tuple):
            return 'did not return (hang)' if got[0] == 'HANG' else f'raised {got[1]} after {len(got[2])} parts'
        if len(got) != len(exp):
            return f'{len(got) - 1} parts then {got[-1]!r}; expected {len(exp) - 1} parts then {exp[-1]!r}'
        for i, (g, e) in enumerate(zip(got, exp)):
            if isinstance(e, str) or isinstance(g, str):
                if g != e: return f'after {i} parts: {g!r}, expected {e!r}'
                continue
            if len(g) < 5:
                return f'part {i}: consuming it ({exp_how[i] if i < len(exp_how) else "?"}) raised something other than MultipartParseError (outcome {got[-1]!r})'
            for k, what in enumerate(('name', 'filename', 'content_type')):
                if isinstance(e[k], X.Accept) and not loose_headers:
                    # an RFC 8187 extended value: the strict reference decoder's judgement (lib_extvalue.judge)
                    if not e[k].ok(g[k]): return f'part {i}: {what} = {g[k]!r}, expected {e[k]!r}'
                    # ... and secure_filename, which is derived from it, must not paper over a refused name
                    if g[k] == ('MPE',) and g[3] != ('MPE',): return f'part {i}: filename raised the parse error but secure_filename gave {g[3]!r}'
                    continue
                if loose_headers or e[k] is _ANY:
                    if not (g[k] is None or isinstance(g[k], str) or g[k] == ('MPE',)): return f'part {i}: {what} gave {g[k]!r}'
                elif g[k] != e[k] or type(g[k]) is not type(e[k]):
                    return f'part {i}: {what} = {g[k]!r}, encoded {e[k]!r}'
            if not (isinstance(g[3], str) or g[3] == ('MPE',)): return f'part {i}: secure_filename gave {g[3]!r}'
            if e[4] == ('anytext',):
                if not (g[4] == ('MPE',) or (g[4][0] == 'text' and (g[4][1] is None or isinstance(g[4][1], str)))): return f'part {i}: get_text gave {g[4]!r}'
            elif e[4] == ('media-loose',):
                # get_media() on a part whose media type / parameters are odd: a value, the multipart parse error, 415 (no handler for
                # that type) or 400 (content is not a document of that type) - anything else has propagated and is reported above
                if g[4][0] not in ('media', 'MPE', '415', 'malformed'): return f'part {i}: get_media gave {g[4]!r}'
            elif e[4][0] == 'one-of':
                if g[4] not in e[4][1]: return f'part {i}: consumed as {exp_how[i] if i < len(exp_how) else "?"}: observed {_short(g[4])}, expected {" or ".join(_short(x) for x in e[4][1])}'
            elif g[4] != e[4]:
                return f'part {i}: consumed as {exp_how[i] if i < len(exp_how) else "?"}: observed {_short(g[4])}, expected {_short(e[4])}'
        return None

    exp_how = []
    SYNC_PATHS = ['raw', 'raw', 'reader', 'reader', 'bounded', 'request', 'app']
    O_FORM = 'reference-encoded form: parts seen = parts encoded (count, order, name, filename, content type, content) for this chunking/consumption/limits'
    O_BAD = 'damaged body: parts and outcome equal the flat-buffer reference; only MultipartParseError (400) is raised; no hang'
    O_COMMA = 'request level: a form whose (legal) boundary contains a comma is served by req.get_media()'
    O_AGREE = 'WSGI and ASGI parsers observe the same on the same body, options and consumption script'

    async def one(kind, body, b, cth, o, script, exp, plan, loose, meta, feed=None, oname=None):
        # feed: what the server actually delivers when that is more than the declared Content-Length = len(body)
        cl = len(body)
        pieces = _pieces(plan, body)
        fpieces = pieces if feed is None else _pieces(plan, feed)
        dlen = len(b) + 4
        cs = rnd.choice([dlen, dlen, dlen + 1, dlen + 2, dlen + 7, 2 * dlen, 128, 1024])
        spath = rnd.choice(SYNC_PATHS); apath = rnd.choice(SYNC_PATHS)
        exp_how[:] = [h for h, _ in script]
        gs = run_sync(spath, body, cth, cl, fpieces, cs, o, script)
        # (an async reader fed directly by a chunk iterator has no declared length: it gets the declared part only)
        ga = await run_async(apath, body, cth, cl, pieces if apath in ('raw', 'reader') else fpieces, cs, o, script)
        case = dict(meta, kind=kind, body=body if len(body) <= 4000 else {'len': len(body), 'head': body[:300], 'sha1': __import__('hashlib').sha1(body).hexdigest()},
                    boundary=b, content_type=cth, options=o, script=script, chunk_plan=plan, reader_chunk_size=cs, delivered_beyond_content_length=None if feed is None else feed[len(body):])
        name = oname or (O_FORM if kind == 'valid' else O_BAD)
        # F24: the request-level media handler lookup answers 415 when the (legal, quoted) boundary contains a comma. Only that
        # outcome is reported under O_COMMA; anything else about such a form is judged by the normal oracles.
        def is415(g, path):
            if b',' not in b or path not in ('request', 'app'): return False
            if isinstance(g, tuple): return g[0] == 'RAISED' and g[1].startswith('HTTPUnsupportedMediaType') and not g[2]
            return len(g) == 1 and isinstance(g[0], str) and g[0].startswith('status') and '415' in g[0]
        known = False
        for side, path, g in (('WSGI', spath, gs), ('ASGI', apath, ga)):
            if b',' in b and path in ('request', 'app'):
                bad = is415(g, path); known = known or bad
                ctx.oracle(O_COMMA, not bad, f'{side}/{path}: 415 Unsupported Media Type for Content-Type {cth!r}' if bad else None, dict(case, side=side.lower(), path=path))
                if bad: continue
            w = judge(g, exp, loose)
            ctx.oracle(name, w is None, w and f'{side}/{path}: {w}', dict(case, side=side.lower(), path=path))
        same = (gs == ga) or isinstance(gs, tuple) or isinstance(ga, tuple) or known   # a raise/hang is already reported above
        ctx.oracle(O_AGREE, same, None if same else f'WSGI/{spath} {_short(gs)} vs ASGI/{apath} {_short(ga)}', dict(case, paths=[spath, apath]))
        ctx.count(f'{kind}_wsgi_{spath}'); ctx.count(f'{kind}_asgi_{apath}'); ctx.count(f'{kind}_chunks_{plan[0]}')
        ctx.count(f'{kind}_outcome_{exp[-1]}'); ctx.count(f'{kind}_parts', len(exp) - 1)
        for h in exp_how[:len(exp) - 1]: ctx.count('consume_' + h)
        ctx.seen((kind, body if len(body) < 2000 else __import__('hashlib').sha1(body).digest(), b, tuple(sorted(o.items())), tuple(script), plan, spath, apath, cs), len(exp) > 1 or exp[-1] == 'MPE')

    DEFAULT = {'count': 64, 'hdr': 8192, 'buf': 1024 * 1024}

    def expected_valid(parts, o, script):
        exp = []
        for i, p in enumerate(parts):
            if len(p['block']) > o['hdr'] or (o['count'] > 0 and i >= o['count']):
                return exp + ['MPE']
            how, arg = script[i % len(script)]
            exp.append([p['name'], p['filename'], p['ct'], None,
                        p['obs'](how, arg) if 'obs' in p else _expect_obs(how, arg, p['data'], p['ct'], p['charset'], p['obj'], o['buf'])])
        return exp + ['end']

    def valid_form(big=True):
        b = _boundary(rnd); parts = _make_parts(rnd, b, big=big)
        pre = rnd.choice([b'', b'', b'', b'preamble\r\n', b'This is a multipart message.\r\n-- not a boundary\r\n', b'\r\n'])
        if b'--' + b in pre: pre = b''
        tail = rnd.choice([b'', CRLF, CRLF, CRLF, b'\r\nepilogue', b'\r\nepilogue\r\n--' + b + b'\r\n'])
        return b, parts, _encode(parts, b, pre, tail), _content_type_header(rnd, b)

    def near_limits(parts):
        o = dict(DEFAULT); tag = 'none'
        r = rnd.random()
        n = len(parts)
        if r < 0.17:
            o['count'] = rnd.choice([max(0, n - 1), n, n + 1, 0, 1]); tag = 'count_' + ('unlimited' if o['count'] == 0 else 'below' if o['count'] < n else 'at' if o['count'] == n else 'above')
        elif r < 0.34 and parts:
            H = len(rnd.choice(parts)['block']); o['hdr'] = rnd.choice([H - 1, H, H + 1]); tag = 'hdr_' + ('below' if o['hdr'] < H else 'at' if o['hdr'] == H else 'above')
        elif r < 0.5 and parts:
            L = len(rnd.choice(parts)['data']); o['buf'] = rnd.choice([max(0, L - 1), L, L + 1]); tag = 'buf_' + ('below' if o['buf'] < L else 'at' if o['buf'] == L else 'above')
        return o, tag

    async def main():
        # (b) reference-encoded forms
        for _ in range(ctx.n(9000, 120000)):
            b, parts, body, cth = valid_form()
            o, tag = near_limits(parts)
            script = _script(rnd, parts)
            if tag.startswith('buf'):
                script = [(rnd.choice(['get_data', 'data_prop', 'get_text', 'text_prop']), None) if rnd.random() < 0.8 else s for s in script]
            ctx.count('limit_' + tag)
            await one('valid', body, b, cth, o, script, expected_valid(parts, o, script), _chunk_plan(rnd, len(body)), False,
                      {'parts': [{k: p[k] for k in ('name', 'filename', 'ct', 'kind')} | {'len': len(p['data'])} for p in parts]})
        # every two-chunk split and every uniform chunk size of small bodies
        for _ in range(ctx.n(15, 200)):
            b = rnd.choice([b'b', b'XyZ', b'-', b'0123456789'])
            parts = _make_parts(rnd, b, nmax=3, big=False)[:3]
            for p in parts:
                if len(p['data']) > 30:
                    p['data'] = p['data'][:30].replace(b'\r\n--' + b, b'zz')
                    if p['kind'] in ('json', 'urlenc'): p['kind'] = 'bin'; p['obj'] = None   # no longer a document: get_media is not asked of it
            parts = [p for p in parts if b'\r\n--' + b not in CRLF + p['data'] + CRLF]
            body = _encode(parts, b); cth = 'multipart/form-data; boundary=' + b.decode()
            script = _script(rnd, parts); exp = expected_valid(parts, DEFAULT, script)
            for x in range(0, len(body) + 1):
                await one('valid', body, b, cth, DEFAULT, script, exp, ('split', x), False, {'exhaustive_splits': True})
            for x in range(1, min(len(body), 40) + 1):
                await one('valid', body, b, cth, DEFAULT, script, exp, ('uniform', x), False, {'exhaustive_splits': True})
        # (c) damaged bodies
        repl = b'\r\n-:; "=\x00\xff\xc3A' + b'*'
        for _ in range(ctx.n(9000, 100000)):
            b, parts, body, cth = valid_form(big=False)
            edits = []; feed = None
            bb = bytearray(body)
            for _e in range(rnd.choice([1, 1, 1, 2])):
                if not bb: break
                k = rnd.random(); i = rnd.randrange(len(bb))
                if k < 0.35: del bb[i]; edits.append(('del', i))
                elif k < 0.75: c = rnd.choice(repl); bb[i] = c; edits.append(('sub', i, c))
                elif k < 0.85: c = rnd.choice(repl); bb.insert(i, c); edits.append(('ins', i, c))
                else:
                    full = bytes(bb); del bb[i:]; edits.append(('truncate', i))
                    if rnd.random() < 0.5: feed = full
            await damaged(bytes(bb), b, cth, edits, feed=feed if (feed is not None and feed.startswith(bytes(bb))) else None)
        # all single-byte deletions and substitutions of small valid bodies
        for _ in range(ctx.n(5, 60)):
            b = rnd.choice([b'b', b'XyZ', b'-', b'BOUNDARY'])
            parts = _make_parts(rnd, b, nmax=2, big=False)[:2]
            for p in parts:
                if len(p['data']) > 12: p['data'] = p['data'][:12]
            parts = [p for p in parts if b'\r\n--' + b not in CRLF + p['data'] + CRLF]
            body = _encode(parts, b); cth = 'multipart/form-data; boundary=' + b.decode()
            for i in range(len(body)):
                await damaged(body[:i] + body[i + 1:], b, cth, [('del', i)], {'exhaustive_edits': True})
                await damaged(body[:i], b, cth, [('truncate', i)], {'exhaustive_edits': True})
                for c in (rnd.sample(list(repl), 3) if ctx.quick else repl):
                    if c != body[i]:
                        await damaged(body[:i] + bytes([c]) + body[i + 1:], b, cth, [('sub', i, c)], {'exhaustive_edits': True})
        await boundary_param()

    async def damaged(body, b, cth, edits, meta=None, feed=None, script=None, oname=None, kind='damaged'):
        o = dict(DEFAULT)
        if script is None:
            if rnd.random() < 0.25: o['count'] = rnd.choice([1, 2])
            if rnd.random() < 0.25: o['buf'] = rnd.choice([0, 3, 5])
            if rnd.random() < 0.25: o['hdr'] = rnd.choice([10, 60, 80])
            script = [s for s in _script(rnd, [], valid=False)]
        ref, status = _ref_split(body, b, o['hdr'], o['count'])
        exp = []
        for i, (block, content) in enumerate(ref):
            how, arg = script[i % len(script)]
            exp.append([_ANYHDR, _ANYHDR, _ANYHDR, None, _expect_obs(how, arg, content, None, None, None, o['buf'])])
        exp.append('end' if status == 'end' else 'MPE')
        for e in edits: ctx.count('edit_' + e[0])
        if feed is not None: ctx.count('truncated_by_content_length_only')
        await one(kind, body, b, cth, o, script, exp, _chunk_plan(rnd, len(body)), True, dict(meta or {}, edits=edits), feed=feed, oname=oname)

    async def boundary_param():
        """1..70 characters after stripping trailing blanks; anything else is an invalid Content-Type header (400)"""
        for n, pad in [(1, ''), (70, ''), (70, '  '), (71, ''), (0, ''), (0, '   '), (100, ''), (None, '')]:
            if n is None: cth = 'multipart/form-data'
            else: cth = 'multipart/form-data; boundary="' + 'x' * n + pad + '"'
            ok_expected = n is not None and 1 <= n <= 70
            body = b'--' + b'x' * (n or 0) + b'--\r\n'
            for side in ('wsgi', 'asgi'):
                try:
                    if side == 'wsgi':
                        with alarm(3):
                            form = handler.deserialize(io.BytesIO(body), cth, len(body)); got = len(list(form))
                    else:
                        async def gen():
                            yield body
                        form = await handler.deserialize_async(gen(), cth, len(body)); got = len([p async for p in form])
                    res = ('ok', got)
                except falcon.HTTPInvalidHeader as e:
                    res = ('invalid-header', e.status)
                except Exception as e:  # noqa
                    res = ('raised', type(e).__name__)
                good = res == ('ok', 0) if ok_expected else (res[0] == 'invalid-header' and str(res[1]).startswith('400'))
                ctx.oracle('boundary parameter: 1..70 characters accepted, 0 / 71+ / missing rejected with 400 Invalid Header', good,
                           None if good else f'{side}: boundary of {n} chars gave {res}', {'content_type': cth, 'side': side})
                ctx.seen(('bparam', cth, side), True)

    # ================================================================== section 'headers': the characters of names / filenames
    # (dimension 7) and the parameter values that are handed to library functions (dimension 9)
    O_CD = ('Content-Disposition quoted-strings (RFC 9110 5.6.4, RFC 7578 4.2): name and filename come back exactly as encoded - every printable ASCII character '
            'incl. the escaped quote and backslash, every adjacent pair, both ends - and count, order, content type and content are unaffected')
    O_F46 = ('known class F46 (a quoted parameter value ending in an escaped backslash that is followed by another parameter): count, order, content type, content and outcome '
             'are as encoded and name/filename are a str, None or the parse error (their value is not judged)')
    O_PARAM = ('parameter values handed to library functions (charset of Content-Type and of filename*, media-type parameters: NUL, control, non-ASCII, empty, very long, unknown): '
               'name/filename/content_type as encoded; get_text/get_data give the value or the multipart parse error (400), get_media also the 415/400 of the part media handlers; never another exception')
    O_PEDIT = ('single-byte edits inside header parameter values (any byte value): parts and outcome equal the flat-buffer reference; only MultipartParseError (400) '
               '- from get_media also the 415/400 of the part media handlers - is raised; no hang')
    OTHERS = ['F', 'f.txt', 'N1', 'x y', 'a;b', 'q"r', 'c:\\d', '', 'n=v', "it's", '100%', '\u017euvis', '";', 'a\\"b']
    EXTRAS = [('size', '12'), ('x', 'p;q'), ('creation-date', 'Wed, 12 Feb 1997 16:29:51 -0500'), ('y', '"'), ('z', 'a=b'), ('x', ';name="evil"'), ('w', '')]
    SMALL = [b'', b'v', b'value', b'\r\n-', b'two\r\nlines', b'\x00\xff']

    def hdr_boundary():
        return rnd.choice([b'b', b'XyZ', b'-', b'0123456789']) if rnd.random() < 0.7 else _boundary(rnd)

    def cd_part(params, name, fname):
        params = list(params)
        if rnd.random() < 0.2: params.insert(rnd.randint(0, len(params)), rnd.choice(EXTRAS))
        cd, f46 = _enc_params(rnd, rnd.choice(['form-data', 'form-data', 'Form-Data']), params)
        ct = rnd.choice([None, None, 'text/plain', 'application/octet-stream', 'text/plain; charset=utf-8'])
        lines = [rnd.choice(['Content-Disposition', 'content-disposition']).encode() + b': ' + cd.encode('utf-8')]
        if ct: lines.append(b'Content-Type: ' + ct.encode())
        rnd.shuffle(lines)
        data = rnd.choice(SMALL)
        if ct and ct.startswith('text/'): data = rnd.choice([b'', b'v', b'two\r\nlines'])
        return {'name': _ANY if f46 else name, 'filename': _ANY if f46 else fname, 'ct': ct or 'text/plain', 'data': data, 'kind': 'bin', 'obj': None,
                'charset': 'utf-8', 'block': CRLF.join(lines), 'enc': (name, fname)}, f46

    def placements(s):
        yield [('name', s)], s, None
        x = rnd.choice(OTHERS); yield [('filename', x), ('name', s)], s, x
        x = rnd.choice(OTHERS); yield [('name', s), ('filename', x)], s, x
        x = rnd.choice(OTHERS); yield [('name', x), ('filename', s)], x, s
        x = rnd.choice(OTHERS); yield [('filename', s), ('name', x)], x, s

    async def hdr_form(parts, oname, kind, meta):
        b = hdr_boundary()
        body = _encode(parts, b, b'', rnd.choice([b'', CRLF, CRLF]))
        ref, status = _ref_split(body, b, 1 << 30, 0)
        if status != 'end' or [c for _h, c in ref] != [p['data'] for p in parts]:
            ctx.count(kind + '_not_boundary_safe_skipped'); return     # (the swept header text contains the delimiter)
        script = meta.pop('script', None) or _script(rnd, parts)
        await one(kind, body, b, _content_type_header(rnd, b), DEFAULT, script, expected_valid(parts, DEFAULT, script), _chunk_plan(rnd, len(body)), False,
                  dict(meta, headers=[p['block'] for p in parts], encoded=[p.get('enc') for p in parts]), oname=oname)

    async def cd_sweep():
        i, k = ctx.shard
        mine = _swept_strings()[i::k]
        if ctx.quick:
            mine += [(''.join(rnd.choice(_ALPHA20) for _ in range(3)), 'triple_sample') for _ in range(ctx.n(2400, 0))]
        else:
            mine += [(a + c + d, 'triple') for a in _ALPHA20 for c in _ALPHA20 for d in _ALPHA20][i::k]
        mine += [(_long_string(rnd), 'long') for _ in range(ctx.n(1600, 30000))]
        strict = []; known = []

        async def flush(lst, oname, kind, force=False):
            while lst and (force or len(lst) >= 6):
                n = rnd.randint(1, 6); chunk = lst[:n]; del lst[:n]
                await hdr_form(chunk, oname, kind, {})
        for s, cls in mine:
            if '\r' in s or '\n' in s: continue
            ctx.count('cd_swept_' + cls)
            for params, name, fname in placements(s):
                part, f46 = cd_part(params, name, fname)
                (known if f46 else strict).append(part)
                ctx.count('cd_part_f46_class_value_not_judged' if f46 else 'cd_part_strict')
                if '\\";' in part['block'].decode('utf-8', 'replace'): ctx.count('cd_part_with_escaped_quote_then_semicolon')
            await flush(strict, O_CD, 'cd'); await flush(known, O_F46, 'cdf46')
        await flush(strict, O_CD, 'cd', True); await flush(known, O_F46, 'cdf46', True)

    # ---------------------------------------------------------------- dimension 9
    GOOD_CS = ['utf-8', 'UTF-8', 'utf8', 'latin-1', 'iso-8859-1', 'ascii', 'cp1252', 'utf-16-le', 'Utf_8', 'us-ascii', 'koi8-r']
    ODD_CH = ['\x00', '\x00', '\x00', '\x01', '\x08', '\x0b', '\x1b', '\x1f', '\x7f', ' ', '"', '\\', ';', '=', '%', '*', "'", ',', '/', '.', '\u00e9', '\u20ac', '\ufffd', '\x80']
    TEXTS = ['', 'hello', 'z\u0105sis \u20ac', 'caf\u00e9', 'a\\', '+AGE-', 'xn--a', 'two\r\nlines', '\\N{', '\\x4']

    def odd_charset():
        base = rnd.choice(GOOD_CS); j = rnd.randint(0, len(base)); c = rnd.choice(ODD_CH)
        return rnd.choice([
            lambda: base[:j] + c + base[j:], lambda: base[:j] + c + base[j + 1:], lambda: c + base, lambda: base + c, lambda: c,
            lambda: rnd.choice(['', ' ', '\x00', 'utf\x008', 'pecyn', 'hex', 'rot13', 'base64', 'undefined', 'idna', 'punycode', 'unicode_escape', 'raw_unicode_escape',
                                'utf-7', 'mbcs', 'oem', '../utf-8', 'utf-8/', '%s', '{}', 'utf 8', 'UTF-8 ', 'none', 'None', '0', '-', '_', '.']),
            lambda: rnd.choice(['x', base, 'u\x00']) * rnd.choice([30, 100, 1000, 4000, 7900]),
        ])()

    def enc_hdr_bytes(s):
        """header text -> bytes as a client would send it; non-ASCII characters make it a header falcon cannot decode as ASCII"""
        try:
            return s.encode('ascii'), True
        except UnicodeEncodeError:
            try:
                return s.encode(rnd.choice(['utf-8', 'utf-8', 'latin-1'])), False
            except UnicodeEncodeError:
                return s.encode('utf-8', 'surrogatepass'), False

    def plain_obs(data):
        return lambda how, arg: _expect_obs(how, arg, data, 'application/octet-stream', 'utf-8', None, DEFAULT['buf'])

    def param_part(i):
        """-> part dict with 'obs': one part whose Content-Type (and sometimes filename*) carries generated parameter values"""
        name = 'f%d' % i; fname = None
        cdp = [('name', name)]
        fstar = None
        if rnd.random() < 0.3:
            want = rnd.choice(['\u20ac rates.txt', 'na\u00efve.bin', 'plain.txt', 'a b'])
            r = rnd.random()
            cs = rnd.choice(['UTF-8', 'utf-8', 'ISO-8859-1', 'utf_8']) if r < 0.4 else odd_charset() if r < 0.9 else rnd.choice(GOOD_CS)
            lang = rnd.choice(['', '', 'en', 'en-GB', '\x00', 'x' * 300])
            try:
                raw = want.encode(cs)
            except Exception:  # noqa  (not an encoding, or the name is not encodable in it)
                raw = want.encode('utf-8')
            fstar = "%s'%s'%s" % (cs, lang, ''.join(chr(c) if (chr(c).isalnum() and c < 128) else '%%%02X' % c for c in raw))
            good = cs in ('UTF-8', 'utf-8', 'ISO-8859-1', 'utf_8') and lang in ('', 'en') and raw
            try:
                fname = raw.decode(cs) if good else _ANY
            except Exception:  # noqa
                fname = _ANY
            if rnd.random() < 0.3: cdp.append(('filename', 'fallback.txt'))
        cd, f46 = _enc_params(rnd, 'form-data', cdp, quote_all=True)
        if fstar is not None: cd += '; filename*=' + fstar
        cdb, cd_ascii = cd.encode('utf-8'), True     # (Content-Disposition is decoded as UTF-8)
        kind = rnd.choice(['text', 'text', 'text', 'text', 'json', 'urlenc', 'other'])
        extras = [rnd.choice([('format', 'flowed'), ('x', 'a;b'), ('boundary', 'zz'), ('q', '0.5'), ('name', 'n'), ('v', '"1"')]) for _ in range(rnd.choice([0, 0, 0, 1, 2]))]
        obj = None
        if kind == 'text':
            cs = rnd.choice(GOOD_CS) if rnd.random() < 0.3 else odd_charset()
            txt = rnd.choice(TEXTS)
            try:
                data = txt.encode(cs)
            except Exception:  # noqa
                data = txt.encode('utf-8')
            if rnd.random() < 0.1: data = b'\xff\xfe\x00a'
            params = list(extras); params.insert(rnd.randint(0, len(params)), ('charset', cs))
            force_q = any(c in cs for c in '";\\') or cs != cs.strip()
            ct, ctf46 = _enc_params(rnd, rnd.choice(['text/plain', 'text/plain', 'text/plain', 'text/plain ']), params, quote_all=force_q)
            ctb, ok = enc_hdr_bytes(ct)
            dup = sum(1 for a, _v in params if a == 'charset') > 1

            def obs(how, arg, cs=cs, data=data, ok=ok, loose=ctf46 or dup):
                if how in ('get_text', 'text_prop'):
                    if not ok: return ('MPE',)
                    if loose: return ('anytext',)
                    try:
                        return ('one-of', [('text', data.decode(cs))])
                    except Exception:  # noqa  ("the charset must be supported by bytes.decode(); otherwise MultipartParseError")
                        return ('one-of', [('MPE',)])
                if how in ('get_media', 'media_prop'): return ('media-loose',)
                return plain_obs(data)(how, arg)
        elif kind in ('json', 'urlenc'):
            import json
            if kind == 'json':
                obj = rnd.choice([{'a': 1}, [1, 'x'], 'str', None, {'k': ['v']}]); data = json.dumps(obj).encode(); ess = rnd.choice(['application/json', 'application/json', 'Application/JSON'])
            else:
                obj = {'a': '1', 'b': 'two'}; data = b'a=1&b=two'; ess = rnd.choice(['application/x-www-form-urlencoded', 'application/X-WWW-Form-Urlencoded'])
            r = rnd.random()
            if r < 0.35:
                params = rnd.choice([[], [('charset', 'utf-8')], [('charset', 'UTF-8'), ('v', '1')], [('profile', 'http://x/y;z')]]); strict = True
                ct, ctf46 = _enc_params(rnd, ess, params)
            elif r < 0.7:
                cs = odd_charset(); params = list(extras); params.insert(rnd.randint(0, len(params)), (rnd.choice(['charset', 'charset', 'v', 'q']), cs)); strict = False
                ct, ctf46 = _enc_params(rnd, ess, params, quote_all=any(c in cs for c in '";\\') or cs != cs.strip())
            else:
                strict = False; ct = ess + rnd.choice([';', ';;', '; =', '; a', '; q="', '; \x00', ' ;charset', '; charset', '; charset=', ';=;=', '; a=b' * 500, '\x00', ' ', '/x', '; "', '; \\'])
            ctb, ok = enc_hdr_bytes(ct)

            def obs(how, arg, data=data, ok=ok, obj=obj, strict=strict):
                if how in ('get_media', 'media_prop'): return ('media', obj) if (strict and ok) else ('media-loose',)
                if how in ('get_text', 'text_prop'): return ('text', None) if ok else ('MPE',)
                return plain_obs(data)(how, arg)
        else:
            data = rnd.choice(SMALL)
            ct = rnd.choice(['', ' ', '/', 'a/b/c', '*/*', 'text/*', 'nonsense', 'text', 'application/\x00json', 'x' * 3000 + '/y', 'text/plain\x00', '\x00', 'text/html', 'image/png; a="b',
                             'TEXT/PLAIN', ' text/plain', 'text/plain;', 'text/plain; charset', 'text/\u00e9', 'multipart/form-data; boundary=b', 'text/plain; charset=utf-8; charset=' + odd_charset().replace(';', '')])
            ctb, ok = enc_hdr_bytes(ct)

            def obs(how, arg, data=data, ok=ok):
                if how in ('get_media', 'media_prop'): return ('media-loose',)
                if how in ('get_text', 'text_prop'): return ('anytext',) if ok else ('MPE',)
                return plain_obs(data)(how, arg)
        lines = [b'Content-Disposition: ' + cdb, rnd.choice([b'Content-Type', b'content-type']) + b': ' + ctb]
        rnd.shuffle(lines)
        if b'\r' in ctb or b'\n' in ctb or b'\r' in cdb or b'\n' in cdb: return None
        return {'name': name, 'filename': fname, 'ct': ct if ok else ('MPE',), 'data': data, 'kind': kind, 'obj': obj, 'charset': 'utf-8', 'block': CRLF.join(lines),
                'obs': obs, 'enc': (name, None if fname is _ANY else fname, ctb)}

    HOWS = ['get_text'] * 7 + ['text_prop'] * 3 + ['get_media'] * 3 + ['media_prop'] + ['get_data'] * 2 + ['data_prop', 'read_all', 'skip', 'read_n', 'peek']

    def param_script(parts):
        sc = []
        for p in parts:
            how = rnd.choice(HOWS)
            if p['kind'] in ('json', 'urlenc') and rnd.random() < 0.5: how = rnd.choice(['get_media', 'media_prop'])
            sc.append((how, {'read_n': rnd.choice([0, 1, 5]), 'peek': 2}.get(how)))
        return sc or [('skip', None)]

    async def param_forms():
        for _ in range(ctx.n(5000, 60000)):
            parts = [q for q in (param_part(i) for i in range(rnd.choice([1, 1, 2, 3]))) if q is not None]
            for p in parts:
                ctx.count('param_part_' + p['kind'])
                cb = p['enc'][2]
                if b'\x00' in cb: ctx.count('param_content_type_with_NUL')
                if len(cb) > 1000: ctx.count('param_content_type_very_long')
                if p['ct'] == ('MPE',): ctx.count('param_content_type_non_ascii')
            await hdr_form(parts, O_PARAM, 'param', {'script': param_script(parts)})

    BYTES_QUICK = sorted(set(range(0x21)) | {0x22, 0x25, 0x27, 0x2a, 0x3b, 0x3d, 0x41, 0x5c, 0x7f, 0x80, 0xc3, 0xe9, 0xff})

    async def param_edits():
        """every parameter-value position of a small valid form x byte values (all 256 in the thorough tier), as substitution and insertion"""
        import re
        for _ in range(ctx.n(4, 16)):
            b = rnd.choice([b'b', b'XyZ', b'BOUNDARY'])
            cs = rnd.choice(['utf-8', 'latin-1', 'utf-16-le', 'ascii', 'UTF-8'])
            blocks = [b'Content-Disposition: form-data; name="f0"\r\nContent-Type: text/plain;' + rnd.choice([b' ', b'']) + b'charset=' + cs.encode(),
                      b'Content-Disposition: form-data; name="f1"; ' + rnd.choice([b"filename*=UTF-8''%E2%82%AC.txt", b'filename="a.txt"']) + b'\r\nContent-Type: application/json; charset=utf-8']
            parts = [{'block': blocks[0], 'data': 'Gr\u00fc\u00dfe'.encode(cs, 'replace')}, {'block': blocks[1], 'data': b'{"k": 1}'}]
            if rnd.random() < 0.5: parts.reverse()
            body = _encode(parts, b); cth = 'multipart/form-data; boundary=' + b.decode()
            pos = []
            for p in parts:
                off = body.find(p['block'])
                for m in re.finditer(rb'=[^;\r\n]*', p['block']):
                    pos += [(off + x, b'charset=' in p['block'][max(0, m.start() - 7):m.start() + 1]) for x in range(m.start(), m.end() + 1)]
            values = BYTES_QUICK if ctx.quick else range(256)
            for x, is_cs in pos:
                for c in values:
                    for kind in ('sub', 'ins'):
                        if kind == 'ins' and not is_cs and ctx.quick: continue
                        if kind == 'sub' and (x >= len(body) or body[x] == c): continue
                        nb = body[:x] + bytes([c]) + body[x + (kind == 'sub'):]
                        script = [(rnd.choice(['get_text'] * 5 + ['text_prop'] * 2 + ['get_media', 'media_prop', 'get_data']), None) for _p in range(3)]
                        ctx.count('param_edit_' + kind + ('_charset_value' if is_cs else '_other_value'))
                        if c == 0: ctx.count('param_edit_NUL')
                        await damaged(nb, b, cth, [(kind, x, c)], {'exhaustive_param_edits': True}, script=script, oname=O_PEDIT, kind='pedit')

    # ---------------------------------------------------------------- RFC 8187 / 5987 extended values (filename*), well-formed AND malformed
    O_EXT = {
        'strict': ('extended parameter value filename*=charset\'lang\'value (RFC 8187/5987) judged by a strict reference decoder: a well-formed value in UTF-8 / ISO-8859-1 / US-ASCII - with or without a language tag, also one with subtags such as en-GB (F48) - gives exactly the '
                   'decoded name; percent-escapes whose octets are ILL-FORMED in the declared charset (truncated/overlong/lone continuation/surrogate/too large UTF-8, octets >= 0x80 declared US-ASCII) give the '
                   'multipart parse error, never a made-up name; an unknown or optional charset gives the decoded name, the parse error or is ignored; count, order, content and WSGI/ASGI agreement unaffected'),
        'liberal': ('a filename* value that VIOLATES the ext-value grammar (stray "%", characters outside attr-char, missing/extra quote mark, bad charset/language syntax, no value characters): the multipart parse '
                    'error, the parameter ignored, or a liberal literal reading - which exists only if its octets are well-formed in the charset, so never invented characters'),
    }

    def ext_part(v, src, tags=()):
        """one part whose Content-Disposition carries filename*=v (with or without a plain filename beside it, in either order) -> part dict | None"""
        if '\r' in v or '\n' in v: return None
        fb = rnd.choice([None, None, 'fb.txt', 'fall back.bin'])
        name = rnd.choice(['f', 'field name', 'n1'])
        accept = X.judge(v, fb)
        tail_bs = v.endswith('\\')          # a quoted value ending in a backslash must stay the last parameter (class F46 otherwise)
        params = [('name', name)] + ([('filename', fb)] if fb is not None else [])
        if tail_bs: params.append(('filename*', v))
        else: params.insert(rnd.randint(0, len(params)), ('filename*', v))
        if rnd.random() < 0.08:
            # RFC 7578 4.2 forbids the extended notation for the field name and falcon does not read it: it must change nothing
            params.insert(rnd.randint(0, len(params) - 1), ('name*', rnd.choice(["UTF-8''other", "UTF-8''%C3%28", "UTF-8'x", ''])))
            ctx.count('ext_with_name_star_beside')
        cd, f46 = _enc_params(rnd, rnd.choice(['form-data', 'form-data', 'Form-Data']), params)
        if f46: return None
        ct = rnd.choice([None, None, 'application/octet-stream', 'text/plain'])
        lines = [rnd.choice(['Content-Disposition', 'content-disposition']).encode() + b': ' + cd.encode('utf-8')]
        if ct: lines.append(b'Content-Type: ' + ct.encode())
        rnd.shuffle(lines)
        data = rnd.choice([b'', b'v', b'two\r\nlines']) if ct == 'text/plain' else rnd.choice(SMALL)
        ctx.count('ext_class_' + accept.cls); ctx.count('ext_source_' + src); ctx.count('ext_oracle_' + accept.oracle)
        ctx.count('ext_expect_' + ('parse_error_only' if accept.only_error() else 'exact_name' if len(accept.vals) == 1 else 'one_of_%d' % len(accept.vals)))
        ctx.count('ext_fallback_filename_' + ('absent' if fb is None else 'present'))
        for t in tags: ctx.count('ext_grammar_' + t)
        return {'name': name, 'filename': accept, 'ct': ct or 'text/plain', 'data': data, 'kind': 'bin', 'obj': None, 'charset': 'utf-8', 'block': CRLF.join(lines),
                'enc': {'filename*': v, 'plain_filename': fb, 'strict_decoder': repr(X.strict(v)), 'accepted': repr(accept), 'class': accept.cls, 'source': src}}

    async def ext_values():
        """(g) every single edit of well-formed extended values + a grammar of malformed ones, judged by the strict decoder, both stacks"""
        i, k = ctx.shard
        todo = []
        for base in X.BASES + ([] if ctx.quick else X.BASES_THOROUGH):
            v = X.base_value(base)
            todo.append((v, 'base', ()))
            todo += [(e, 'edit_' + kind, ()) for e, kind in X.single_edits(v)]
        mine = todo[i::k]
        for _ in range(ctx.n(2500, 40000)):
            v, tags = X.grammar_value(rnd)
            mine.append((v, 'grammar', tags))
        pend = {'strict': [], 'liberal': []}

        async def flush(key, force=False):
            lst = pend[key]
            while lst and (force or len(lst) >= 6):
                n = rnd.randint(1, 6); chunk = lst[:n]; del lst[:n]
                await hdr_form(chunk, O_EXT[key], {'strict': 'ext', 'liberal': 'extlib'}[key], {})
        for v, src, tags in mine:
            part = ext_part(v, src, tags)
            if part is None:
                ctx.count('ext_skipped_unencodable'); continue
            key = part['filename'].oracle
            pend[key].append(part)
            await flush(key)
        for key in pend: await flush(key, True)

    async def headers_main():
        await cd_sweep()
        await param_forms()
        await param_edits()
        await ext_values()
        ctx.count('byte_strings_whose_exact_type_was_observed (part.stream reads, get_data/.data, written and iterated chunks)', ntyped[0])

    asyncio.run(main() if section == 'main' else headers_main())
    if section == 'main':
        ctx.count('byte_strings_whose_exact_type_was_observed (part.stream reads, get_data/.data, written and iterated chunks)', ntyped[0])


def _buffer_oracle(ctx):
    """F39 (fixed by 913e041): max_body_part_buffer_size is enforced on EVERY get_data()/get_text()/.data/.text call of any call
    history, on both stacks: a call returns the whole content (never more than the limit) or raises MultipartParseError, and once
    'body part is too large' was raised every later call raises MultipartParseError again."""
    import asyncio
    import io
    from runner import Hang
    from falcon.media.multipart import MultipartForm, MultipartParseOptions, MultipartParseError as MPE
    from falcon.asgi.multipart import MultipartForm as AForm
    from falcon.asgi.reader import BufferedReader as ABR
    rnd = ctx.rng
    NAME = ('buffer limit on every call: get_data/.data/get_text/.text return the whole content (never more than max_body_part_buffer_size bytes) or raise '
            'MultipartParseError; after "body part is too large" every later call raises MultipartParseError again')

    def judge(calls, content, buf):
        """calls: [(accessor, ('ok', value) | ('MPE', description) | ('raised', repr))]"""
        seen_large = False
        for i, (acc, res) in enumerate(calls):
            if res[0] == 'raised':
                return f'call {i} ({acc}) raised {res[1]}'
            if res[0] == 'ok':
                v = res[1]
                want = bytes if acc in ('get_data', 'data') else str
                if type(v) is not want:
                    return f'call {i} ({acc}) returned a {type(v).__name__} ({_short(v, 60)}), not a {want.__name__}'
                if seen_large:
                    return f'call {i} ({acc}) returned {_short(v, 60)} after an earlier call had raised "body part is too large"'
                b = v if isinstance(v, bytes) else v.encode('ascii')
                if len(b) > buf:
                    return f'call {i} ({acc}) returned {len(b)} bytes, limit {buf}'
                if b != content:
                    return f'call {i} ({acc}) returned {_short(b, 60)}, content is {_short(content, 60)}'
            else:
                if len(content) <= buf:
                    return f'call {i} ({acc}) raised MultipartParseError({res[1]!r}) for {len(content)} bytes, limit {buf}'
                seen_large = True
        return None

    async def main():
        for _ in range(ctx.n(1500, 20000)):
            b = rnd.choice([b'b', b'XY', b'B0UND', b'-x'])
            parts = []
            for i in range(rnd.choice([1, 1, 2, 3])):
                data = bytes(rnd.choice(b'abc -\r\n012') for _ in range(rnd.choice([0, 1, 2, 3, 5, 9, 17, 40])))
                while b'\r\n--' + b in CRLF + data + CRLF: data = data.replace(b'-', b'_')
                parts.append({'block': b'Content-Disposition: form-data; name="f%d"' % i + rnd.choice([b'', b'\r\nContent-Type: text/plain', b'\r\nContent-Type: text/plain; charset=ascii']), 'data': data})
            body = _encode(parts, b)
            L = len(rnd.choice(parts)['data'])
            buf = rnd.choice([max(0, L - 1), L, L + 1, 0, 3, 1 << 20])
            plan = [[rnd.choice(['get_data', 'data', 'get_text', 'text']) for _c in range(rnd.randint(2, 5))] for _p in parts]
            opts = MultipartParseOptions(); opts.max_body_part_buffer_size = buf
            cplan = _chunk_plan(rnd, len(body)); pieces = _pieces(cplan, body)
            for side in ('wsgi', 'asgi'):
                got = []; err = None
                try:
                    with alarm(3):
                        if side == 'wsgi':
                            k = 0
                            for p in MultipartForm(_WsgiInput(pieces), b, len(body), opts):
                                calls = []
                                for acc in plan[k]:
                                    try:
                                        v = p.get_data() if acc == 'get_data' else p.data if acc == 'data' else p.get_text() if acc == 'get_text' else p.text
                                        calls.append((acc, ('ok', v)))
                                    except MPE as e:
                                        calls.append((acc, ('MPE', e.description)))
                                    except Exception as e:  # noqa
                                        calls.append((acc, ('raised', f'{type(e).__name__}: {e}'[:200])))
                                got.append(calls); k += 1
                        else:
                            async def gen():
                                for c in pieces: yield c

                            async def go():
                                k = 0
                                async for p in AForm(ABR(gen(), rnd.choice([len(b) + 4, 64, 8192])), b, None, opts):
                                    calls = []
                                    for acc in plan[k]:
                                        try:
                                            v = await (p.get_data() if acc == 'get_data' else p.data if acc == 'data' else p.get_text() if acc == 'get_text' else p.text)
                                            calls.append((acc, ('ok', v)))
                                        except MPE as e:
                                            calls.append((acc, ('MPE', e.description)))
                                        except Exception as e:  # noqa
                                            calls.append((acc, ('raised', f'{type(e).__name__}: {e}'[:200])))
                                    got.append(calls); k += 1
                            await asyncio.wait_for(go(), 30)
                except (Hang, asyncio.TimeoutError):
                    err = 'did not return'
                except Exception as e:  # noqa
                    err = f'iterating the form raised {type(e).__name__}: {e}'[:300]
                what = err
                if what is None and len(got) != len(parts):
                    what = f'{len(got)} parts seen, {len(parts)} encoded'
                if what is None:
                    for k, calls in enumerate(got):
                        w = judge(calls, parts[k]['data'], buf)
                        if w: what = f'part {k}: {w}'; break
                ctx.oracle(NAME, what is None, what and f'{side}: {what}',
                           {'side': side, 'body': body, 'boundary': b, 'max_body_part_buffer_size': buf, 'calls_per_part': plan, 'chunk_plan': cplan,
                            'observed': [[(a, r[0], r[1] if r[0] != 'ok' else (r[1] if isinstance(r[1], bytes) else r[1].encode())) for a, r in calls] for calls in got]})
                ctx.count('buffer_oracle_' + side)
                for calls in got:
                    for a, r in calls: ctx.count('buffer_call_' + r[0])
                ctx.seen(('buf', body, b, buf, tuple(map(tuple, plan)), cplan, side), True)
    asyncio.run(main())


_PH_NAME = 'parse_header(Content-Disposition / Content-Type value of a part) = Mt.parseHeader (key and parameter dict), ASCII header values'


def _ph_corr(ctx):
    """Ties the model of falcon.util.mediatypes.parse_header (Mt.parseHeader, FalconModel/MediaType.lean - the C11 model, both the fast path
    and the `_parse_param_old_stdlib` quote-parity splitter) to the real function on what C13 feeds it: Content-Disposition values
    with quoted names / filenames from the sweep alphabet, Content-Type values with generated charset parameters, and junk."""
    from falcon.util.mediatypes import parse_header
    rnd = ctx.rng
    sess = ctx.session(_PH_NAME, 'mpdriver')

    def hexc(t):
        return t.encode('latin-1').hex() or '-'
    swept = [s for s, _c in _swept_strings() if s.isascii()]
    for _ in range(ctx.n(6000, 80000)):
        r = rnd.random()
        if r < 0.45:
            s = rnd.choice(swept) if rnd.random() < 0.5 else ''.join(rnd.choice(_SPECIALS + 'azN0.-/:(&\t') for _c in range(rnd.randint(0, 6)))
            o = rnd.choice(['F', 'x y', 'a;b', 'q"r', 'c:\\d', ''])
            params = rnd.choice([[('name', s)], [('filename', o), ('name', s)], [('name', s), ('filename', o)], [('name', o), ('filename', s)], [('filename', s), ('name', o)]])
            line, _f = _enc_params(rnd, 'form-data', params); kind = 'content_disposition'
        elif r < 0.7:
            cs = ''.join(rnd.choice(['utf-8', 'latin-1', '\x00', '\x1f', '"', '\\', ';', '=', ' ', 'x', '\x7f', '\x0b']) for _c in range(rnd.randint(0, 3)))
            params = [('charset', cs)] + ([('format', 'flowed')] if rnd.random() < 0.3 else [])
            rnd.shuffle(params)
            line, _f = _enc_params(rnd, rnd.choice(['text/plain', 'Text/Plain ', 'application/json']), params, quote_all=any(c in cs for c in '";\\') or cs != cs.strip()); kind = 'content_type'
        else:
            line = ''.join(rnd.choice(['"', '\\', ';', '=', ' ', 'a', 'B', 'name', '\\"', '";', '\t', '\x00', '\x1c', ',']) for _c in range(rnd.randint(0, 12))); kind = 'junk'
        key, pd = parse_header(line)
        sess.case({'header_value': line, 'kind': kind})
        sess.op('ph ' + hexc(line), hexc(key) + ' ' + (';'.join(sorted(hexc(k) + '=' + hexc(v) for k, v in pd.items())) or '-'))
        ctx.count('ph_' + kind); ctx.count('ph_path_' + ('quote_aware' if ('"' in line or '\\' in line) else 'fast'))
        ctx.seen(('ph', line), bool(pd))
    sess.finish()


def _qs_corr(ctx):
    """Ties the encoder of the round-trip theorems (Qe.quote / Qe.renderG, FalconModel/QuotedString.lean; theorems Mt.parseHeader_render[G],
    Mt.unquote_quote in QuotedStringProofs.lean) to the reference writer of this harness (_qstr; main + before + ';' + after + Name + '=' + _qstr(v),
    which is what _enc_params writes when every value is quoted), and evaluates the theorem's statement on the REAL parse_header: outside class
    F46 (no value followed by another parameter ends in a backslash) the result is exactly (main, {lower(name): value}), in order."""
    from falcon.util.mediatypes import parse_header
    from runner import Hang
    rnd = ctx.rng
    sess = ctx.session('reference quoted-string writer of the harness (_qstr, all-quoted _enc_params) = Qe.quote / Qe.renderG (the encoder of Mt.parseHeader_render[G]), character for character', 'mpdriver')
    phs = ctx.session(_PH_NAME, 'mpdriver')      # every generated line, class F46 included, also goes to the model-vs-code correspondence
    O_RT = 'parse_header inverts the reference quoted-string writer outside class F46: (main, {lower(name): value}) in order (the statement of Mt.parseHeader_renderG on the real function)'

    def hexc(t):
        return t.encode('latin-1').hex() or '-'
    swept = [s for s, _c in _swept_strings() if s.isascii()]
    names = ['name', 'filename', 'charset', 'a', 'x-y', 'q', 'boundary', "k!#$%&'*+.^_`|~0"]
    ows = ['', ' ', ' ', ' ', '\t', '  ', ' \t', '\x0b', '\x1f']
    for _ in range(ctx.n(3000, 40000)):
        main = rnd.choice(['form-data', 'form-data', 'text/plain', 'attachment', '', 'Form-Data'])
        k = rnd.choice([1, 2, 2, 2, 3, 4])
        ps = []
        for nm in rnd.sample(names, k):
            r = rnd.random()
            v = (rnd.choice(swept) if r < 0.5 else
                 ''.join(rnd.choice(_SPECIALS + 'azN0.-/:(&\t') for _c in range(rnd.randint(0, 6))) if r < 0.85 else
                 ''.join(rnd.choice(['\\', '\\\\', '"', ';', '; ', 'name=', '\\"', '";', 'a', ' ']) for _c in range(rnd.randint(1, 5))))
            if rnd.random() < 0.15: v += '\\'
            nm = rnd.choice([nm, nm, nm.upper(), nm.capitalize()])
            plain = rnd.random() < 0.4            # the plain writer Qe.render: "; " and lower-case names
            ps.append(('', ' ', nm.lower(), v) if plain else (rnd.choice(ows), rnd.choice(ows), nm, v))
        line = main + ''.join(b + ';' + a + n + '=' + _qstr(v) for b, a, n, v in ps)
        f46 = any(v.endswith('\\') for _b, _a, _n, v in ps[:-1])
        sess.case({'main': main, 'params': [list(p) for p in ps], 'header_value': line, 'class_f46': f46})
        sess.op('rdg ' + hexc(main) + ' ' + ','.join(':'.join(hexc(x) for x in p) for p in ps), hexc(line))
        for _b, _a, _n, v in ps:
            sess.op('qs ' + hexc(v), hexc(_qstr(v)))
        ctx.count('qs_class_' + ('f46' if f46 else 'roundtrip'))
        key, pd = parse_header(line)
        phs.case({'header_value': line, 'kind': 'rendered', 'class_f46': f46})
        phs.op('ph ' + hexc(line), hexc(key) + ' ' + (';'.join(sorted(hexc(k_) + '=' + hexc(v_) for k_, v_ in pd.items())) or '-'))
        if not f46:
            try:
                with alarm():
                    key, pd = parse_header(line)
                got = (key, list(pd.items()))
            except Hang:
                got = 'did not return'
            except Exception as e:  # noqa
                got = 'raised ' + type(e).__name__
            want = (main, [(n.lower(), v) for _b, _a, n, v in ps])
            ctx.oracle(O_RT, got == want, None if got == want else f'parse_header({_short(line)}) = {_short(got)}, written: {_short(want)}',
                       {'header_value': line, 'main': main, 'params': [list(p) for p in ps]})
        ctx.seen(('qs', line), True)
    sess.finish(); phs.finish()


def _flatb(x):
    try:
        return bytes(x)
    except Exception:  # noqa
        return repr(x).encode()


def _hxt(x):
    """hex of a byte string for a correspondence reply + its exact type when that is not `bytes` (the models always answer bytes)"""
    try:
        h = x.hex()
    except Exception:  # noqa
        h = repr(x)
    return h if type(x) is bytes else h + '!TYPE=' + type(x).__name__


def _hxj(chunks):
    """... of the chunks written to a pipe destination / yielded by an iteration: joined hex + the types when some chunk is not a bytes"""
    h = b''.join(_flatb(c) for c in chunks).hex()
    return h if all(type(c) is bytes for c in chunks) else h + '!TYPES=' + ','.join(type(c).__name__ for c in chunks)


class _ListSink:
    """sync pipe destination that keeps the written objects (io.BytesIO would flatten their types)"""
    def __init__(self): self.got = []
    def write(self, d): self.got.append(d); return len(d)


def _short(x, n=160):
    s = repr(x)
    return s if len(s) <= n else s[:n] + f'...({len(s)} chars)'


LEVEL_TEXT = ('Machine-checked (Lean 4): (i) on the flat parser Mf (MultipartForm.__iter__ with every reader call replaced by its cursor meaning) and the reference encoder Mf.encodeForm: parse_encode for all '
              'boundary-/header-safe forms (each side condition with a decided witness of necessity), exact header-size and part-count limits, termination and error classification for arbitrary bodies; '
              '(ii) the bridge next_refines_flat: Mp.next - the transcription of MultipartForm.__iter__ as a resumable step function over the buffered-reader model - computes Mf on the text still to come for every lawful '
              'source (every transport chunking), every buffer state, chunk size >= delimiter length and every history of public reader operations on the part streams (delimit() handled by a lawful presentation of the '
              'delimited source + naturality of all reader operations in the source), hence consumption_independent, chunking_independent, impl_parse_encode. '
              '(iii) the async parser: Ma.next - the transcription of MultipartForm._iterate_parts over a reader interface - refines Mf for every reader satisfying the flat-cursor laws (async_refines_flat), is literally Mp.next over the sync reader (next_sync_eq), '
              'hence sync_async_agree; arLawful: the transcription of falcon/asgi/reader.py (generic chunk source, delimit = nested reader over parent._iter_delimited) satisfies the laws, so all of this holds for the concrete async stack and every list of transport pieces (async_concrete_refines_flat, sync_async_agree_concrete); async limits, error classification, get_data buffer limit on every call (F39 repaired, pinned witness). '
              'Mp.next is tied to the real sync parser (headers, every byte of every part-stream operation, error kinds, sizes asked of the raw stream) and to the real async parser (observable outputs), Ma.next over the transcription of falcon/asgi/reader.py (nested delimit reader, tell()/eof) to the real async parser, '
              'Mf.encodeForm to the harness reference encoder (byte for byte) and Mf.parseAll to the real sync and async parsers (parts, contents, outcome on valid/edited/truncated/messy bodies) by differential correspondences on every run. An independent oracle (reference encoder and flat-buffer splitter written from the statement) '
              'decides parse/encode round trips, consumption and chunking independence, the three limits at their thresholds, damaged bodies and WSGI/ASGI agreement through the real handler, Request and App.')
LEVEL_NOTE = ('PARTIAL: the BodyPart accessors other than get_data (name/filename/RFC 5987/content_type, get_text/get_media decoding) are oracle-only (parse_header underneath them is tied to its Lean model Mt.parseHeader by a correspondence; its round trip with the reference quoted-string writer is proved outside class F46 - Mt.parseHeader_render[G], necessity Mt.f46_exact / split_render_iff); chunk sizes below the delimiter length (ValueError) are correspondence-only; '
              'model = code is a differential correspondence. Trusted: Lean kernel + standard axioms, the harness, the reference encoder/splitter.')
TECHNIQUE = 'Lean 4: round-trip/limit/termination proofs on a flat parser + refinement bridge from the parser model over the buffered reader (all chunkings, all consumption histories) + async parse loop over a lawful reader interface (refinement, sync/async agreement) + differential correspondences of both models vs. real sync and async parsers + reference-encoder oracle'

"""C14 - buffered readers behave like one flat byte buffer for every chunking.

sync  : falcon/util/reader.py  BufferedReader   (model FalconModel/Reader.lean + ReaderExtra.lean, driver rddriver)
async : falcon/asgi/reader.py  BufferedReader   (model FalconModel/AsyncReader.lean + AsyncReaderIter.lean, theorems AsyncReaderProofs.lean, driver ardriver;
        nested delimited readers: AsyncReaderNested.lean on top of the source-generic transcription MultipartAsync.lean, theorems AsyncReaderNestedProofs.lean)
nested: ReaderNested.lean / ReaderNestedProofs.lean (sync, any depth), AsyncReaderNested*.lean (async, any depth)

Three things happen for every generated case (one reader construction + one history of operations):
  * the real class executes the history (every sync call under `alarm`, every async call under `asyncio.wait_for` + `alarm`);
  * the same lines go to the compiled Lean model and the replies are diffed (correspondence);
  * `Cur`, a flat cursor written from the property statement, is advanced by the same operations and must return exactly
    what the real class returned (the oracle - the only thing that decides a violation).
Observations are second-order: besides the value, the exact type of every object handed out (return values, readlines()
items, chunks written to a pipe destination, chunks of an iteration) must be `bytes` (`bytearray(b'a') == b'a'` is True,
so the value comparison alone cannot see a reader that starts handing out mutable look-alikes).
"""
PROP = 'C14'
LEAN_MODULES = ['FalconModel.Reader', 'FalconModel.ReaderExtra', 'FalconModel.ReaderProofs', 'FalconModel.FindLemmas',
                'FalconModel.ReadUntilProofs', 'FalconModel.RULoop', 'FalconModel.ReaderHistory', 'FalconModel.PeekProofs',
                'FalconModel.ReaderC14', 'FalconModel.ReaderPublic', 'FalconModel.AsyncReader', 'FalconModel.AsyncReaderIter',
                'FalconModel.AsyncReaderProofs',
                # nested delimited readers (both readers, any depth); ReaderMap / MultipartBridge / MultipartAsync* are shared with C13
                'FalconModel.ReaderMap', 'FalconModel.MultipartBridge', 'FalconModel.ReaderNested', 'FalconModel.ReaderNestedProofs',
                'FalconModel.MultipartAsync', 'FalconModel.MultipartAsyncReaderProofs', 'FalconModel.AsyncReaderNested',
                'FalconModel.AsyncReaderNestedProofs', 'FalconModel.AsyncReaderGuard', 'FalconModel.AsyncReaderGuardProofs']
DRIVERS = ['rddriver', 'ardriver']
THEOREMS = [
    # --- headline statements (sync reader, any lawful source = every chunking / short-read pattern)
    'Rd.public_history_refines_cursor', 'Rd.readerStep_refines', 'Rd.fresh_reader', 'Rd.tailPeek_chunk',
    'Rd.history_refines_cursor', 'Rd.implStep_refines', 'Rd.readUntilCore_refines', 'Rd.readCore_refines', 'Rd.readCore_pos_le',
    'Rd.performRead_spec', 'Rd.peek_refines', 'Rd.tailPeek_spec', 'Rd.finishRU_consume_peek', 'Rd.finalize_consume_of_notfound',
    'Rd.fragment_first_occ', 'Rd.find_spec', 'Rd.firstOcc_spec',
    # --- ReaderC14.lean: the public wrappers
    'Rd.read_refines', 'Rd.readUntil_refines_all', 'Rd.readUntil_refines', 'Rd.pipeUntil_refines', 'Rd.pipeUntil_consume_refines',
    'Rd.pipe_refines', 'Rd.exhaust_refines', 'Rd.readline_refines', 'Rd.readlines_refines',
    'Rd.pipeLoop_refines', 'Rd.pipeUntilLoop_refines', 'Rd.pipeUntil_loop', 'Rd.pipeUntil_consume_eq', 'Rd.readlinesLoop_refines',
    'Rd.specLines_fuel', 'Rd.stopAt_step', 'Rd.lineStop_of_stopAt', 'Rd.lineStop_big', 'Rd.normalize_irrelevant', 'Rd.fuel_enough',
    'Rd.abs_length_le', 'Rd.take_normalize', 'Rd.performRead_chunk', 'Rd.readCore_chunk', 'Rd.stopAt_big', 'Rd.stopAt_normalize',
    'Rd.stopAt_le_length', 'Rd.stopAt_zero', 'Rd.no_occ_nil',
    # --- ReaderC14.lean: consume_delimiter=True for _read_until / read_until
    'Rd.readUntil_consume_refines', 'Rd.readUntilCore_consume_refines', 'Rd.readUntilCore_consume_eq', 'Rd.readUntilLoop_consume',
    'Rd.found_consume', 'Rd.notfound_consume', 'Rd.readCore_advance',
    # --- ReaderProofs.lean: the file-like source with any short-read oracle is a LawfulSource; _perform_read; _read
    'Rd.Src.read_fst', 'Rd.Src.read_snd_data', 'Rd.capOf_le', 'Rd.capOf_pos', 'Rd.Src.readLen_le_size', 'Rd.Src.readLen_le_data',
    'Rd.Src.readLen_pos', 'Rd.performReadLoop_spec', 'Rd.performReadLoop_full', 'Rd.drop_take_append_drop', 'Rd.take_len_add',
    'Rd.drop_len_add', 'Rd.sliceFrom_nonneg', 'Rd.sliceTo_nonneg', 'Rd.slice_nonneg',
    # --- FindLemmas.lean: bytes.find, occurrences, the cross-chunk fragment test
    'Rd.isPrefix_iff', 'Rd.occ_iff', 'Rd.findAux_spec', 'Rd.occ_drop', 'Rd.occ_append_left', 'Rd.occ_append_right', 'Rd.occ_straddle',
    'Rd.occ_take', 'Rd.occ_lt_length', 'Rd.stopAt_of_occ', 'Rd.stopAt_no_occ_before', 'Rd.stopAt_none',
    # --- ReadUntilProofs.lean: loop invariant LInv and one lemma per exit of the _read_until loop
    'Rd.abs_eq', 'Rd.append_chunk_abs', 'Rd.fillBuffer_abs', 'Rd.readCore_from_buffer', 'Rd.LInv.A0_split', 'Rd.LInv.occ_shift',
    'Rd.LInv.occ_buf', 'Rd.avail_congr', 'Rd.finish_buffer', 'Rd.exit_found_at', 'Rd.exit_found_in_buffer', 'Rd.LInv.A0_length',
    'Rd.exit_enough_data', 'Rd.finish_general', 'Rd.resolveDpos_given', 'Rd.resolveDpos_search', 'Rd.exit_all_buffered',
    'Rd.occ_drop_append', 'Rd.fragment_eq', 'Rd.no_occ_through_buffer', 'Rd.performRead_inv', 'Rd.replace_chunk', 'Rd.finish_next',
    # --- RULoop.lean: induction over the loop
    'Rd.LInv.append', 'Rd.drop_all_of_pos_eq', 'Rd.LInv.take_through', 'Rd.readUntilLoop_refines', 'Rd.avail_length_le', 'Rd.LInv.start',
    # --- PeekProofs.lean
    'Rd.fillBuffer_full',
    # --- AsyncReaderProofs.lean: the async reader model ARd (the one ardriver runs) refines the same flat cursor, every chunking
    'ARd.async_reader_refines_flat_cursor', 'ARd.async_history_refines_cursor', 'ARd.asyncStep_refines',
    'ARd.async_reader_iter_refines_flat_cursor', 'ARd.async_history_iter_refines_cursor', 'ARd.iterate_refines', 'ARd.iterLoop_spec',
    'ARg.guarded_async_reader_refines_flat_cursor', 'ARg.guarded_n_history_refines_cursor', 'ARg.gRun_admitted', 'ARg.gRun_refused',
    'ARg.admitted_iter_count', 'ARg.refused_iter_unchanged', 'ARg.notAllowed_iff', 'ARg.started_after', 'ARg.mem_admitted', 'ARg.run_iterStep', 'ARg.run_nStep',
    'ARd.fresh_async', 'ARd.tell_total', 'ARd.eof_end', 'ARd.eof_after_drain',
    'ARd.read_refines', 'ARd.readall_refines', 'ARd.peek_refines', 'ARd.readUntil_refines', 'ARd.pipeUntil_refines',
    'ARd.pipe_refines', 'ARd.exhaust_refines', 'ARd.pipe_spec', 'ARd.until_tail',
    'ARd.readFrom_spec', 'ARd.readAll_spec', 'ARd.readN_spec', 'ARd.prepend_spec', 'ARd.weight_lt_big', 'ARd.lim_le', 'ARd.lim_isW',
    'ARd.peek_spec', 'ARd.peekLoop_spec', 'ARd.consume_spec',
    'ARd.step_spec', 'ARd.step_w', 'ARd.wSource_spec', 'ARd.dStart_spec', 'ARd.dPreLoop_spec', 'ARd.dLoop_spec', 'ARd.dAfterOutput_spec',
    'ARd.dCheck_spec', 'ARd.d_buf_yield', 'ARd.buf_yield', 'ARd.trim_spec', 'ARd.merge_eq', 'ARd.need_le_fuelOf', 'ARd.StepSpec.transfer',
    'ARd.nextNorm_spec', 'ARd.normLoop_spec', 'ARd.good_next_some', 'ARd.good_next_none', 'ARd.abs_eq', 'ARd.abs_same', 'ARd.abs_length_buf',
    'ARd.straddle', 'ARd.U_spec', 'ARd.U_eq', 'ARd.U_ge', 'ARd.U_drop', 'ARd.U_found', 'ARd.U_ge_buf', 'ARd.stopAt_eq_min_U',
    'ARd.sliceTo_eq_slice', 'ARd.take_min_length', 'ARd.drop_min_length',
    # --- ReaderNestedProofs.lean: nested delimited readers of the sync reader, any depth
    'Rn.delimit_is_lawful_source', 'Rn.delimit_source_lawful', 'Rn.nested_history_refines_cursor', 'Rn.parent_resumes',
    'Rn.nested_depth_refines', 'Rn.nested_depth_refines_fresh', 'Rn.child_parent', 'Rn.childGD_full', 'Rn.runProg_map',
    'Rn.delimMap_sim', 'Rn.delimit_map', 'Rn.sub_val_sim', 'Rn.Sim.comp', 'Rn.gd_read_full', 'Rn.inv_mapR',
    'Rn.readerRun_full', 'Rn.readerStep_full', 'Rn.full_read', 'Rn.performReadLoop_full', 'Rn.performRead_full', 'Rn.fillBuffer_full',
    'Rn.peek_full', 'Rn.readCore_full', 'Rn.read_full', 'Rn.firstRead_full', 'Rn.spliceNext_full', 'Rn.consumeD_full',
    'Rn.finishRU_full', 'Rn.finalizeRU_full', 'Rn.readUntilLoop_full', 'Rn.readUntilCore_full', 'Rn.pipeUntilLoop_full',
    'Rn.pipeUntil_full', 'Rn.readUntil_full', 'Rn.pipeLoop_full', 'Rn.pipe_full', 'Rn.exhaust_full', 'Rn.readline_full',
    'Rn.readlinesLoop_full', 'Rn.readlines_full',
    # ... resting on (MultipartBridge.lean / ReaderMap.lean, shared with C13)
    'Mf.part_stream_refines', 'Mf.gd_read', 'Mf.gd_at', 'Mf.toDelim_sim', 'Mf.childGD_facts', 'Mf.readerRun_map', 'Mf.readerStep_map',
    'Mf.readUntil_map', 'Mf.stopAt_drop', 'Mf.stopAt_min', 'Mf.contentOf_length',
    # --- AsyncReaderNestedProofs.lean: ARd = Ma's source-generic reader at the concrete source; nested delimited readers, any depth
    'An.toMa_asyncStep', 'An.toMa_asyncRun', 'An.toMa_iterate', 'An.ofMa_toMa', 'An.toMa_ofMa', 'An.toMa_good', 'An.toMa_abs',
    'An.toMa_tell', 'An.toMa_eof', 'An.toMa_total', 'An.toMa_future', 'An.normLoop_eq', 'An.nextNorm_eq', 'An.dCheck_eq', 'An.gstep_eq',
    'An.readAll_eq', 'An.prepend_eq', 'An.readN_eq', 'An.readFrom_eq', 'An.peekLoop_eq', 'An.peek_eq', 'An.consume_eq', 'An.read_eq',
    'An.readall_eq', 'An.pipe_eq', 'An.readUntil_eq', 'An.pipeUntil_eq', 'An.iterLoop_eq', 'An.aiterPc_eq',
    'An.delimited_source_lawful', 'An.async_nested_history_refines_cursor', 'An.async_nested_depth_refines',
    'An.root_nested_history_refines_cursor', 'An.async_nested_depth_fresh', 'An.n_history_refines_cursor', 'An.nStep_refines',
    'An.iterate_refines', 'An.iterLoop_spec', 'An.child_parent', 'An.absA_held', 'An.total_reach', 'An.delimit_good', 'An.tell_eq',
    'An.eof_rest', 'An.parent_src_reach', 'An.nRun_reach', 'An.nStep_reach', 'An.iterLoop_reach', 'An.nRun_vt', 'An.nStep_vt',
    'An.iterLoop_vt', 'An.arRun_vt', 'An.arStep_vt', 'An.normLoop_vt', 'An.nextNorm_vt', 'An.dCheck_vt', 'An.gstep_vt', 'An.readAll_vt',
    'An.prepend_vt', 'An.readN_vt', 'An.readFrom_vt', 'An.peekLoop_vt', 'An.peek_vt', 'An.consume_vt', 'An.readUntil_vt', 'An.pipeUntil_vt',
    # ... resting on (MultipartAsyncReaderProofs.lean, shared with C13): the source-generic port of AsyncReaderProofs.lean
    'Ma.ar_history_refines_cursor', 'Ma.arStep_refines', 'Ma.PInv_reach', 'Ma.arRun_reach', 'Ma.gstep_reach', 'Ma.step_spec',
    'Ma.nextNorm_spec', 'Ma.readFrom_spec', 'Ma.readAll_spec', 'Ma.readN_spec', 'Ma.peek_spec', 'Ma.consume_spec', 'Ma.dLoop_spec',
    'Ma.straddle', 'Ma.need_le_fuelOf', 'Ma.weight_lt_big',
]
STATEMENTS = {
    'Rd.public_history_refines_cursor': 'C14 for one synchronous reader: for every reader state satisfying the invariant, every lawful source (= every chunking and short-read pattern), every chunk size and every history of public operations read / peek / read_until / pipe_until (with or without consuming the delimiter, any size cap) / pipe / exhaust / readline / readlines with valid arguments (sizes None, -1 or >= 0; 1 <= len(delimiter) <= chunk size): the observations (bytes, list of lines, None, DelimiterError) are operation by operation those of the flat cursor cursorRun over abs(r), exactly the cursor\'s rest remains - nothing returned twice or skipped - and the invariant (incl. budget >= 0, i.e. never beyond max_stream_len) holds again',
    'Rd.readerStep_refines': 'one public operation = one step of the flat cursor (same observation, same remaining text), invariant, pos <= len and chunk size preserved',
    'Rd.fresh_reader': 'BufferedReader(read, max_stream_len >= 0, chunk_size > 0) starts in a state satisfying the invariant, with abs = the first max_stream_len bytes of the source',
    'Rd.history_refines_cursor': 'for every list of _read(n) / _read_until(d, n) calls (d non-empty, len(d) <= chunk size), every reader state satisfying the invariant and every lawful source (= every chunking and short-read pattern): the outputs are, call by call, what the flat cursor returns on abs(r) (take n / take up to the first occurrence of d, n bytes or the end), exactly the rest remains, and the invariant incl. pos <= len is re-established',
    'Rd.implStep_refines': 'one _read / _read_until step refines one cursor step and preserves the invariant and the chunk size',
    'Rd.readUntilCore_refines': "(= readUntil'_refines, prime-free name) _read_until(d, size, consume_delimiter=False) returns abs(r)[:stopAt d abs(r) size] - the text up to the first occurrence of d, size bytes or the end of the declared data - and leaves abs = the rest; holds for every buffer state, chunk size, delimiter of length 1..chunk and every lawful source",
    'Rd.readCore_refines': "(= read'_refines) _read(size), all five branches: returns take size abs(r), leaves drop size abs(r), keeps the invariant",
    'Rd.readCore_pos_le': "(= read'_pos_le) after _read the position is inside the buffer (pos <= len); this is the statement the code before b05da5a (F21) violates",
    'Rd.read_refines': 'read(size) with size None, -1 or >= 0 (i.e. _normalize_size followed by _read): returns the next size bytes - everything for None/-1 or when fewer remain - leaves exactly the rest, keeps the invariant, pos <= len and the chunk size',
    'Rd.pipe_refines': 'pipe() hands out exactly abs(r) (all that is still to come, in order, nothing twice) and leaves nothing; the fuel of the model loop is never exhausted',
    'Rd.exhaust_refines': 'after exhaust() nothing is left to read and the invariant holds',
    'Rd.readUntil_refines_all': 'read_until(d, size) with the delimiter not consumed, size None/-1/>= 0, 1 <= len(d) <= chunk, on BOTH branches (in-memory join up to 128 chunks, pipe_until above): returns abs(r)[:stopAt d abs(r) size] - up to the first occurrence of d, size bytes or the end - and leaves exactly the rest',
    'Rd.readUntil_refines': 'the same for the branch below the 128-chunk join limit',
    'Rd.readUntil_consume_refines': 'read_until(d, size, consume_delimiter=True), size None/-1/>= 0, 1 <= len(d) <= chunk, both branches: returns the same bytes abs(r)[:k] (k = stopAt d abs(r) size) as without consumption; if abs(r)[k:k+len d] == d the cursor ends behind the delimiter, otherwise DelimiterError is raised and the cursor stays at k - i.e. exactly the flat-cursor semantics',
    'Rd.readUntilCore_consume_refines': 'the same for _read_until(d, size, True) with an explicit size >= 0',
    'Rd.readUntilCore_consume_eq': '_read_until(d, size, consume_delimiter=True) = the non-consuming _read_until followed by the tail "peek(len d) == d ? step over it : DelimiterError" - as an equation between results and reader states',
    'Rd.readUntilLoop_consume': 'the while-True loop of _read_until with consume_bytes = len(d) equals the loop with consume_bytes = 0 followed by that tail, from every state satisfying the loop invariant (all six exits)',
    'Rd.found_consume': 'on the two exits that have located the delimiter at buffer offset q, the quick check "_buffer_pos != delimiter_pos" decides exactly what peeking for the delimiter would decide',
    'Rd.pipeUntil_refines': 'pipe_until(d) without consuming the delimiter writes exactly abs(r)[:stopAt d abs(r) size] (the pieces of the chunk-wise loop concatenate to one read_until) and leaves the rest; the loop fuel is never exhausted',
    'Rd.pipeUntil_consume_refines': 'pipe_until(d, consume_delimiter=True) writes the same bytes; if the cursor is then at d it steps over it (abs = rest after the delimiter), otherwise it raises DelimiterError and the cursor stays just behind what was written',
    'Rd.readline_refines': 'readline(size), size None/-1/>= 0: returns abs(r)[:lineStop] - through the first LF, at most size bytes, at most to the end of the declared data - and leaves exactly the rest',
    'Rd.readlines_refines': 'readlines(hint) returns exactly linesOf(abs(r), hint) - the lines cut off the flat text one after the other until it is used up or (hint >= 0) the total reaches hint - and leaves exactly the rest; the loop fuel of the model is irrelevant (specLines_fuel)',
    'Rd.stopAt_step': 'read_until(d, m) either stopped early (then any larger cap stops at the same place and a further read_until returns nothing) or returned m bytes and a larger request continues on the rest: stopAt d A (m+n) = m + stopAt d (A.drop m) n',
    'Rd.pipeLoop_refines': 'the read(chunk_size)-until-empty loop of pipe(), from any state satisfying the invariant with enough fuel: output = accumulator ++ abs(r), nothing left',
    'Rd.abs_length_le': 'what is still to come is never longer than _normalize_size(None) = remaining budget + buffered bytes',
    'Rd.performRead_spec': '_perform_read(size) returns exactly the next min(size, |available|) declared bytes for every short-read behaviour of the source, advances the source by exactly that, never reads beyond the remaining budget, and zeroes the budget at a premature EOF',
    'Rd.peek_refines': 'peek(size) returns the next min(size clamped to the chunk size, |abs|) bytes and leaves abs, the invariant and pos <= len unchanged',
    'Rd.tailPeek_spec': 'the consume_delimiter tail (peek(len d) == d ? step over it : DelimiterError) succeeds exactly when the cursor is at the delimiter and otherwise does not move the cursor',
    'Rd.finishRU_consume_peek': '_finalize_read_until with consume_delimiter=True and the delimiter not located beforehand = the non-consuming finish followed by that tail',
    'Rd.finalize_consume_of_notfound': 'for the three loop exits that finish without having located the delimiter, consume_delimiter=True returns the same bytes and steps over the delimiter iff the cursor is at it, else DelimiterError without moving',
    'Rd.fragment_first_occ': 'the cross-chunk test on buffer[offset:] + next_chunk[:len(d)-1] with offset = max(len - (len(d)-1), pos) sees exactly the occurrences of d that start inside the buffer and straddle the border',
    'Rd.find_spec': 'the model of bytes.find(d, start) returns -1 iff there is no occurrence at or after start, otherwise the first one',
    'Rd.firstOcc_spec': 'firstOcc d l is none iff d does not occur in l, else the least position where it occurs',
    'Rd.readUntilLoop_refines': 'the while-True loop of _read_until, started in any state satisfying the loop invariant LInv (backlog = A0[:have], cursor view = A0[have:], no occurrence before have), returns A0[:stopAt] and leaves the rest; by induction on the bytes still to come, so the fuel of the model is never exhausted',
    'Rd.performReadLoop_spec': 'the short-read retry loop of _perform_read returns result ++ the next bytes and never over-reads',
    'Rd.fillBuffer_full': 'after _fill_buffer() a whole chunk is buffered or the source has nothing more within the declared length',
    'Rd.exit_found_at': 'exit "delimiter straddles the chunk border" of the loop returns the cursor text up to the delimiter',
    'Rd.exit_enough_data': 'exit "enough data in the buffer" (size < have + buffered - (len(d)-1)) returns exactly size bytes',
    'Rd.exit_all_buffered': 'exit "EOF reached" returns the text up to the delimiter / size / end',
    'Rd.finish_next': 'exit "enough accumulated, keep the look-ahead chunk": the chunk read ahead is spliced back into the buffer, nothing is dropped',
    'ARd.async_reader_refines_flat_cursor': 'C14 for the async reader as stated: for every list of source chunks (= every chunking of the data, empty chunks anywhere), every chunk size > 0 and every history of read(any int or None) / readall / peek / read_until / pipe_until (with or without consuming the delimiter, 1 <= len(delimiter) <= chunk size) / pipe / exhaust, the model of BufferedReader(source, chunk_size) that ardriver runs returns operation by operation exactly the observations (bytes, None, DelimiterError) of the flat cursor Rd.cursorRun over the concatenated data - the same specification as for the sync reader -, what it still has to deliver is exactly the cursor\'s rest (nothing lost, duplicated or reordered), tell() equals the cursor position len(data) - len(rest), and eof is true only when the rest is empty',
    'ARd.async_history_refines_cursor': 'the same from ANY reader state satisfying the representation invariant Good (any buffer contents and position, any chunks still to come, _iter_normalized suspended at either of its yields or finished): the observations of every history are those of the flat cursor over abs(r) = unread buffer ++ what the normalized source will still deliver, abs of the final state is the cursor\'s rest, Good holds again and consumed + len(future) (hence tell() + len(rest)) is unchanged; by induction over the history',
    'ARd.asyncStep_refines': 'one public operation = one Rd.cursorStep (same observation, same remaining text), invariant, chunk size and tell()+len(rest) preserved',
    'ARd.async_history_iter_refines_cursor': 'histories that may also iterate (async for, abandoned after k chunks): every observation is accepted by the flat cursor in turn - ordinary operations deterministically as above, an iteration as ANY chunking of the next bytes that is shorter than k chunks only at the end of the data - and the cursor ends at exactly what the reader still has to deliver',
    'ARd.async_reader_iter_refines_flat_cursor': 'the same from construction over any list of source chunks, with tell() = cursor position',
    'ARg.guarded_async_reader_refines_flat_cursor': 'the async root reader WITH its _iteration_started guard (the machine ardriver runs: every line goes through ARg.gStep), from construction over any list of source chunks, chunk size > 0, for every history that may ask for an iteration any number of times: the observations other than OperationNotAllowed are accepted one by one by the flat cursor over the concatenated data as the history of the admitted operations (the history with every iteration after the first erased), the cursor ends at what the reader still has to deliver, tell() is the cursor position, and OperationNotAllowed is raised exactly for the iterations after the first',
    'ARg.guarded_n_history_refines_cursor': 'the same for a reader over ANY lawful chunk source from any state satisfying the invariant (a delimited child at any depth; every reader object has its own flag, given as part of the state): accepted by the flat cursor over the reader\'s text, invariant / chunk size / tell()+len(rest) preserved, refusals exactly the iterations after the flag was set',
    'ARg.gRun_admitted': 'generic in the guarded machine: a guarded history is the unguarded history of the admitted operations - same reader-side observations, same final reader state',
    'ARg.admitted_iter_count': 'at most one iteration of a reader object ever reaches the reader (none once the flag is set)',
    'ARg.refused_iter_unchanged': 'a refused iteration leaves the reader and its flag exactly as they were (nothing consumed)',
    'ARd.iterate_refines': 'async-for over the reader, stopped after k chunks: the chunks concatenate to the next bytes of the flat text, the rest remains, fewer than k chunks only if the text is used up',
    'ARd.step_spec': 'one resumption of either wrapper generator (_iter_with_buffer / _iter_delimited) at any of its nine program counters, from any state satisfying the generator invariant GI: a yield hands out the next bytes of the flat text and stays within the generator\'s share (everything / up to the first occurrence of the delimiter), StopAsyncIteration comes only when the share is used up, ValueError never for a valid delimiter; the recursion fuel fuelOf of the model is sufficient',
    'ARd.dLoop_spec': 'the `async for chunk in self._source` loop of _iter_delimited from any state with position 0 and no complete delimiter in the buffer (all five exits: source exhausted, no delimiter across the border, delimiter straddling the border, delimiter in the merged buffer, continue), by induction on the chunks still to come',
    'ARd.straddle': 'cross-chunk delimiter detection: with no complete occurrence in the buffer b, an occurrence of d starting inside b exists in b ++ chunk ++ rest iff the search in fragment = b[len(b)-(len(d)-1):] + chunk[:len(d)-1] finds it - provided the chunk is a full one (len(d) <= chunk_size <= len(chunk)) or the last one, which is what _iter_normalized guarantees (nextNorm_spec)',
    'ARd.nextNorm_spec': 'one __anext__ of _iter_normalized, from any of its suspension points: either a non-empty chunk c with future = c ++ future\', consumed += len(c), and c at least chunk_size long unless it is the last one; or StopAsyncIteration with nothing left, _exhausted set; empty source items change nothing; the fuel of normLoop is sufficient',
    'ARd.readFrom_spec': '_read_from(source, size) for size None, -1, <= 0, > 0 and either generator: returns the next min(size, share) bytes and leaves exactly the rest (the unused tail of the last chunk goes back in front of the buffer); the loop fuel is sufficient',
    'ARd.readAll_spec': 'draining a generator completely returns exactly its share of the flat text; for _iter_with_buffer the reader is then at eof',
    'ARd.peek_spec': 'peek(size) returns the next size (clamped to the chunk size) bytes of the flat text and consumes nothing; the loop fuel is sufficient',
    'ARd.consume_spec': '_consume_delimiter succeeds iff the flat text continues with the delimiter and then steps over exactly it; otherwise DelimiterError and nothing is consumed',
    'ARd.eof_end': 'eof is true only when nothing is left to read',
    'ARd.eof_after_drain': 'after readall / read(None) / read(-1) / pipe / exhaust eof is true',
    'ARd.tell_total': 'tell() + len(text still to come) = consumed + len(what the source will still deliver): with the preserved total this makes tell() the flat cursor position',
    'ARd.fresh_async': 'BufferedReader(source, chunk_size > 0) starts in a state satisfying the invariant, with abs = the concatenation of all source chunks and tell() = 0',
    'ARd.U_drop': 'after handing out m bytes that lie before the delimiter, the rest is still up to the same delimiter: m + U d (A[m:]) = U d A',
    'Rn.delimit_is_lawful_source': 'the read callback that delimit(d) hands to the child reader (= the parent\'s read_until(d, size), delimiter not consumed), called with size > 0 on a parent reader satisfying the invariant over any lawful source, with remaining text t and 1 <= len(d) <= chunk size: returns exactly the first min(size, len(C)) bytes of C = t up to the first occurrence of d (all of t if none), so a prefix of at most the requested length that is empty only when C is; leaves the parent in a state satisfying the invariant (same chunk size) whose text is t minus exactly those bytes, and the content still to come is C minus those bytes - i.e. the callback is a lawful source with total content C',
    'Rn.delimit_source_lawful': 'the same as an instance of the LawfulSource class: the callback restricted to parents in a good state (Mf.GD) satisfies all laws with data = the text up to the first d; it forgets to the real Rd.Delim by a simulation; the child reader delimit(p, d) built over it satisfies the invariant, its text is exactly that prefix, and its budget covers it',
    'Rn.nested_history_refines_cursor': 'C14 for one level of nesting (sync): for every parent state satisfying the invariant over any lawful source, every delimiter of length 1..chunk size and every history of public operations on the CHILD delimit(d): the observations are those of the flat cursor over the prefix C of the parent\'s text before the first d (by instantiating public_history_refines_cursor at the lawful presentation of the child\'s source); the child\'s remaining text (unread buffer ++ what the parent still has before d) is exactly the cursor\'s rest; child buffer ++ parent text = cursor rest ++ the text from the delimiter on (nothing lost, nothing duplicated); the parent satisfies the invariant again, same chunk size, and is positioned at j = child cursor position + len(child\'s unread buffer) <= len(C) - never past the delimiter, and exactly AT the delimiter when the child was drained (rest empty)',
    'Rn.parent_resumes': 'after the child is dropped the parent continues as a flat cursor: every history of public operations on it refines the flat cursor over the parent\'s original text from a position j with (what the child consumed) <= j <= (the delimiter), j = the delimiter position if the child was drained',
    'Rn.nested_depth_refines': 'C14 for ANY nesting depth (sync): for every program built from public operations and delimit(d){...} blocks nested arbitrarily deep (run a sub-program on the child, drop it, continue on this reader), every reader state satisfying the invariant and every lawful source: running it on the reader model with real nested Rd.Delim sources (runProg) satisfies the flat-cursor specification ProgSpec - each reader at each level is a flat cursor over the text of its parent up to the first occurrence of its delimiter, a dropped child leaves its parent between what the child consumed and the delimiter (exactly at the delimiter when drained) - and the invariant holds again; by induction over programs generalising the source type (the child\'s source is presented as a lawful source GP, to which the induction hypothesis applies) + naturality of whole programs in the source (runProg_map)',
    'Rn.nested_depth_refines_fresh': 'the same from construction BufferedReader(read, max_stream_len >= 0, chunk_size > 0): the root text is the first max_stream_len bytes of the source',
    'Rn.readerRun_full': 'budget frame: if the declared budget covers what the source still holds (true of every delimited child: its budget is the parent\'s whole remaining length), it still does after any history of public operations - this is what pins the parent\'s position exactly',
    'Rn.runProg_map': 'every program over nested readers is natural in the root source: for a simulation f of sources, running on mapR f r = running on r and mapping the result (delimit maps simulations to simulations: delimMap_sim)',
    'Rn.child_parent': 'a child reader with covering budget: its text = its unread buffer ++ the parent\'s text up to the delimiter, and child buffer ++ parent text = child text ++ the text from the delimiter on',
    'An.toMa_asyncStep': 'the C14 root model ARd IS the source-generic transcription Ma.AR of falcon/asgi/reader.py at the concrete chunk-list source: under the field-by-field bijection toMa every public operation (read, readall, peek, read_until, pipe_until, pipe, exhaust) returns the same observation and the translated state (proved function by function: normLoop_eq, nextNorm_eq, gstep_eq, readAll_eq, readN_eq, readFrom_eq, peek_eq, consume_eq, ...)',
    'An.toMa_iterate': 'iteration abandoned after k chunks: the generic An.iterate at toMa r yields the chunks and state of ARi.iterate r (or reports the ValueError that ARi does not model and iterate_refines excludes)',
    'An.delimited_source_lawful': 'the chunk source handed to the child by delimit(d) - the parent\'s generator _iter_delimited(d), suspended anywhere, on a parent satisfying the generator invariant - is a lawful chunk source (Ma\'s instance LawfulASource (DelimGen sigma): it delivers exactly the parent\'s text up to the first d in pieces, never raises, ends), and the freshly delimited child satisfies the invariant with exactly that text and tell() = 0',
    'An.async_nested_history_refines_cursor': 'C14 for one level of nesting (async): for every parent state satisfying the invariant over ANY lawful chunk source (the root over a chunk list, or itself a delimited child), every delimiter of length 1..chunk size and every history of read / readall / peek / read_until / pipe_until / pipe / exhaust / iteration (complete or abandoned after k chunks) on the child p.delimit(d): every observation is accepted by the flat cursor over the prefix C of the parent\'s text before the first d, the child\'s remaining text is the cursor\'s rest, child.tell() = len(C) - len(rest), child.eof only at the end; (bytes the child holds: unread buffer ++ pending chunk of its _iter_normalized) ++ parent text = rest ++ the text from the delimiter on (nothing lost, nothing duplicated); the parent satisfies the invariant, same chunk size, is at position j = child cursor + len(held) <= len(C) - never past the delimiter, exactly at it when the child was drained - and parent.tell() advanced by exactly j',
    'An.async_nested_depth_refines': 'C14 for ANY nesting depth (async): for every program built from operations, iterations and delimit(d){...} blocks nested arbitrarily deep, every reader state satisfying the invariant and every lawful chunk source: running it on the generic reader model (runAProg: a child is a reader over Ma.DelimGen of its parent) satisfies the flat-cursor specification AProgSpec (same shape as the sync ProgSpec; iteration = any chunking of the next bytes), the invariant, chunk size and tell()+len(rest) are preserved; by induction over programs generalising the source type',
    'An.root_nested_history_refines_cursor': 'the one-level statement for a state of the C14 root model ARd satisfying ARd.Good, with the parent translated back to ARd afterwards (so ARd.async_history_refines_cursor continues from there): ARd.abs / ARd.tell of the parent = original text from position j, tell + j',
    'An.async_nested_depth_fresh': 'from construction BufferedReader(source, chunk_size > 0) over any list of source chunks: any program with nested delimits of any depth satisfies AProgSpec over the concatenated data, and the root\'s tell() = len(data) - len(rest)',
    'An.n_history_refines_cursor': 'every history of operations incl. abandoned iteration on a reader over ANY lawful chunk source is accepted by the flat cursor (source-generic version of ARd.async_history_iter_refines_cursor)',
    'An.iterate_refines': 'async-for over a reader at any nesting level, stopped after k chunks: the chunks concatenate to the next bytes of its flat text, the rest remains, fewer than k chunks only if the text is used up, no ValueError',
    'An.absA_held': 'a reader\'s text = the bytes it holds (unread buffer ++ what _iter_normalized has taken from its source and not yet yielded) ++ what its source still delivers (needs: after _iter_normalized has seen the end, the source holds nothing more - the frame invariant VT, preserved by every operation: nRun_vt)',
    'An.total_reach': 'reading through a delimited child never changes the parent\'s tell() + len(text still to come)',
    'Ma.ar_history_refines_cursor': 'every history of public operations of the source-generic transcription of falcon/asgi/reader.py refines the flat cursor, over any lawful chunk source (port of ARd.async_history_refines_cursor; MultipartAsyncReaderProofs.lean)',
    'Ma.PInv_reach': 'whatever is done with a delimited child, its parent keeps the generator invariant and its chunk size, and parent position + what the suspended _iter_delimited will still hand out = the position of the first delimiter',
    'Mf.part_stream_refines': 'sync, one level, without exact position: histories on delimit(p, d) refine the cursor over the content and leave the parent good, not beyond the delimiter (MultipartBridge.lean)',
}
TRUSTED = [
    'LawfulSource as the contract of the read callable handed to the sync reader (returns a prefix of the text still to come, at most the requested length, empty only at its end); instance proved for the file-like source with any short-read oracle',
    'the Python statement oracle `Cur` in harness/props/c14.py (flat cursor; a delimited sub-reader = cursor over the text up to the next delimiter); "what a cursor over a byte string returns" is read as: an object whose type is exactly bytes',
    'the Lean models compute on List UInt8: the TYPE of the Python object is not a notion of the model; the correspondence treats "the model answered with bytes" as constant, so any other observed type is a mismatch by construction of the rendering (_render), not by a theorem',
    'timers deciding "did not return": 3 s of CPU time (ITIMER_VIRTUAL) or 60 s wall-clock (ITIMER_REAL) per real call; asyncio.wait_for(..., 60 s) around every async case',
    'async reader: the theorems are about the model ARd/ARi (AsyncReader.lean, AsyncReaderIter.lean) for the root reader and about An/Ma (AsyncReaderNested.lean on MultipartAsync.lean: the same file transcribed generically in its chunk source, a delimited child being a reader over the parent\'s _iter_delimited generator) for nested readers - An.toMa_asyncStep proves the two agree at the root; that these models behave like falcon/asgi/reader.py is the differential correspondence through ardriver (return values, exceptions, tell(), eof, the chunks of an iteration, at every nesting level); a root source is a finite list of byte chunks; the representation invariant Good requires chunk_size > 0',
    'nested readers: the theorems nested_depth_refines / async_nested_depth_refines are about programs (Rn.Prog / An.AProg: operations and properly nested delimit{...} blocks, run by runProg / runAProg) for ANY depth; the drivers execute the flat delimit/pop line protocol with a stack of at most two nested levels using the same primitives (Rd.delimit / Ma.delimit of the innermost reader, pop = its .src.parent) - that this bookkeeping is runProg on the corresponding program is by inspection of RdMain.lean / ArMain.lean, not a theorem',
]
ASSUMPTIONS = [
    'size arguments are None, -1 or >= 0 for the sync reader (read(-2) moves the buffer position backwards; not part of the statement); any int or None for the async reader',
    'delimiters given to the oracle have length 1..chunk size (others are only compared against the model: ValueError)',
    'the read callable of the sync reader returns b"" only at its end (file-object contract); async sources may yield empty chunks anywhere',
    'a parent reader is specified by the flat cursor only while no delimited child of it is alive; operations addressed to a parent while a child is alive are compared against the model only; after an un-exhausted child was dropped the parent may be anywhere between what the child returned and the delimiter (the oracle tracks that set of positions)',
    'readlines(0): both "one line" (falcon) and "all lines" (io.IOBase) are accepted',
]
RULE = ('random part: data over {a,b,CR,LF,-} (uniform or delimiter-sparse) of length 0..40 and, for a tenth of the cases, 150..4096; chunk size in {1..9,64}; '
        'sync: max_len in {len, len-2, len-100, len+3 (truncated body), 0} and a short-read pattern (none / random caps 1..3 / all 1-byte / all 2-byte); async: source split into chunks of '
        '0..9 bytes, all 1-byte, one piece, or 64..1000-byte pieces, empty chunks anywhere, a tenth yielding to the event loop; histories of 1..10 (a fifth: 11..30) operations over '
        'read/peek/read_until/pipe_until/pipe/readline/readlines/exhaust/readall/iterate + delimit/pop up to two levels deep (a dropped child is first exhausted in 60% of the cases); '
        'delimiters from {LF, -, CRLF, --, CRLF--, a-a, ab} or cut out of the data around the cursor / the end of the buffered bytes (length 1..min(chunk,5)); sizes from a fixed list or '
        'ending near the buffer border (the number of buffered bytes is read from the private _buffer_len/_buffer_pos when present - for aiming generated inputs only, never compared), '
        'plus two targeted patterns: read-leaving-0..3-bytes then read_until with a delimiter whose head is already consumed / that extends beyond the buffer, and read_until with a '
        'delimiter starting 1..3 bytes before the end of the buffered bytes and a size cap around it; a quarter of the sync cases additionally address parents of a live child and use invalid delimiters (model comparison only from there on). '
        'Grid part: every data string up to length 3 (quick: complete to length 2, a fifth of length 3) / 4 (thorough) x chunk sizes {1..len+1, 64} x 3-4 source patterns x every history up '
        'to length 2 (quick, and thorough for length-4 data) / 3 (thorough, data up to length 3) over a fixed op alphabet (sync 18 ops, async 17 ops) incl. delimit/pop; one in 40 grid cases '
        'also goes to the model. Nested cases of BOTH readers (delimit / operations on the child and grandchild incl. iteration / pop, then the parent again) are compared with the model '
        'line by line like root cases (sync: Rd.delimit over Rd.Delim sources; async: Ma.delimit over Ma.DelimGen sources, tags async_nested_modelled / async_nested_iter_modelled). '
        'SECOND-ORDER observation: the canonical observation of every operation is (value, exact type): `type(x) is bytes` is required of every return value of read/peek/read_until/readline/readall, every item '
        'of readlines() (and the list itself), every object handed to destination.write() by pipe/pipe_until (the destination keeps the objects instead of joining them) and every chunk of an async iteration, on root, '
        'child and grandchild readers; a bytearray / memoryview / bytes subclass with the right content (== is True) is a difference both for the oracle and - as a TYPE[...] suffix the model never emits - for the correspondence. '
        'non-trivial = some operation returned data; distinct = distinct (reader kind, construction, history)')
PARTIAL = ('Proved for the sync reader over any lawful source (= every chunking and short-read pattern): every history of public operations of one reader - read, peek, read_until and pipe_until '
           'with and without delimiter consumption (join and pipe_until branch), pipe, exhaust, readline, readlines - refines the flat cursor (public_history_refines_cursor). Proved for the async '
           'root reader over any list of source chunks (empty chunks anywhere): every history of read, readall, peek, read_until, pipe_until (with and without delimiter consumption), pipe, exhaust '
           'and iteration refines the same flat cursor, tell() is the cursor position, eof only at the end (async_reader_refines_flat_cursor, async_history_iter_refines_cursor; all fuel of the model '
           'shown sufficient). Proved for NESTED delimited readers of both readers at any depth (Rn.delimit_is_lawful_source, Rn.nested_history_refines_cursor, Rn.nested_depth_refines; '
           'An.delimited_source_lawful, An.async_nested_history_refines_cursor, An.async_nested_depth_refines, with An.toMa_asyncStep: the root model ARd is the source-generic transcription at the concrete source): '
           'a child is a flat cursor over the parent text up to the first delimiter, the parent is left exactly at child-cursor + bytes-held-by-the-child, never past the delimiter, at the delimiter when the child was drained. '
           'Not proved (carried by correspondence + oracle): operations addressed to a parent WHILE a child of it is alive (outside the statement; compared with the sync model only); that the drivers\' flat delimit/pop '
           'protocol is runProg/runAProg of the corresponding program (same primitives, by inspection); '
           'async root sources that are not finite chunk lists (a source raising an exception); size arguments < -1 of the sync reader.')
JOBS = {'quick': 4, 'thorough': 16}

ALPH = b'ab\r\n-'
DELIMS = [b'\n', b'-', b'\r\n', b'--', b'\r\n--', b'a-a', b'ab']
CHUNKS = [1, 2, 3, 4, 5, 6, 7, 8, 9, 64]
OP_TIMEOUT = 3.0        # CPU seconds one real call may burn before it counts as 'did not return'
WALL_TIMEOUT = 60.0     # wall-clock backstop for one real call (sync) / one case (async, asyncio.wait_for)
MAX_HANGS = 3          # a worker stops generating after that many calls that did not return (each costs OP_TIMEOUT)


# ====================================================================== the specification: a flat cursor

class Cur:
    """A flat cursor over one byte string `d` - the right-hand side of the property statement.

    `ps` is the set of positions the cursor may be at: a singleton, except for a parent whose delimited child was dropped
    before it was exhausted (then the child may have buffered ahead anywhere up to the delimiter)."""

    def __init__(self, d, chunk, asynch=False, start=None):
        self.d, self.chunk, self.asynch = bytes(d), chunk, asynch
        self.ps = {0} if start is None else set(start)

    def norm(self, p, n):
        m = len(self.d) - p
        if n is None or n == -1 or n > m:
            return m
        return max(n, 0) if self.asynch else n

    def until(self, p, dl, n, consume):
        n = self.norm(p, n)
        i = self.d.find(dl, p)
        end = i if i >= 0 else len(self.d)
        q = p + min(n, end - p)
        out = self.d[p:q]
        if consume:
            if self.d[q:q + len(dl)] != dl:
                return ('delim',), q          # the data before the missing delimiter is consumed, then DelimiterError
            q += len(dl)
        return ('ok', out), q

    def line(self, p, n):
        n = self.norm(p, n)
        i = self.d.find(b'\n', p)
        end = i + 1 if i >= 0 else len(self.d)
        q = p + min(n, end - p)
        return self.d[p:q], q

    def spec(self, p, op, obs):
        """All acceptable (outcome, new position) pairs of `op` at position p."""
        k = op[0]
        d = self.d
        if k == 'read':
            n = self.norm(p, op[1])
            return [(('ok', d[p:p + n]), p + n)]
        if k in ('readall', 'pipe'):
            return [(('ok', d[p:]), len(d))]
        if k == 'exhaust':
            return [(('unit',), len(d))]
        if k == 'peek':
            n = op[1]
            if n < 0 or n > self.chunk:
                n = self.chunk
            return [(('ok', d[p:p + n]), p)]
        if k == 'ru':
            return [self.until(p, op[1], op[2], op[3])]
        if k == 'pu':
            return [self.until(p, op[1], -1, op[2])]
        if k == 'rl':
            out, q = self.line(p, op[1])
            return [(('ok', out), q)]
        if k == 'rls':
            hint = op[1]
            res = []
            for stop_at_hint in ((True, False) if hint == 0 else (hint > 0,)):
                lines, q, tot = [], p, 0
                while True:
                    ln, q2 = self.line(q, -1)
                    if not ln:
                        break
                    lines.append(ln); q = q2; tot += len(ln)
                    if stop_at_hint and tot >= hint:
                        break
                res.append((('lines', tuple(lines)), q))
            return res
        if k == 'iter':
            # async-for abandoned after k chunks: chunk borders are free, the bytes are not
            if obs[0] != 'chunks':
                return [(('chunks', '<any chunking of the next bytes>'), p)]
            got = b''.join(obs[1])
            q = p + len(got)
            if d[p:q] == got and (len(obs[1]) == op[1] or q == len(d)):
                return [(obs, q)]
            return [(('chunks', 'a chunking of ' + d[p:].hex() + (' (complete: the iteration ended)' if len(obs[1]) < op[1] else '')), p)]
        raise AssertionError(op)

    def step(self, op, obs):
        """Advance by `op` given the implementation's outcome; returns None if some candidate position agrees, else the
        outcome the cursor gives.

        A cursor over a byte string returns `bytes` objects: an observation that carries a type tag (third component, put
        there by `_typed*` when some returned / written / yielded object is not exactly a `bytes` - note that
        `bytearray(b'ab') == b'ab'`, so `==` alone cannot see it) never agrees, whatever its content."""
        wrong_type = len(obs) == 3 and obs[0] in ('ok', 'lines', 'chunks')
        core = obs[:2] if wrong_type else obs
        new, exp = set(), None
        for p in sorted(self.ps):
            for out, q in self.spec(p, op, core):
                if exp is None:
                    exp = out
                if out == core:
                    new.add(q)
        if wrong_type or not new:
            return exp
        self.ps = new
        return None

    def exact(self):
        return len(self.ps) == 1

    def at_end(self):
        return self.ps == {len(self.d)}

    def sub(self, dl):
        """delimit(dl): the cursor over the text from here up to the next occurrence of dl (or the end)."""
        (p,) = self.ps
        i = self.d.find(dl, p)
        end = i if i >= 0 else len(self.d)
        return Cur(self.d[p:end], self.chunk, self.asynch), p

    def resume(self, p0, child):
        """the child is dropped: exhausted -> exactly at the delimiter; otherwise somewhere between what it returned and it"""
        if child.at_end():
            self.ps = {p0 + len(child.d)}
        else:
            self.ps = set(range(p0 + min(child.ps), p0 + len(child.d) + 1))


def _tname(x):
    t = type(x)
    return t.__name__ if t.__module__ == 'builtins' else t.__module__ + '.' + t.__qualname__


def _flat_bytes(x):
    try:
        return bytes(x) if not isinstance(x, (str, int)) and x is not None else repr(x).encode()
    except Exception:  # noqa
        return repr(x).encode()


_TYPE_CHECKED = [0]      # objects whose exact type was observed (flushed into the evidence counters)


def _typed(x, what='returned'):
    """canonical observation of ONE returned byte string: value + exact type (`type(x) is bytes`, not ==/isinstance)"""
    _TYPE_CHECKED[0] += 1
    if type(x) is bytes:
        return ('ok', x)
    return ('ok', _flat_bytes(x), f'{what} object is a {_tname(x)}, not a bytes')


def _typed_seq(kind, xs, what):
    """... of a sequence of byte strings (readlines items, the chunks of an iteration)"""
    xs = tuple(xs)
    _TYPE_CHECKED[0] += len(xs)
    if all(type(x) is bytes for x in xs):
        return (kind, xs)
    return (kind, tuple(_flat_bytes(x) for x in xs), f'{what} have the types [{", ".join(_tname(x) for x in xs)}], not all bytes')


def _typed_written(chunks):
    """... of what pipe()/pipe_until() wrote: the joined bytes + the exact type of every chunk handed to destination.write()"""
    _TYPE_CHECKED[0] += len(chunks)
    if all(type(x) is bytes for x in chunks):
        return ('ok', b''.join(chunks))
    return ('ok', b''.join(_flat_bytes(x) for x in chunks), f'chunks written to the destination have the types [{", ".join(_tname(x) for x in chunks)}], not all bytes')


def _show(o):
    if o is None:
        return 'None'
    tag = f' ({o[2]})' if len(o) == 3 and o[0] in ('ok', 'lines', 'chunks') else ''
    if o[0] == 'ok':
        return 'bytes ' + (o[1].hex() or "''") + tag
    if o[0] == 'lines':
        return 'lines [' + ' '.join(x.hex() for x in o[1]) + ']' + tag
    if o[0] == 'chunks':
        return 'chunks ' + (o[1] if isinstance(o[1], str) else '[' + ' '.join(x.hex() for x in o[1]) + ']') + tag
    return {'delim': 'DelimiterError', 'value': 'ValueError', 'unit': 'None', 'hang': 'no return within %.0f s of CPU time' % OP_TIMEOUT,
            'blocked': 'blocked awaiting'}.get(o[0], ' '.join(map(str, o)))


def _render(o):
    """outcome -> the drivers' reply format"""
    k = o[0]
    # the model's answers are always bytes: its replies carry no type tag, so a tagged observation is a mismatch
    tag = ' TYPE[' + o[2] + ']' if len(o) == 3 and k in ('ok', 'lines', 'chunks') else ''
    if k == 'ok':
        return 'ok ' + o[1].hex() + tag
    if k == 'lines':
        return 'lines' + ''.join(' ' + x.hex() for x in o[1]) + tag
    if k == 'chunks':
        return 'chunks' + ''.join(' ' + (x.hex() or '-') for x in o[1]) + tag
    return {'unit': 'unit', 'delim': 'err delim', 'value': 'err value', 'notallowed': 'err notallowed'}.get(k, k.upper())


def _hx(b):
    return bytes(b).hex() if b else '-'


def _opt(n):
    return 'none' if n is None else str(n)


def _line(op):
    k = op[0]
    if k == 'up':
        return f'up {op[1]} ' + _line(op[2])
    if k == 'read':
        return 'read ' + _opt(op[1])
    if k == 'peek':
        return f'peek {op[1]}'
    if k == 'ru':
        return f'ru {_hx(op[1])} {_opt(op[2])} {int(op[3])}'
    if k == 'pu':
        return f'pu {_hx(op[1])} {int(op[2])}'
    if k == 'rl':
        return 'rl ' + _opt(op[1])
    if k == 'rls':
        return f'rls {op[1]}'
    if k == 'delimit':
        return 'delimit ' + _hx(op[1])
    if k == 'iter':
        return f'iter {op[1]}'
    return k            # pipe, exhaust, readall, pop


def _jop(op):
    return [x for x in op] if op[0] != 'up' else ['up', op[1], _jop(op[2])]


def _words(maxlen):
    """all strings over ALPH of length 0..maxlen, shortest first"""
    out = [b'']
    layer = [b'']
    for _ in range(maxlen):
        layer = [w + bytes([c]) for w in layer for c in ALPH]
        out += layer
    return out


def _histories(alphabet, maxlen):
    layer = [()]
    for _ in range(maxlen):
        layer = [h + (a,) for h in layer for a in alphabet]
        yield from layer


def _pick_delim(rnd, cur, chunk, buffered=None):
    """A delimiter for read_until / pipe_until / delimit: one of the fixed ones, or - half of the time - a piece of the data cut
    out around the current position (starting just before it, so that its head is already consumed, at it, or near the next
    buffer border), which is what alignment bugs in the cross-chunk search depend on."""
    if cur is not None and cur.d and rnd.random() < 0.5:
        p = min(cur.ps)
        if buffered is not None and rnd.random() < 0.6:
            s0 = p + buffered - rnd.choice([0, 1, 1, 2, 2, 3, 4])      # starts shortly before the end of what is buffered
            if rnd.random() < 0.3:
                s0 = min(s0, p - 1)                                       # ... and before the cursor: its head is already consumed
        else:
            s0 = p + rnd.choice([-2, -1, -1, 0, 1, 2, 3, chunk - 2, chunk - 1, chunk, chunk + 1, 2 * chunk - 1, 2 * chunk])
        ln = rnd.randint(1, max(1, min(chunk, 5)))
        d = cur.d[max(s0, 0):max(s0, 0) + ln]
        if d:
            return d
    d = rnd.choice(DELIMS)
    return d[:chunk] if len(d) > chunk else d


def _straddle(rnd, cur, chunk, buffered, usizes):
    """Two operations aimed at the buffer border: a read that leaves 0..3 bytes in the buffer, then a read_until whose delimiter
    is cut out of the data so that it starts up to two bytes before the new position (head already consumed) or at/after it and
    extends beyond the end of the buffered bytes."""
    p = min(cur.ps)
    s_left = rnd.choice([0, 1, 1, 2, 2, 3])
    if buffered is None or buffered < s_left or chunk < 2:
        return None
    n = buffered - s_left
    q = p + n
    u = rnd.choice([0, 0, 1, 1, 2])
    ln = min(chunk, u + s_left + rnd.choice([1, 1, 2, 3]))
    d = cur.d[max(q - u, 0):max(q - u, 0) + ln]
    if not d:
        return None
    return [('read', n), ('ru', d, rnd.choice([-1, -1, None, 0, 1, 2, s_left, s_left + 1, 100] if rnd.random() < 0.7 else usizes), rnd.choice([0, 0, 1]))]


class _Sessions:
    """One correspondence fed in batches: the lines of a few thousand cases are piped to the driver and compared, then dropped
    (the big cases carry 8 KB hex lines and long `asked` lists; a thorough shard would otherwise hold hundreds of MB)."""

    def __init__(self, ctx, name, driver, every=2500):
        self.ctx, self.name, self.driver, self.every = ctx, name, driver, every
        self.cur = ctx.session(name, driver)

    def next(self):
        """the session for the next case"""
        if len(self.cur.case_start) >= self.every:
            self.cur.finish()
            self.cur = self.ctx.session(self.name, self.driver)
        return self.cur

    def finish(self):
        self.cur.finish()


def _buffered_hint(r, fallback):
    """How many bytes the reader has buffered ahead of its cursor - used ONLY to aim generated sizes and delimiters at the
    buffer border, never compared. Read from the private fields when they exist (exact, also for nested readers); otherwise
    the public estimate (delivered by the source - returned to the caller), or None."""
    bl, bp = getattr(r, '_buffer_len', None), getattr(r, '_buffer_pos', None)
    if isinstance(bl, int) and isinstance(bp, int) and 0 <= bp <= bl:
        return bl - bp
    return fallback


def _border_until(rnd, cur, chunk, buffered):
    """One read_until aimed at the end of the buffered bytes: the delimiter is cut out of the data so that it starts 1..3 bytes
    before that end (after the cursor) and extends beyond it, and the size cap lies around the delimiter start / the border."""
    p = min(cur.ps)
    t = rnd.choice([1, 1, 2, 2, 3])
    if buffered is None or buffered < t or chunk < 2:
        return None
    ln = min(chunk, t + rnd.choice([1, 1, 2, 3]))
    s0 = p + buffered - t
    d = cur.d[s0:s0 + ln]
    if len(d) < 2:
        return None
    n = max(0, buffered - t + rnd.choice([-2, -1, 0, 1, 1, 2, 2, 3, t, t + 1]))
    return ('ru', d, rnd.choice([n, n, n, -1, None]), rnd.choice([0, 0, 1]))


def _ncases(ctx, quick, thorough):
    """Random cases for this shard (x the runner's scale when it is searching for a failing input under a fresh seed)."""
    return ctx.n(quick, thorough)


# ====================================================================== sync reader

SYNC_GRID_OPS = [('read', 1), ('read', 2), ('read', None), ('peek', -1), ('peek', 1),
                 ('ru', b'\n', -1, 0), ('ru', b'\r\n', -1, 0), ('ru', b'-', 2, 0), ('ru', b'--', -1, 1), ('ru', b'\n', 1, 1),
                 ('pu', b'\r\n', 1), ('pu', b'-', 0), ('rl', -1), ('rl', 2), ('rls', -1),
                 ('delimit', b'\n'), ('delimit', b'--'), ('pop',)]


class _Src:
    """file-like `read(size)` with a short-read pattern; logs every size asked and notices a request beyond max_len"""

    def __init__(self, data, shorts, maxlen):
        self.data, self.shorts, self.maxlen = data, shorts, maxlen
        self.pos = self.si = 0
        self.asked = []
        self.over = None

    def read(self, size):
        self.asked.append(size)
        if size > self.maxlen - self.pos and self.over is None:
            self.over = f'source asked for {size} bytes after delivering {self.pos} of max_stream_len {self.maxlen}'
        n = cap = max(size, 0)
        if self.si < len(self.shorts):
            c = self.shorts[self.si]; self.si += 1
            if c:
                cap = min(c, n)
        out = self.data[self.pos:self.pos + cap]
        self.pos += len(out)
        return out


class _WSink:
    """destination of the sync pipe()/pipe_until(): keeps every written object as it is (an io.BytesIO would flatten the types)"""

    def __init__(self):
        self.chunks = []

    def write(self, d):
        self.chunks.append(d)
        return len(d)


class _Alarm:
    """`runner.alarm` for hot loops: the handlers are installed once per worker and every real call only (re)arms two timers -
    OP_TIMEOUT seconds of *CPU time* (ITIMER_VIRTUAL: a busy loop, which is how F21 shows, burns CPU; a machine loaded by other
    jobs does not) and WALL_TIMEOUT seconds of wall-clock time (ITIMER_REAL, backstop for a call that sleeps). Both raise
    `runner.Hang`; the timers repeat so that a Hang swallowed inside a C callback is followed by another one."""

    def __init__(self):
        import signal
        from runner import Hang
        self.Hang = Hang
        self.set = signal.setitimer
        self.V, self.R = signal.ITIMER_VIRTUAL, signal.ITIMER_REAL

        def handler(signum, frame):
            raise Hang()
        signal.signal(signal.SIGVTALRM, handler)
        signal.signal(signal.SIGALRM, handler)

    def arm(self):
        self.set(self.V, OP_TIMEOUT, 0.5)
        self.set(self.R, WALL_TIMEOUT, 5.0)

    def off(self):
        self.set(self.V, 0)
        self.set(self.R, 0)


class _SyncEnv:
    def __init__(self, BR, DelimiterError, with_model=True):
        import io
        self.BR, self.DE, self.io = BR, DelimiterError, io
        self.alarm = _Alarm()
        self.Hang = self.alarm.Hang
        self.hangs = 0
        self.with_model = with_model

    def call(self, r, op):
        k = op[0]
        try:
            try:
                self.alarm.arm()
                if k == 'read':
                    return _typed(r.read(op[1]))
                if k == 'peek':
                    return _typed(r.peek(op[1]))
                if k == 'ru':
                    return _typed(r.read_until(op[1], op[2], bool(op[3])))
                if k == 'pu':
                    dst = _WSink(); r.pipe_until(op[1], dst, bool(op[2])); return _typed_written(dst.chunks)
                if k == 'pipe':
                    dst = _WSink(); r.pipe(dst); return _typed_written(dst.chunks)
                if k == 'rl':
                    return _typed(r.readline(op[1]))
                if k == 'rls':
                    res = r.readlines(op[1])
                    if type(res) is not list:
                        return ('lines', tuple(_flat_bytes(x) for x in res), f'readlines() returned a {_tname(res)}, not a list')
                    return _typed_seq('lines', res, 'the items of readlines()')
                if k == 'exhaust':
                    r.exhaust(); return ('unit',)
                if k == 'delimit':
                    return ('reader', r.delimit(op[1]))
                raise AssertionError(op)
            finally:
                self.alarm.off()
        except self.Hang:
            self.hangs += 1
            return ('hang',)
        except self.DE:
            return ('delim',)
        except ValueError:
            return ('value',)
        except Exception as e:  # noqa
            return ('exc', type(e).__name__, str(e)[:80])


def _run_sync(env, plan, next_op, sess=None):
    """One sync case. plan = dict(data, chunk, maxlen, shorts); next_op(depth, exact, spec_on) -> op | None.
    Returns (failed | None, history, nontrivial, tags)."""
    data, chunk, maxlen, shorts = plan['data'], plan['chunk'], plan['maxlen'], plan['shorts']
    src = _Src(data, shorts, maxlen)
    root = env.BR(src.read, maxlen, chunk)
    stack = [(root, Cur(data[:max(maxlen, 0)], chunk), 0)]
    if sess is not None:
        sess.case({'reader': 'sync'})
        sess.op(f"new {chunk} {maxlen} {_hx(data)} {','.join(map(str, shorts)) or '-'}", 'ok')
    hist, failed, nontriv, spec_on, tags = [], None, False, True, set()
    while failed is None:
        exact = (not spec_on) or stack[-1][1].exact()
        buffered = None
        if spec_on:
            buffered = _buffered_hint(stack[-1][0], (min(src.pos, max(maxlen, 0)) - min(stack[0][1].ps)) if len(stack) == 1 else None)
        op = next_op(len(stack) - 1, exact, spec_on, stack[-1][1], buffered)
        if op is None:
            break
        k = op[0]
        if k == 'delimit':
            if len(stack) > 2 or not 1 <= len(op[1]) <= chunk or not exact:
                continue
            hist.append(_jop(op))
            r, cur, _ = stack[-1]
            obs = env.call(r, op)
            if obs[0] != 'reader':
                failed = f'delimit {_hx(op[1])} ' + ('did not return' if obs[0] == 'hang' else 'raised ' + str(obs[1:]))
                break
            child = obs[1]
            ccur, p0 = cur.sub(op[1]) if spec_on else (None, 0)
            stack.append((child, ccur, p0))
            tags.add('delimit' + str(len(stack) - 1))
            if sess is not None:
                sess.op(_line(op), 'ok')
            continue
        if k == 'pop':
            if len(stack) < 2:
                continue
            hist.append(['pop'])
            _, ccur, p0 = stack.pop()
            if spec_on:
                tags.add('pop_exhausted' if ccur.at_end() else 'pop_abandoned')
                stack[-1][1].resume(p0, ccur)
            if sess is not None:
                sess.op('pop', 'ok')
            continue
        up = 0
        if k == 'up':
            up, op = min(op[1], len(stack) - 1), op[2]
            if up == 0:
                continue
            spec_on = False       # a parent is used while its child is alive: outside the flat-cursor statement
            tags.add('parent_while_child_alive')
        if op[0] in ('ru', 'pu') and not 1 <= len(op[1]) <= chunk:
            if not env.with_model or plan.get('grid'):
                continue
            spec_on = False       # invalid delimiter: model comparison only
            tags.add('invalid_delimiter')
        r, cur, _ = stack[-1 - up]
        hist.append(_jop(op) if not up else ['up', up, _jop(op)])
        mark = len(src.asked)
        obs = env.call(r, op)
        if sess is not None:
            sess.op(_line(op) if not up else f'up {up} ' + _line(op), _render(obs) + f' asked={src.asked[mark:]}')
        if obs[0] in ('ok', 'lines') and obs[1]:
            nontriv = True
        if obs[0] == 'hang':
            failed = f'{_line(op)} did not return ({OP_TIMEOUT:.0f} s of CPU time)'
        elif obs[0] == 'exc':
            failed = f'{_line(op)} raised {obs[1]}: {obs[2]}'
        elif src.over:
            failed = src.over
        elif spec_on:
            exp = cur.step(op, obs)
            if exp is not None:
                failed = f'{_line(op)} on the level-{len(stack) - 1} reader returned {_show(obs)}; the flat cursor gives {_show(exp)}'
    return failed, hist, nontriv, tags


def _sync_plan(rnd, big):
    if big:
        L = rnd.choice([150, 300, 700, 1500, 4096])
        alph = rnd.choice([ALPH, b'aaaabbbb\r\n-', b'a' * 30 + b'b' * 30 + b'\r\n--'])
    else:
        L = rnd.choice([0, 1, 2, 3, 5, 8, 13, 21, 40])
        alph = rnd.choice([ALPH, ALPH, b'aaabbb\r\n-'])
    data = bytes(rnd.choice(alph) for _ in range(L))
    chunk = rnd.choice(CHUNKS)
    maxlen = rnd.choice([L, L, L, max(0, L - 2), L + 3, 0, max(0, L - 100) if big else L])
    mode = rnd.choice(['rand', 'rand', 'none', 'ones', 'twos'])
    if big and rnd.random() < 0.03:
        # chunk sizes around and above the module default (32 KiB): sizes the reader derives from ITS OWN chunk size (peek(), readline ...)
        L = rnd.choice([33000, 66000, 70000, 100000])
        unit = bytes(rnd.choice(b'ab\r\n-') for _ in range(97))
        data = (unit * (L // 97 + 1))[:L]
        chunk = rnd.choice([32767, 32768, 32769, 40000, 65536, 131072])
        maxlen = rnd.choice([L, L, L - 2, L + 3])
        mode = 'none'
    if mode == 'rand':
        shorts = [rnd.choice([0, 0, 1, 2, 3]) for _ in range(rnd.randint(0, 10))]
    elif mode == 'none':
        shorts = []
    else:
        shorts = [1 if mode == 'ones' else 2] * (L + 4)
    return {'data': data, 'chunk': chunk, 'maxlen': maxlen, 'shorts': shorts, 'src_mode': mode, 'big': big}


def _sync_chooser(rnd, plan, wild, nest=True):
    big = plan['big']
    sizes = [None, -1, 0, 1, 2, 3, 5, 9, 100] + ([64, 128, 1000, 5000] if big else [])
    usizes = [-1, -1, None, 0, 1, 2, 3, 4, 8, 16, 100] + ([64, 128, 640, 1000, 5000] if big else [])
    total = rnd.randint(1, 10) if rnd.random() < 0.8 else rnd.randint(11, 30)
    left = [total * 3]      # ops that turn out inapplicable are skipped; bound the draws

    def base(cur, buffered):
        k = rnd.choice(['read'] * 4 + ['peek'] * (2 if len(plan['data']) < 30000 else 12) + ['ru'] * 6 + ['pu'] * 2 + ['rl'] * 3 + ['rls', 'pipe', 'exhaust'])
        near = [max(0, buffered + e) for e in (-3, -2, -1, -1, 0, 1)] if buffered else None    # sizes that end near the buffer border
        if k == 'read':
            return ('read', rnd.choice(near if near and rnd.random() < 0.3 else sizes))
        if k == 'peek':
            return ('peek', rnd.choice([-1, 0, 1, 2, 3, 9, 70] if len(plan['data']) < 30000 else [-1, -1, -1, 40000, 70]))
        if k in ('ru', 'pu'):
            d = _pick_delim(rnd, cur, plan['chunk'], buffered)
            if wild and rnd.random() < 0.08:
                d = rnd.choice([b'', b'ab' * 40, b'\r\n--', b'a-a'])
            return ('ru', d, rnd.choice(near if near and rnd.random() < 0.2 else usizes), rnd.choice([0, 0, 1])) if k == 'ru' else ('pu', d, rnd.choice([0, 1]))
        if k == 'rl':
            return ('rl', rnd.choice([-1, -1, None, 0, 1, 3, 100]))
        if k == 'rls':
            return ('rls', rnd.choice([-1, -1, 0, 1, 3, 100]))
        return (k,)
    state = {'n': 0, 'drain': False, 'queue': []}

    def next_op(depth, exact, spec_on, cur=None, buffered=None):
        if state['n'] >= total or left[0] <= 0:
            return None
        left[0] -= 1
        if state['drain']:            # a child is being finished before it is dropped, as multipart does
            state['drain'] = False
            state['n'] += 1
            return ('pop',)
        x = rnd.random()
        if nest and depth < 2 and x < 0.2:
            state['n'] += 1
            return ('delimit', _pick_delim(rnd, cur if spec_on else None, plan['chunk']))
        if depth > 0 and x < 0.2 + 0.12 * depth:
            state['n'] += 1
            if rnd.random() < 0.6:
                state['drain'] = True
                return rnd.choice([('exhaust',), ('pipe',), ('read', None), ('read', -1)])
            return ('pop',)
        state['n'] += 1
        if state['queue']:
            return state['queue'].pop(0)
        if spec_on and cur is not None and buffered and rnd.random() < 0.08:
            two = _straddle(rnd, cur, plan['chunk'], buffered, usizes)
            if two:
                state['queue'].append(two[1])
                return two[0]
        if spec_on and cur is not None and buffered and rnd.random() < 0.06:
            one = _border_until(rnd, cur, plan['chunk'], buffered)
            if one:
                return one
        op = base(cur if spec_on else None, buffered)
        if wild and depth > 0 and rnd.random() < 0.3:
            return ('up', rnd.randint(1, depth), op)
        return op
    return next_op


SYNC_ORACLE = ('sync reader: every operation (read/peek/read_until/pipe_until/pipe/readline/readlines/exhaust, root and delimited '
               'sub-readers) returns what the flat cursor over data[:max_len] returns - the same bytes AND exactly a bytes object (type(x) is bytes: every return value, every item of readlines(), '
               'every chunk written by pipe/pipe_until); the source is never asked beyond max_len; every call returns')


def _sync(ctx, BR, DelimiterError):
    rnd = ctx.rng
    env = _SyncEnv(BR, DelimiterError)
    sess = _Sessions(ctx, 'sync BufferedReader (root + nested delimited readers) = Rd model', 'rddriver')

    def record(plan, failed, hist, nontriv, tags, kind, key=None):
        case = None
        if failed is not None:
            case = {'reader': 'sync', 'data': plan['data'], 'max_stream_len': plan['maxlen'], 'chunk_size': plan['chunk'],
                    'source_short_reads': plan['shorts'] if len(plan['shorts']) <= 40 else f"{len(plan['shorts'])} x {plan['shorts'][0]}",
                    'history': hist}
        ctx.oracle(SYNC_ORACLE, failed is None, failed, case)
        ctx.seen(key or ('s', plan['data'], plan['chunk'], plan['maxlen'], tuple(plan['shorts'][:12]), len(plan['shorts']), str(hist)), nontriv)
        ctx.count(f'sync_{kind}_cases')
        for t in tags:
            ctx.count('sync_' + t)

    # ---- random histories
    for _ in range(_ncases(ctx, 14000, 640000)):
        if env.hangs >= MAX_HANGS:
            ctx.notes.append(f'sync generation stopped after {env.hangs} calls that did not return'); break
        big = rnd.random() < 0.1
        plan = _sync_plan(rnd, big)
        wild = rnd.random() < 0.25
        failed, hist, nontriv, tags = _run_sync(env, plan, _sync_chooser(rnd, plan, wild), sess.next())
        record(plan, failed, hist, nontriv, tags, 'random')
        ctx.count('sync_len_' + ('big' if big else 'small'))
        ctx.count('sync_src_' + plan['src_mode'])
        ctx.count('sync_maxlen_' + ('exact' if plan['maxlen'] == len(plan['data']) else 'shorter' if plan['maxlen'] < len(plan['data']) else 'truncated_body'))
        ctx.count('sync_ops', len(hist))
    # ---- grid: every short data string x chunk size x source pattern x every short history
    if ctx.searching and not ctx.quick:
        words = []            # a search in the thorough tier would only repeat the same grid; in the quick tier it runs the length-3 data in full
    else:
        words = _words(3 if ctx.quick else 4)
    hists3 = list(_histories(SYNC_GRID_OPS, 2 if ctx.quick else 3))
    hists2 = [h for h in hists3 if len(h) <= 2]
    i, k = ctx.shard
    idx = 0
    for w in words:
        L = len(w)
        hists = hists3 if L <= 3 else hists2     # thorough: length-3 histories on all data up to length 3, length-2 on length 4
        # chunk sizes above len+1 all behave like "everything fits into one chunk": 1..len+1 and 64
        for chunk in list(range(1, L + 2)) + [64]:
            for (mode, shorts, maxlen) in (('none', [], L), ('ones', [1] * (L + 4), L), ('rand', [2, 0, 1], L + 2), ('none', [], max(0, L - 1))):
                if ctx.quick and mode == 'rand':
                    continue
                plan = {'data': w, 'chunk': chunk, 'maxlen': maxlen, 'shorts': shorts, 'grid': True}
                for h in hists:
                    idx += 1
                    if idx % k != i:
                        continue
                    j = idx // k
                    if len(h) > L + 1 and j % 7:
                        continue     # histories much longer than the data are mostly reads at EOF: keep a seventh
                    if ctx.quick and L == 3 and j % 5 and not ctx.searching:
                        continue     # quick tier: complete up to length 2, a fifth of length 3
                    if env.hangs >= MAX_HANGS:
                        break
                    it = iter(h)
                    failed, hist, nontriv, tags = _run_sync(env, plan, lambda *_a: next(it, None), sess.next() if j % 40 == 0 else None)
                    record(plan, failed, hist, nontriv, tags, 'grid', ('sg', idx))
    sess.finish()
    ctx.count('sync_objects_whose_exact_type_was_observed (return values, readlines items, written chunks)', _TYPE_CHECKED[0]); _TYPE_CHECKED[0] = 0


# ====================================================================== async reader

ASYNC_GRID_OPS = [('read', 1), ('read', 2), ('read', None), ('readall',), ('peek', -1), ('peek', 1),
                  ('ru', b'\n', -1, 0), ('ru', b'\r\n', -1, 0), ('ru', b'-', 2, 0), ('ru', b'--', -1, 1), ('ru', b'\n', 1, 1),
                  ('pu', b'\r\n', 1), ('pu', b'-', 0), ('iter', 1),
                  ('delimit', b'\n'), ('delimit', b'--'), ('pop',)]

ASYNC_ORACLE = ('async reader: every operation (read/readall/peek/read_until/pipe_until/pipe/exhaust/iteration, root and delimited sub-readers) '
                'returns what the flat cursor over the joined source returns - the same bytes AND exactly a bytes object (type(x) is bytes: every return value, every chunk written by pipe/pipe_until, '
                'every chunk of an iteration); tell() = cursor position; eof only at the end and always after the end was observed; every call returns')


class _Sink:
    def __init__(self):
        self.chunks = []

    async def write(self, d):
        self.chunks.append(d)


async def _acall(alarm, DE, r, op):
    """one real async call; CPU/wall timers armed around it (the enclosing case runs under asyncio.wait_for)"""
    k = op[0]
    try:
        try:
            alarm.arm()
            if k == 'read':
                return _typed(await r.read(op[1]))
            if k == 'readall':
                return _typed(await r.readall())
            if k == 'peek':
                return _typed(await r.peek(op[1]))
            if k == 'ru':
                return _typed(await r.read_until(op[1], op[2], bool(op[3])))
            if k == 'pu':
                dst = _Sink(); await r.pipe_until(op[1], dst, bool(op[2])); return _typed_written(dst.chunks)
            if k == 'pipe':
                dst = _Sink(); await r.pipe(dst); return _typed_written(dst.chunks)
            if k == 'exhaust':
                await r.exhaust(); return ('unit',)
            if k == 'iter':
                out = []
                async for ch in r:
                    out.append(ch)
                    if len(out) >= op[1]:
                        break
                return _typed_seq('chunks', out, 'the chunks of the iteration')
            raise AssertionError(op)
        finally:
            alarm.off()
    except alarm.Hang:
        return ('hang',)
    except DE:
        return ('delim',)
    except ValueError as e:
        if type(e).__name__ == 'OperationNotAllowed':        # falcon.errors.OperationNotAllowed is a ValueError
            return ('exc', 'OperationNotAllowed', str(e)[:80])
        return ('value',)
    except Exception as e:  # noqa
        if type(e).__name__ == 'CancelledError':
            raise
        return ('exc', type(e).__name__, str(e)[:80])


async def _run_async(env, plan, next_op, sess=None):
    """One async case, as a whole under asyncio.wait_for: a call that is still awaiting after WALL_TIMEOUT although its source is
    a finite generator is an outcome ("blocked"), like a sync call that does not return."""
    asyncio = env[0]
    st = {'hist': [], 'nontriv': False, 'tags': set(), 'op': None, 'oracle_only': False}
    try:
        failed = await asyncio.wait_for(_run_async_body(env, plan, next_op, sess, st), WALL_TIMEOUT)
    except asyncio.TimeoutError:
        failed = f"{_line(st['op']) if st['op'] else 'the case'} was still awaiting after {WALL_TIMEOUT:.0f} s although the source is finite"
    return failed, st['hist'], st['nontriv'], st['tags'], st['oracle_only']


async def _run_async_body(env, plan, next_op, sess, st):
    asyncio, alarm, BR, DE = env
    parts, chunk, sleepy = plan['parts'], plan['chunk'], plan.get('sleepy', False)
    data = b''.join(parts)

    delivered = [0]

    async def gen():
        for p in parts:
            if sleepy:
                await asyncio.sleep(0)
            delivered[0] += len(p)
            yield p
    root = BR(gen(), chunk)
    stack = [[root, Cur(data, chunk, asynch=True), 0, False]]
    modelled = sess is not None
    if modelled:
        sess.case({'reader': 'async'})
        sess.op(f'new {chunk} ' + ' '.join(_hx(p) for p in parts), 'ok')
    hist, failed, tags, spec_on = st['hist'], None, st['tags'], True
    while failed is None:
        buffered = None
        if spec_on:
            buffered = _buffered_hint(stack[-1][0], (delivered[0] - min(stack[0][1].ps)) if len(stack) == 1 else None)
        op = next_op(len(stack) - 1, stack[-1][1].exact(), stack[-1][3], stack[-1][1], buffered)
        if op is None:
            break
        k = op[0]
        if k == 'delimit':
            if len(stack) > 2 or not 1 <= len(op[1]) <= chunk or not stack[-1][1].exact() or not spec_on:
                continue
            hist.append(_jop(op))
            r, cur, _, _ = stack[-1]
            ccur, p0 = cur.sub(op[1])
            stack.append([r.delimit(op[1]), ccur, p0, False])
            tags.add('delimit' + str(len(stack) - 1))
            if modelled:              # nested readers are in the model (An/Ma: the child's source is the parent's _iter_delimited)
                sess.op(_line(op), 'ok')
                tags.add('nested_modelled')
            continue
        if k == 'pop':
            if len(stack) < 2:
                continue
            hist.append(['pop'])
            _, ccur, p0, _ = stack.pop()
            tags.add('pop_exhausted' if ccur.at_end() else 'pop_abandoned')
            stack[-1][1].resume(p0, ccur)
            if modelled:
                sess.op('pop', 'ok')
            continue
        refused = False
        if k == 'iter':
            # the _iteration_started guard (ARg.gStep): every reader object hands out an iterator once; a later __aiter__
            # raises OperationNotAllowed and must leave the reader where it was (the cursor does not move)
            refused = stack[-1][3]
            stack[-1][3] = True
            if modelled:
                tags.add(('iter_modelled' if len(stack) == 1 else 'nested_iter_modelled') if not refused else 'iter_refused_modelled')   # ARi.iterate / An.iterate: the chunks of the iteration are compared with the model
        if k in ('ru', 'pu') and not 1 <= len(op[1]) <= chunk:
            if not modelled or plan.get('grid'):
                continue
            spec_on = False           # invalid delimiter: model comparison only from here on
            tags.add('invalid_delimiter')
        r, cur = stack[-1][0], stack[-1][1]
        hist.append(_jop(op))
        st['op'] = op
        obs = await _acall(alarm, DE, r, op)
        try:
            tell, eof = r.tell(), r.eof
        except Exception as e:  # noqa
            failed = f'tell()/eof raised {type(e).__name__}'
            break
        if refused and obs[0] == 'exc' and obs[1] == 'OperationNotAllowed':
            obs = ('notallowed',)
        if modelled:
            sess.op(_line(op), _render(obs) + f" tell={tell} eof={'true' if eof else 'false'}")
        if refused and obs[0] in ('notallowed', 'chunks') and spec_on:
            # statement oracle: a refused operation is no operation of the cursor - nothing may be consumed by it. (Were the
            # iteration granted instead, it is judged below like any other iteration: the guard itself is the model's subject.)
            if obs[0] == 'notallowed':
                if tell not in cur.ps:
                    failed = f'after a refused second iteration: tell() = {tell}, the cursor is at {sorted(cur.ps)}'
                elif eof and tell != len(cur.d):
                    failed = f'eof is True at position {tell} of {len(cur.d)} after a refused second iteration'
                continue
        if obs[0] in ('ok', 'chunks') and obs[1]:
            st['nontriv'] = True
        if obs[0] == 'hang':
            failed = f'{_line(op)} did not return ({OP_TIMEOUT:.0f} s of CPU time)'
        elif obs[0] == 'exc':
            failed = f'{_line(op)} raised {obs[1]}: {obs[2]}'
        elif spec_on:
            exp = cur.step(op, obs)
            if exp is not None:
                failed = f'{_line(op) if k != "iter" else "iterate " + str(op[1])} on the level-{len(stack) - 1} reader returned {_show(obs)}; the flat cursor gives {_show(exp)}'
            elif tell not in cur.ps:
                failed = f'after {_line(op) if k != "iter" else "iterate"}: tell() = {tell}, the cursor is at {sorted(cur.ps)}'
            else:
                cur.ps = {tell}
                end = len(cur.d)
                if eof and tell != end:
                    failed = f'eof is True at position {tell} of {end}'
                elif not eof and tell == end:
                    # the end must be reported once an operation has run into it
                    saw_end = (k in ('readall', 'pipe', 'exhaust') or (k == 'read' and (op[1] is None or op[1] == -1))
                               or (k == 'read' and op[1] is not None and op[1] > 0 and len(obs[1]) < op[1])
                               or (k == 'iter' and len(obs[1]) < op[1]))
                    if saw_end:
                        failed = f'eof is False after {_line(op) if k != "iter" else "iterate"} ran into the end of the data (tell() = {tell})'
    st['oracle_only'] = sess is not None and not modelled
    return failed


def _async_plan(rnd, big):
    if big:
        L = rnd.choice([150, 300, 700, 1500, 4096])
        alph = rnd.choice([ALPH, b'aaaabbbb\r\n-', b'a' * 30 + b'b' * 30 + b'\r\n--'])
    else:
        L = rnd.choice([0, 1, 2, 3, 5, 8, 13, 21, 40])
        alph = rnd.choice([ALPH, ALPH, b'aaabbb\r\n-'])
    data = bytes(rnd.choice(alph) for _ in range(L))
    chunk = rnd.choice(CHUNKS)
    mode = rnd.choice(['rand', 'rand', 'rand', 'ones', 'whole'] + (['large'] if big else []))
    if big and rnd.random() < 0.03:
        L = rnd.choice([33000, 66000, 70000, 100000])
        unit = bytes(rnd.choice(b'ab\r\n-') for _ in range(97))
        data = (unit * (L // 97 + 1))[:L]
        chunk = rnd.choice([32767, 32768, 32769, 40000, 65536, 131072])
        mode = rnd.choice(['whole', 'large'])
    parts, i = [], 0
    if mode == 'whole':
        parts = [data]
    else:
        while i < L:
            kk = 1 if mode == 'ones' else rnd.choice([64, 100, 1000]) if mode == 'large' else rnd.choice([0, 1, 1, 2, 3, 5, 9])
            parts.append(data[i:i + kk]); i += kk
        if rnd.random() < 0.3:
            parts.insert(rnd.randint(0, len(parts)), b'')
    return {'parts': parts, 'chunk': chunk, 'src_mode': mode, 'big': big, 'sleepy': rnd.random() < 0.1, 'L': L}


def _async_chooser(rnd, plan):
    big = plan['big']
    sizes = [None, -1, 0, 1, 2, 3, 5, 9, 100, -2] + ([64, 128, 1000, 5000, 10000] if big else [])
    usizes = [-1, -1, None, 0, 1, 2, 3, 4, 8, 16, 100] + ([64, 640, 5000, 10000] if big else [])
    total = rnd.randint(1, 10) if rnd.random() < 0.8 else rnd.randint(11, 30)
    left = [total * 3]
    nest = rnd.random() < 0.4
    state = {'n': 0, 'drain': False, 'queue': []}

    def next_op(depth, exact, iterated, cur=None, buffered=None):
        if state['n'] >= total or left[0] <= 0:
            return None
        left[0] -= 1
        state['n'] += 1
        if state['drain']:
            state['drain'] = False
            return ('pop',)
        x = rnd.random()
        if nest and depth < 2 and x < 0.2:
            return ('delimit', _pick_delim(rnd, cur, plan['chunk']))
        if depth > 0 and x < 0.2 + 0.12 * depth:
            if rnd.random() < 0.6:
                state['drain'] = True
                return rnd.choice([('exhaust',), ('pipe',), ('read', None), ('readall',)])
            return ('pop',)
        k = rnd.choice(['read'] * 4 + ['peek'] * (2 if plan['L'] < 30000 else 12) + ['ru'] * 6 + ['pu'] * 2 + ['readall', 'pipe', 'exhaust'] + (['iter'] if nest else []))
        near = [max(0, buffered + e) for e in (-3, -2, -1, -1, 0, 1)] if buffered else None
        if state['queue']:
            return state['queue'].pop(0)
        if cur is not None and buffered and rnd.random() < 0.08:
            two = _straddle(rnd, cur, plan['chunk'], buffered, usizes)
            if two:
                state['queue'].append(two[1])
                return two[0]
        if cur is not None and buffered and rnd.random() < 0.06:
            one = _border_until(rnd, cur, plan['chunk'], buffered)
            if one:
                return one
        if k == 'read':
            return ('read', rnd.choice(near if near and rnd.random() < 0.3 else sizes))
        if k == 'peek':
            return ('peek', rnd.choice([-1, 0, 1, 2, 3, 9, 70] if plan['L'] < 30000 else [-1, -1, -1, 40000, 70]))
        if k in ('ru', 'pu'):
            d = _pick_delim(rnd, cur, plan['chunk'], buffered)
            if not nest and rnd.random() < 0.04:
                d = rnd.choice([b'', b'ab' * 40, b'\r\n--', b'a-a'])      # possibly invalid for this chunk size: model comparison
            return ('ru', d, rnd.choice(near if near and rnd.random() < 0.2 else usizes), rnd.choice([0, 0, 1])) if k == 'ru' else ('pu', d, rnd.choice([0, 1]))
        if k == 'iter':
            return ('iter', rnd.randint(1, 3))
        if iterated and nest and rnd.random() < 0.12:
            return ('iter', rnd.randint(1, 3))      # ask an already iterated reader object again (the guard)
        return (k,)
    return next_op


def _async(ctx, BR, DelimiterError):
    import asyncio
    rnd = ctx.rng
    env = (asyncio, _Alarm(), BR, DelimiterError)
    sess = _Sessions(ctx, 'async BufferedReader (root + nested delimited readers, incl. iteration) = ARd/ARi + An/Ma model', 'ardriver')
    stuck = [0]

    def record(plan, res, kind, key=None):
        failed, hist, nontriv, tags, _ = res
        case = None
        if failed is not None:
            case = {'reader': 'async', 'source_chunks': plan['parts'] if len(plan['parts']) <= 60 else [b''.join(plan['parts']), f"in {len(plan['parts'])} chunks ({plan.get('src_mode')})"],
                    'chunk_size': plan['chunk'], 'source_yields_to_loop': plan.get('sleepy', False), 'history': hist}
        ctx.oracle(ASYNC_ORACLE, failed is None, failed, case)
        ctx.seen(key or ('a', tuple(plan['parts'][:80]), len(plan['parts']), plan['chunk'], str(hist)), nontriv)
        ctx.count(f'async_{kind}_cases')
        for t in tags:
            ctx.count('async_' + t)
        if failed and ('did not return' in failed or 'still awaiting' in failed):
            stuck[0] += 1

    async def main():
        for _ in range(_ncases(ctx, 10000, 400000)):
            if stuck[0] >= MAX_HANGS:
                ctx.notes.append('async generation stopped: calls did not return'); break
            big = rnd.random() < 0.1
            plan = _async_plan(rnd, big)
            res = await _run_async(env, plan, _async_chooser(rnd, plan), sess.next())
            record(plan, res, 'random')
            await asyncio.sleep(0)        # let the loop finalize the abandoned async generators of this case (else they pile up)
            ctx.count('async_len_' + ('big' if big else 'small'))
            ctx.count('async_src_' + plan['src_mode'])
            ctx.count('async_ops', len(res[1]))
        if ctx.searching and not ctx.quick:
            words = []
        else:
            words = _words(3 if ctx.quick else 4)
        hists3 = list(_histories(ASYNC_GRID_OPS, 2 if ctx.quick else 3))
        hists2 = [h for h in hists3 if len(h) <= 2]
        i, k = ctx.shard
        idx = 0
        for w in words:
            L = len(w)
            hists = hists3 if L <= 3 else hists2
            splits = [('whole', [w]), ('ones', [w[j:j + 1] for j in range(L)]), ('empties', [b''] + [x for j in range(0, L, 2) for x in (w[j:j + 2], b'')])]
            for chunk in list(range(1, L + 2)) + [64]:
                for (mode, parts) in splits:
                    if ctx.quick and mode == 'empties':
                        continue
                    plan = {'parts': parts, 'chunk': chunk, 'src_mode': mode, 'grid': True}
                    for h in hists:
                        idx += 1
                        if idx % k != i:
                            continue
                        j = idx // k
                        if len(h) > L + 1 and j % 7:
                            continue
                        if ctx.quick and L == 3 and j % 5 and not ctx.searching:
                            continue
                        if stuck[0] >= MAX_HANGS:
                            break
                        it = iter(h)
                        res = await _run_async(env, plan, lambda *_a: next(it, None), sess.next() if j % 40 == 0 else None)
                        record(plan, res, 'grid', ('ag', idx))
                        await asyncio.sleep(0)
    asyncio.run(main())
    sess.finish()
    ctx.count('async_objects_whose_exact_type_was_observed (return values, written chunks, iteration chunks)', _TYPE_CHECKED[0]); _TYPE_CHECKED[0] = 0


# ====================================================================== the prebuilt cython twin (observation only)

def _cy_observe(seed, n, truncated):
    """Runs in a subprocess started with FALCON_CYUTIL=1: the prebuilt falcon.cyutil.reader.BufferedReader through the same
    oracle. Prints one JSON line per finished batch so that a hang (C loop, not interruptible) still leaves a result."""
    import json, random, sys
    from falcon.cyutil.reader import BufferedReader
    from falcon.errors import DelimiterError
    rnd = random.Random(seed)
    env = _SyncEnv(BufferedReader, DelimiterError, with_model=False)
    done = diff = 0
    first = None
    for _ in range(n):
        plan = _sync_plan(rnd, rnd.random() < 0.05)
        L = len(plan['data'])
        if not truncated:
            plan['maxlen'] = min(plan['maxlen'], L)       # batch 1: root reader only, body at least as long as declared
        elif rnd.random() < 0.5:
            plan['maxlen'] = L + rnd.choice([1, 3])       # batch 2: truncated bodies and nested readers (a delimited child is "truncated" whenever its window is shorter than its budget)
        print(json.dumps({'progress': done, 'diff': diff, 'first': first, 'current': {'data': plan['data'].hex(), 'chunk': plan['chunk'], 'maxlen': plan['maxlen']}}), flush=True)
        failed, hist, _, _ = _run_sync(env, plan, _sync_chooser(rnd, plan, False, nest=truncated), None)
        done += 1
        if failed:
            diff += 1
            if first is None:
                first = {'what': failed, 'data': plan['data'].hex(), 'chunk_size': plan['chunk'], 'max_stream_len': plan['maxlen'],
                         'shorts': plan['shorts'][:12], 'history': repr(hist)[:400]}
        if env.hangs >= 2:
            break
    print(json.dumps({'progress': done, 'diff': diff, 'first': first, 'finished': True}), flush=True)
    sys.stdout.flush()


def _cyutil_twin(ctx):
    """NON-gating: falcon/cyutil/reader.*.so is a stale prebuilt artefact (cannot be rebuilt here, predates fix b05da5a)."""
    import json, os, subprocess, sys
    here = os.path.dirname(os.path.dirname(os.path.abspath(__file__)))
    for truncated, n, tmo in ((False, 30000, 240), (True, 300, 8)):
        label = 'cyutil_twin[' + ('truncated bodies + nested readers' if truncated else 'root reader, complete bodies') + ']'
        code = (f'import sys; sys.path.insert(0, {here!r}); import srcload; import props.c14 as m; '
                f'm._cy_observe({ctx.seed + 14}, {n}, {truncated})')
        env = dict(os.environ, FALCON_CYUTIL='1')
        try:
            p = subprocess.run([sys.executable, '-B', '-c', code], env=env, capture_output=True, text=True, timeout=tmo)
            out, hung = p.stdout, False
            err = p.stderr[-300:] if p.returncode else ''
        except subprocess.TimeoutExpired as e:
            out = e.stdout.decode() if isinstance(e.stdout, bytes) else (e.stdout or '')
            hung, err = True, ''
        last = None
        for ln in out.strip().split('\n'):
            try:
                last = json.loads(ln)
            except ValueError:
                pass
        if last is None:
            ctx.notes.append(f'{label} OBSERVATION ONLY (not part of the verdict): twin not importable / did not start: {err.strip()[-200:]}')
            ctx.count('cyutil_twin_unavailable')
            continue
        ctx.count(label + ' cases run (observation only)', last['progress'])
        ctx.count(label + ' cases differing from the flat cursor (observation only)', last['diff'] + (1 if hung else 0))
        msg = f"{label} OBSERVATION ONLY (prebuilt .so, not the verified source, never part of the verdict): {last['progress']} cases, {last['diff']} differ from the flat cursor"
        if hung:
            msg += f"; then the process did not return from the compiled code on {str(last.get('current'))[:200]} and was killed after {tmo} s (the artefact predates fix b05da5a / F21)"
        if last.get('first'):
            msg += f"; first difference: {json.dumps(last['first'])[:500]}"
        ctx.notes.append(msg)


# ====================================================================== entry point

def run(ctx):
    from falcon.util.reader import BufferedReader as SyncReader
    from falcon.asgi.reader import BufferedReader as AsyncReader
    from falcon.errors import DelimiterError
    _sync(ctx, SyncReader, DelimiterError)
    _async(ctx, AsyncReader, DelimiterError)
    if not ctx.quick and ctx.shard[0] == 0 and not ctx.searching:
        _cyutil_twin(ctx)


LEVEL_TEXT = ('Machine-checked refinement proofs (Lean 4) for the synchronous BufferedReader, stated for an arbitrary lawful source so that "every chunking" is a universally quantified '
              'type-class argument: _perform_read returns exactly the requested declared bytes under every short-read pattern; _read (5 branches), peek and _read_until (6 loop exits, '
              'cross-chunk fragment test, backlog, look-ahead chunk) refine the flat cursor, so do the public read, read_until and pipe_until (with and without consuming the delimiter), pipe, exhaust, readline and readlines, and every history of these public operations (public_history_refines_cursor). '
              'For the asynchronous BufferedReader the same flat cursor is refined by every history of read / readall / peek / read_until / pipe_until / pipe / exhaust / iteration over every list of source chunks '
              '(empty chunks anywhere): invariant relating buffer, position, the suspended _iter_normalized and the remaining chunks to (data, flat position); one lemma per resumption of the wrapper generators '
              '(_iter_with_buffer, _iter_delimited with the cross-chunk fragment search), per _read_from loop and per public operation; induction over histories (async_reader_refines_flat_cursor, '
              'async_history_iter_refines_cursor); tell() = cursor position, eof only at the end. Nested delimited readers of both readers, at any depth: the read callback / chunk generator that delimit(d) hands to the '
              'child is a lawful source whose content is the parent text up to the first d (Rn.delimit_is_lawful_source, An.delimited_source_lawful), so the one-reader theorems instantiate at the child; the parent is left in a good state '
              'at exactly child-cursor + bytes-held-by-the-child, never past the delimiter (Rn.nested_history_refines_cursor, An.async_nested_history_refines_cursor), and by induction over programs with the source type generalised '
              'the same holds at every depth (Rn.nested_depth_refines, An.async_nested_depth_refines). The models '
              '(sync and async, root and nested delimited readers, incl. iteration) are tied to falcon/util/reader.py and falcon/asgi/reader.py on every run by a differential correspondence that '
              'compares return values, exceptions, the exact sizes requested from the source (sync) and tell()/eof (async); an independent flat-cursor oracle written from the statement '
              'decides failing inputs for both readers, including two levels of delimited sub-readers.')
LEVEL_NOTE = ('Trusted: Lean kernel + standard axioms, the correspondence harness, the Cur oracle, the delimit/pop bookkeeping of the two drivers. Partial: operations on a parent while its child is alive, '
              'raising async sources are not covered by theorems.')
TECHNIQUE = 'Lean 4 refinement proof (sync reader model over any lawful source, async reader model over any chunk list incl. nested delimited readers and the iteration guard -> one flat cursor) + differential correspondence model vs. real code + statement oracle (flat cursor with sub-cursors)'

"""C15 - response headers act as a case-insensitive map; cookies get separate lines; cookie attributes exact;
URI-bearing helpers emit ASCII that decodes back."""
import re
import sys
PROP = 'C15'
LEAN_MODULES = ['FalconModel.RespHeadersProofs', 'FalconModel.CookieOutProofs', 'FalconModel.RespPropsProofs']
DRIVERS = ['hddriver', 'cwdriver', 'rpdriver']
THEOREMS = [
    # round 0: operation-wise statements over an abstract normalisation `norm` (= str.lower) and `cookie` (= 'set-cookie')
    'Hd.get_after_set', 'Hd.get_after_set_other', 'Hd.get_after_delete', 'Hd.get_after_append', 'Hd.cookie_unreachable',
    'Hd.extra_untouched_by_set', 'Hd.extra_untouched_by_delete', 'Hd.extra_untouched_by_setHeaders', 'Hd.append_cookie_separate_line',
    # round 1: history-level statements and the emitted list
    'Hd.history_refines_ci_map', 'Hd.absMap_applyOp', 'Hd.wf_run', 'Hd.wf_applyOp',
    'Hd.emit_each_plain_header_once', 'Hd.one_line_per_cookie_and_per_raw_append', 'Hd.emitted_after_history',
    'Hd.jar_untouched_by_plain', 'Hd.plain_untouched_by_cookie', 'Hd.setCookie_fresh_last', 'Hd.unsetCookie_line',
    # strengthening round 4: the mapping `resp.headers` returns
    'Hd.headers_copy_after_history',
    # round 2: what a cookie line looks like (CookieOut.lean: set_cookie / unset_cookie / Morsel.OutputString / _quote / strftime / _getdate)
    'Cw.setCookie_spec', 'Cw.runSteps_spec', 'Cw.setCookie_accepts', 'Cw.setCookie_rejects', 'Cw.setCookieLine_ok_iff',
    'Cw.splitSS_joinSS', 'Cw.attrPieces_eq', 'Cw.morsel_keys_sublist', 'Cw.morsel_clean', 'Cw.parse_output', 'Cw.morselAttrs_final',
    'Cw.cookie_attrs_exact', 'Cw.line_attr',
    'Cw.attr_domain', 'Cw.attr_expires', 'Cw.attr_httponly', 'Cw.attr_maxage', 'Cw.attr_partitioned', 'Cw.attr_path', 'Cw.attr_samesite', 'Cw.attr_secure', 'Cw.attr_other',
    'Cw.attr_maxage_iff', 'Cw.attr_maxage_zero', 'Cw.attr_expires_iff', 'Cw.secure_defaults_from_option', 'Cw.secure_absent_otherwise', 'Cw.attr_samesite_iff', 'Cw.ssVal_mem',
    'Cw.invalid_same_site_rejected', 'Cw.invalid_same_site_value_error', 'Cw.nameOk_iff', 'Cw.nameOk_token', 'Cw.name_with_reserved_char_rejected',
    'Cw.isLegal_not_reserved', 'Cw.translate_eq', 'Cw.flatMap_translate', 'Cw.cookieValue_quote', 'Cw.semi_not_mem_quote', 'Cw.parse_pair', 'Cw.cookie_echo_reads_back',
    'Cw.unsetCookie_spec', 'Cw.unset_cookie_is_expired', 'Cw.unset_cookie_echo', 'Cw.jar_set_fresh', 'Cw.jar_lines_after_set',
    'Cw.monthDay_tbl', 'Cw.dby_digits', 'Cw.year_split', 'Cw.ord2ymd_spec', 'Cw.epoch_gmtime', 'Cw.gmtime_fourDigit', 'Cw.getdate_eq_imfDate', 'Cw.toUtc_instant',
    'Cw.natDec_4', 'Cw.imfDate_dateChars', 'Cw.parseDate_imfDate', 'Cw.weekdayOfOrd_succ', 'Cw.weekday_epoch',
    # the request-side facts the echo theorem composes with (C09 owns the model)
    'Ck.unquote_quote', 'Ck.cUnquote_quote',
    # round 3: the typed header properties and append_link (RespProps.lean: _header_property, response_helpers._format_*, secure_filename,
    # uri.encode_check_escaped / encode_value(_check_escaped) as proved for C10, Response.append_link)
    'Rp.location_ascii_and_decodes_back', 'Rp.encodeCheckStr_charset', 'Rp.decode_encodeCheckStr', 'Rp.encodeCheckStr_escaped', 'Rp.encodeCheckStr_not_escaped',
    'Rp.linkValue_eq', 'Rp.link_target_reads_back', 'Rp.link_params_read_back', 'Rp.link_anchor_reads_back', 'Rp.title_star_decodes_back',
    'Rp.rel_plain', 'Rp.rel_ext_single', 'Rp.rel_ext_members', 'Rp.crossP_spec', 'Rp.linkValue_none_iff', 'Rp.link_value_ascii',
    'Rp.appendLink_eq_appendHeader', 'Rp.link_header_after_append',
    'Rp.unquoteQS_escapeQS', 'Rp.ascii_filename_quoted_string_reads_back', 'Rp.filename_star_decodes_back', 'Rp.content_disposition_params',
    'Rp.content_disposition_ascii', 'Rp.dtype_ok', 'Rp.formatContentDisposition_isSome',
    'Rp.secureFilename_spec', 'Rp.secureCore_chars', 'Rp.secureCore_head', 'Rp.secureCore_length', 'Rp.secureCore_keeps', 'Rp.secureCore_idem',
    'Rp.etag_quoting_idempotent', 'Rp.formatEtag_spec', 'Rp.formatEtag_none_iff', 'Rp.header_value_list_join', 'Rp.split2_join', 'Rp.split1_join',
    'Rp.header_value_items_join', 'Rp.strMembers_map_str', 'Rp.strMembers_some', 'Rp.assign_items',
    'Rp.content_range_format_exact', 'Rp.content_range_reads_back', 'Rp.content_range_bytes_reads_back', 'Rp.digitsVal_natDec', 'Rp.natDec_digits',
    'Rp.property_set_get_roundtrip', 'Rp.property_transform_raises', 'Rp.property_none_deletes', 'Rp.property_del', 'Rp.propAssign_eq_applyOp',
    'Rp.property_get_header', 'Rp.assign_get', 'Rp.assign_none', 'Rp.key_ne_cookie',
    # the str-level encoder theorems these compose (C10 owns the model)
    'Us.decode_encodeStr', 'Us.decode_encode_uri_str', 'Us.decode_encode_value_str', 'Us.encodeStr_charset', 'Us.ascii_of_looksEscapedS',
]
STATEMENTS = {
    'Hd.get_after_set': 'after set_header(a, v), get_header(b) returns v for every spelling b that normalises like a',
    'Hd.get_after_set_other': 'set_header(a, v) leaves the value read for every name that normalises differently unchanged',
    'Hd.get_after_delete': 'after delete_header(a), get_header(b) returns None for every spelling b of the same name',
    'Hd.get_after_append': 'append_header on a plain header: the first append behaves like set, later ones join with ", "; read back in any spelling',
    'Hd.cookie_unreachable': 'for every spelling of Set-Cookie, get_header / set_header / delete_header raise (HeaderNotSupported)',
    'Hd.extra_untouched_by_setHeaders': 'set_headers never changes the raw Set-Cookie lines, also when it raises half-way on a Set-Cookie item (earlier items stay applied)',
    'Hd.append_cookie_separate_line': 'append_header(Set-Cookie spelling, v) adds exactly one separate raw line, in order, and touches no plain header',
    'Hd.history_refines_ci_map': 'for EVERY history of set / append / delete / bulk set / typed-property set+delete / set_cookie / unset_cookie operations and every spelling b: get_header(b) raises iff b spells Set-Cookie and otherwise returns what a map keyed by normalised names holds after the same history',
    'Hd.wf_run': 'after every history from a fresh response: dict keys pairwise distinct, no dict key is Set-Cookie, every raw extra line is a Set-Cookie line, the cookie jar holds each cookie name once',
    'Hd.emit_each_plain_header_once': 'in the list handed to the server the entries that are not Set-Cookie lines are exactly the dict items, and their (lower-cased) names are pairwise distinct',
    'Hd.one_line_per_cookie_and_per_raw_append': 'the Set-Cookie entries of the emitted list are the raw appended lines followed by one line per cookie of the jar; their number is #raw + #cookies',
    'Hd.emitted_after_history': 'both emission facts hold for the response reached by any history from the fresh response',
    'Hd.headers_copy_after_history': 'after EVERY history from a fresh response the mapping resp.headers returns has pairwise distinct normalised names, no Set-Cookie key, and for every spelling b of a plain header holds under b.lower() exactly what the case-insensitive map specification holds - which is what get_header(b) returns',
    'Rp.header_value_items_join': 'an iterable handed to cache_control / vary stores exactly what the list of the items it yields gives: the str members joined by ", "; the join raises (TypeError; nothing stored, by property_transform_raises) iff some member is not a str',
    'Rp.assign_items': 'resp.vary = <iterable> / resp.cache_control = <iterable> either writes that join under the property\'s header name or raises and leaves the store alone',
    'Hd.jar_untouched_by_plain': 'no plain-header call and no typed property changes the cookie jar',
    'Hd.setCookie_fresh_last': 'set_cookie drops whatever the jar held under that name and emits the new line last (fix ae30cad)',
    'Cw.setCookie_spec': 'set_cookie, completely: which of its checks raises (name not ASCII / contains a colon / value not ASCII / reserved or illegal key / date overflow / int(max_age) / same_site) in which order, what each failure leaves in the jar, and the morsel of a successful call as a function of the arguments and secure_cookies_by_default',
    'Cw.setCookieLine_ok_iff': 'set_cookie returns normally iff the name is accepted, the value is ASCII, expires converts to UTC, int(max_age) succeeds and same_site is empty or lax/strict/none in any case; the line is then OutputString of that morsel',
    'Cw.parse_output': 'Morsel.OutputString can be read back: splitting the line at "; " and each piece at its first "=" returns the key, the coded value and the attribute list (key and values free of ";")',
    'Cw.morsel_keys_sublist': 'the attribute names of any line are a sub-sequence of Domain, expires, HttpOnly, Max-Age, Partitioned, Path, SameSite, Secure in this order: none twice, no other',
    'Cw.cookie_attrs_exact': 'for every call set_cookie accepts (Domain/Path without ";"): the emitted line, split at "; " and "=", is the name, the _quote-coded value and exactly the requested attributes in sorted order - Domain/Path iff non-empty, expires iff given (IMF-fixdate of its UTC time), HttpOnly iff http_only, Max-Age iff max_age is not None with int() of it, Partitioned iff given, SameSite iff non-empty, Secure iff secure or (secure is None and the option)',
    'Cw.attr_other': 'no attribute other than those eight is ever written',
    'Cw.attr_maxage_iff': 'Max-Age is present iff max_age was given - also for 0 (fix c04363d)',
    'Cw.attr_maxage_zero': 'max_age=0 is written as Max-Age=0',
    'Cw.attr_expires_iff': 'expires is present iff it was given',
    'Cw.secure_defaults_from_option': 'Secure is written iff secure=True, or secure was left None and resp_options.secure_cookies_by_default is on',
    'Cw.secure_absent_otherwise': 'Secure is absent iff secure=False, or secure is None and the option is off',
    'Cw.attr_samesite_iff': 'SameSite is absent for None/empty and otherwise is exactly Lax, Strict or None according to the argument read case-insensitively',
    'Cw.invalid_same_site_rejected': 'any non-empty same_site that is not lax/strict/none (case-insensitively) makes set_cookie raise, whatever the other arguments; no line is returned',
    'Cw.invalid_same_site_value_error': 'if the rest of the call is acceptable the exception is the same_site ValueError, and the jar is left with the cookie lacking SameSite and Partitioned',
    'Cw.nameOk_iff': 'a name is accepted iff it is non-empty, consists of http.cookies legal characters other than ":" and is not (case-insensitively) a reserved attribute name',
    'Cw.name_with_reserved_char_rejected': 'a name that is empty, contains any character of the request parser\'s _COOKIE_NAME_RESERVED_CHARS (incl. ":"; fix 9cb24a9) or any non-ASCII character is rejected with one of the name errors (KeyError) - ValueError only if the value is non-ASCII too - and never stored',
    'Cw.cookieValue_quote': 'for every Latin-1 value the request side (DQUOTE removal + http.cookies._unquote) inverts http.cookies._quote, via Ck.unquote_quote',
    'Cw.cookie_echo_reads_back': 'for every call set_cookie accepts: the cookie-pair of the emitted line (text before the first "; "), sent back as a Cookie header, is parsed by _parse_cookie_header as exactly {name: [value]}; req.cookies = {name: value}, get_cookie_values(name) = [value]',
    'Cw.unset_cookie_is_expired': 'whatever an earlier set_cookie left under the name, the line of unset_cookie produced at time t (1970 < t < year 10000) has the empty value (""), no Max-Age, and an Expires that an IMF-fixdate reader understands as the instant t-1',
    'Cw.unset_cookie_echo': 'the cookie-pair of an unset cookie reads back as the name with the empty value',
    'Cw.jar_set_fresh': 'an accepted set_cookie replaces the jar entry of the name by the morsel of this call alone, placed last (fix ae30cad)',
    'Cw.ord2ymd_spec': '_ord2ymd inverts _ymd2ord on every day number >= 1 and returns month 1..12, day 1..31; years stay within 1..9999 / >= 1970 on the corresponding ranges',
    'Cw.epoch_gmtime': 'the civil time gmtime(t) denotes exactly t seconds after 1970-01-01T00:00:00Z',
    'Cw.toUtc_instant': 'astimezone(utc) of an aware expires keeps the instant: epoch(UTC fields) = epoch(local fields) - utcoffset',
    'Cw.parseDate_imfDate': 'an IMF-fixdate reader returns the civil fields the expires text was rendered from (four-digit years)',
    'Cw.getdate_eq_imfDate': 'before the year 10000 http.cookies._getdate writes the same text as strftime would for that moment',
    'Cw.weekdayOfOrd_succ': 'consecutive days have consecutive weekdays; with Cw.weekday_epoch (1970-01-01 is a Thursday) this fixes the weekday of every date',
    'Rp.location_ascii_and_decodes_back': 'for every str s of scalar values, resp.location = s / resp.content_location = s (uri.encode_check_escaped) stores only visible ASCII (0x21..0x7E, so no blank, no control character); if s does not pass the already-escaped heuristic, falcon.uri.decode(stored, unquote_plus=False) == s; if it does, it is stored unchanged; a string without "%" decodes back in either case',
    'Rp.encodeCheckStr_charset': 'every character a check-escaped encoder returns is an allowed character of its table, "%" or an upper-case hex digit',
    'Rp.decode_encodeCheckStr': 'a check-escaped encoder followed by uri.decode is the identity on every str that does not look escaped (for the value table with either unquote_plus setting)',
    'Rp.linkValue_eq': 'the text append_link builds is "<" + encode_check_escaped(target) + ">" followed by "; " + parameter for the parameters rel, title, title*, type, hreflang (one per tag; a lone empty piece for an empty list), anchor, crossorigin, link_extension in this order; ValueError exactly when crossorigin is rejected',
    'Rp.link_target_reads_back': 'for every append_link call that returns: the text between "<" and the first ">" of the link is the check-escaped encoding of the target - visible ASCII that percent-decodes to the target, or the target itself if it already looked escaped',
    'Rp.link_params_read_back': 'if no rendered parameter contains "; ", splitting what follows <target> at "; " returns exactly the parameters append_link wrote, in order',
    'Rp.link_anchor_reads_back': 'the anchor parameter is anchor="E" with no "; " inside; a quoted-string reader returns E, which is visible ASCII and percent-decodes to the anchor (or is the anchor if it already looked escaped)',
    'Rp.title_star_decodes_back': "the title* parameter is title*=UTF-8'lang'E; an RFC 8187 ext-value reader returns (UTF-8, lang, E) when lang has no quote; E consists of unreserved characters and %XX and percent-decodes (both unquote_plus settings) to the text unless that already looked escaped, in which case E is the text",
    'Rp.rel_ext_single': 'a rel containing "//" and no blank is emitted as one quoted check-escaped URI that reads back and decodes to rel',
    'Rp.rel_ext_members': 'a rel containing "//" and a blank is emitted as a quoted-string whose content, split at " ", is one check-escaped URI per whitespace-separated member of rel (str.split()), each visible ASCII decoding back to its member',
    'Rp.linkValue_none_iff': 'append_link raises ValueError iff crossorigin is given and, lower-cased, is neither "anonymous" nor "use-credentials"',
    'Rp.link_value_ascii': 'every character of a Link value is printable ASCII whatever the target, anchor, title* text and extension relation types are, provided the arguments falcon writes verbatim (plain rel, title, language tags, type hint, extension pairs) are printable ASCII',
    'Rp.appendLink_eq_appendHeader': 'the store update of append_link is append_header("Link", value) of the Hd model, so the Hd history theorems cover it',
    'Rp.link_header_after_append': 'after append_link the Link header is the new link alone or old + ", " + new; no other header, raw line or cookie changes',
    'Rp.unquoteQS_escapeQS': 'for EVERY str v an RFC 9110 quoted-string reader applied to DQUOTE + v.replace("\\","\\\\").replace(\'"\',\'\\"\') + DQUOTE returns v',
    'Rp.ascii_filename_quoted_string_reads_back': 'for every ASCII filename, downloadable_as / viewable_as store "<type>; filename=" + q where a quoted-string reader turns q back into the filename (fix 38a4696, finding F27); q adds only DQUOTE and backslash to the characters of the filename',
    'Rp.filename_star_decodes_back': "for every non-ASCII filename (scalar values) and ANY normalisation function in place of NFKD the value is <type>; filename=<token>; filename*=UTF-8''E: the token is made of letters, digits, '.', '-', '_' and does not start with a dot; E is unreserved characters and %XX, percent-decodes to the filename, and an RFC 8187 reader splits UTF-8''E into (UTF-8, no language, E)",
    'Rp.content_disposition_params': 'splitting that value at "; " returns exactly the type, filename=<token> and filename*=UTF-8\'\'E',
    'Rp.content_disposition_ascii': 'that value is visible ASCII plus the separating blanks',
    'Rp.formatContentDisposition_isSome': 'the ValueError of secure_filename (empty name) can never surface through downloadable_as / viewable_as: the empty string is ASCII',
    'Rp.secureFilename_spec': 'secure_filename raises exactly for the empty string; otherwise the result has the length of the normalised text, consists of letters, digits, ".", "-", "_" and does not start with "."',
    'Rp.secureCore_idem': 'sanitising an already sanitised name changes nothing',
    'Rp.etag_quoting_idempotent': 'whatever resp.etag = v stores ends with a double quote, and storing that again stores the same text',
    'Rp.formatEtag_spec': 'the etag transform wraps the value in double quotes unless its last character is a double quote; IndexError exactly for the empty string (formatEtag_none_iff)',
    'Rp.header_value_list_join': 'cache_control / vary store the members joined by ", "; when no member contains ", " splitting at ", " returns the members',
    'Rp.content_range_format_exact': 'content_range: a 3-tuple gives "bytes a-b/c", a 4-tuple "u a-b/c", five or more members the bytes form of the first three, fewer than three IndexError; members are rendered as str()',
    'Rp.content_range_reads_back': 'for non-negative first / last, any length and a unit without a blank a Content-Range reader (split at SP, "-", "/"; int()) returns exactly unit, first, last and the length text',
    'Rp.property_set_get_roundtrip': 'resp.<prop> = v with a transform that returns s: resp.<prop> then reads str s; every other header, the raw Set-Cookie lines and the cookie jar are unchanged',
    'Rp.property_transform_raises': 'if the transform raises, nothing is stored',
    'Rp.property_none_deletes': 'resp.<prop> = None never raises, removes that header and changes nothing else',
    'Rp.property_del': 'del resp.<prop> raises KeyError exactly when the header is absent and otherwise removes it and nothing else',
    'Rp.propAssign_eq_applyOp': 'the descriptors are the propSet / propDel operations of the Hd history theorems (no property is named Set-Cookie: key_ne_cookie)',
    'Rp.property_get_header': 'a property that was set is returned by get_header in every spelling of its header name',
}
TRUSTED = [
    'http.cookies (SimpleCookie.__setitem__, Morsel.set / OutputString, _quote, _getdate), datetime.strftime(%a, %d %b %Y %H:%M:%S GMT) on glibc, datetime.astimezone(utc) and time.gmtime are TRANSCRIBED in CookieOut.lean; '
    'their agreement with CPython 3.12 is established by the exact-line correspondence only. email.utils / urllib.parse serve as reference formatters/decoders in the oracle',
    'str.lower on ASCII header names = the abstract `norm` of the Hd theorems; in the Hd model the cookie jar is a dict name -> rendered line (Cw produces that line); '
    'same_site.lower()/capitalize() are modelled on ASCII (no non-ASCII character lower-cases to a letter of lax/strict/none); int(str) as in C09 (Hp.pyInt, Latin-1)',
    "Rp: unicodedata.normalize('NFKD', .) inside secure_filename is NOT modelled - it is a parameter of the model (every Rp theorem holds for any function in its place) and the driver is handed the "
    "normalised text computed by CPython; crossorigin.lower() is ASCII lower-casing (no non-ASCII character lower-cases into the alphabet of 'anonymous' / 'use-credentials' - checked over all code points on every run); "
    "str.split() whitespace and the characters secure_filename keeps are tables compared with CPython / falcon on every run (rpdriver `tables`); str(int) = decimal digits; "
    'header values are str in the model and String (same code points) in the Hd store; dt_to_http (expires, last_modified) is not in Rp (Cw.imfDate models the same strftime format for cookies)',
]
ASSUMPTIONS = [
    'header names are ASCII tokens in arbitrary letter case; values are str over printable ASCII / latin-1 (raw Set-Cookie values printable ASCII, no CR / LF); list-valued properties (cache_control, vary) get ANY iterable '
    '(an iterable that yields a non-str member must behave like the list of its members: TypeError, nothing stored; a single str is an iterable of its characters - the documentation asks for a one-element list or tuple for a single value), etag is non-empty',
    'set_headers gets a mapping with items() or an iterable of two-member iterables with str names; an item of another shape (wrong arity, a non-iterable) is outside the statement (falcon lets the unpacking error through: ValueError or TypeError)',
    'a returned object is judged as a snapshot by ==: resp.headers is a new dict on every read (documented); the emitted lists are new lists holding immutable tuples. Identity of the str values is not judged (str is immutable)',
    'a value handed to location / content_location / append_link (target, anchor, title_star text) that already is a well-formed percent-encoded ASCII URI (only URI characters and valid %XX escapes) is passed through unchanged, as documented for encode_check_escaped; the round-trip oracle then requires emitted == original instead of decode(emitted) == original',
    'download filenames contain no control characters; Link titles are ASCII without double quote / backslash (non-ASCII titles go through title_star, as documented)',
    'cookie names are RFC 6265 tokens that are not attribute names reserved by http.cookies; every other name (incl. one containing a colon, fix 9cb24a9) must be rejected with KeyError',
    'a set_cookie call that raises (invalid same_site) may or may not leave its cookie behind; only cookies of successful calls are judged',
    'order of Set-Cookie lines: judged per cookie NAME (the user agent of the oracle ignores Domain / Path scoping) when the last call on the name is set_cookie / unset_cookie, or when the name only occurs in raw lines; '
    'a raw line appended AFTER a cookie-API call on the same name is not judged (falcon documents that API lines are emitted after the raw ones; the statement does not say who wins), except that WSGI and ASGI must agree',
    'unset_cookie is judged on: empty value, Expires in the past, no Max-Age, and the domain / path / samesite it was given; attributes inherited from an earlier set_cookie of the same name (Secure, HttpOnly, ...) are pinned upstream behaviour and not judged',
    'Cw theorems that read a line back assume Domain / Path (and the samesite given to unset_cookie) contain no ";" (RFC 6265 av-octets); the model itself and the correspondence cover such values too (they are emitted raw). '
    'max_age is an int (any magnitude below the 4300-digit conversion limit; bool included), a float or a str, read as documented ("max_age (int) ... Coercion to int is attempted if provided with float or str"): an int is itself, '
    'a finite float is truncated towards zero, an ASCII decimal integer literal (sign, blanks, single underscores) is that integer - the attribute is Max-Age=<exactly that integer>, computed by the oracle with integer / rational arithmetic only; '
    'an ASCII str that is no integer literal (exponent, fraction, hex, inf, nan, empty) must be refused with ValueError and a non-finite float with ValueError / OverflowError, as int() does (non-finite floats: oracle only, the Cw model takes finite floats); '
    'non-ASCII strings (Unicode digits / blanks) are judged by the model correspondence only; expires is a datetime whose tzinfo (if any) yields a whole-second utcoffset; the clock is after 1970. '
    'An expires before the year 1000 is rendered by glibc strftime without zero padding ("01 Jan 999"): transcribed as such in the model, outside the oracle\'s domain (years 1971-2090)',
]
RULE = ('histories of 1..12 operations (set / append / delete / get / set_headers as list and dict incl. Set-Cookie items at any position / 16 typed properties '
        'set, set-to-None and del / append_link / set_cookie / unset_cookie / raw append_header(Set-Cookie)) over ~25 header names in random per-letter casing and values over '
        'printable ASCII + latin-1, on falcon.Response and falcon.asgi.Response; after every operation the touched header is read back in three casings; finally both '
        '_wsgi_headers() and _asgi_headers() are emitted. Cookie cases: random attribute combinations (expires naive/aware, max-age int/float/str/0, domain, path, secure '
        '[max_age VALUES, in the histories, the full-app cookie cases and the Cw lines alike: 40% ordinary lifetimes; 38% ints at and around (-2..+3) 2**31, 2**32, 2**53, 2**63, 2**64, sys.maxsize, 10**17, 10**30 and random odd 54..200-bit ints, '
        '15% of them negative, given as int, as a decimal str (sign, leading zeros, blanks / tab / newline around, underscores) or as the float of it; bools, -0, small negative / fractional floats, 1e20, 1.7e308, 5e-324, 2**53 + 0.5; and, in the '
        'full-app cookie cases and the Cw lines, values denoting no integer (\'1e3\', \'15.3\', \'0x10\', \'inf\', \'nan\', \'\', \'1__0\' ..., float inf / nan in the full-app cases) which must be refused; the oracle requires Max-Age=<exactly the requested integer>] '
        'tri-state x secure_cookies_by_default, http_only, same_site in any case incl. invalid, partitioned) through full WSGI and ASGI apps, echoed back through the request API. '
        'Cookie lines: 1..5 set_cookie / unset_cookie calls on one falcon.Response or falcon.asgi.Response (22 names incl. reserved, non-ASCII, colon, empty; values incl. non-ASCII; the attribute '
        'combinations above plus datetimes over years 1..9999 with second-granular offsets, overflow at both ends, leap days, max_age strings with sign / blanks / underscores / garbage, negative and huge '
        'floats, non-ASCII same_site, Domain/Path containing "; "), after every call the exact Set-Cookie values of _wsgi_headers() / _asgi_headers() (taken within one clock second) and every exception '
        'kind are compared with the Cw model; each set_cookie is repeated on a fresh response against the stateless setCookieLine. '
        'COOKIE VALUE CONTENT: a quarter of the cookie values (full-app cases and Cw lines) are built from a grammar of "escape look-alikes" - 1..4 atoms, some repeated, at the start / inside / at the end of the value, '
        'mixed with the ordinary alphabet: backslash + octal triple [0-3][0-7][0-7] (incl. the triples of the characters the writer itself escapes: 073 054 040 042 134 011 177 000 377), backslash + triple out of range '
        '(first digit 4..7, digits 8/9, \\400 \\777 \\378), backslash backslash + triple, 1-2 / 4 digits, backslash + quote, quote + triple, backslash + a character written as an octal escape, runs of 3..5 backslashes, and the same shapes in '
        'other notations (%5C101, \\x41, \\u0041, \\n) as controls; judged by the echo through the request API and by an independent one-pass reader of the emitted line (cookie value content oracle). In the Cw session the cookie-pair of every '
        'stateless line, all pairs of a response in one Cookie header, and foreign quoted strings (bare backslash escapes not produced by the writer, unterminated quotes) go through the real _parse_cookie_header and Ck.parseCookieHeader (cUnquote) of the driver (op `echo`). '
        'RELATION TYPES: 35% of the append_link calls take rel from a grammar of 1..3 SP-separated relation types mixing registered names with extension relation types given as absolute URIs (http / https / other schemes, upper case) or as '
        'network-path references //host/path (RFC 3986 4.2), hosts and paths with non-ASCII and reserved characters; the Rp model is fed the same values. '
        'Set-Cookie ORDER: in the histories and in the full-app cookie cases half of the raw append_header(Set-Cookie) lines carry a cookie name that set_cookie / unset_cookie are also called with '
        '(value / Path / quoted value / Max-Age variants; raw before or after the API call, several raw lines per name); the Set-Cookie lines are read in the order handed to start_response / ASGI send by a '
        'minimal RFC 6265 user agent, and for ASGI response objects the WSGI emission of the same object is compared line by line. '
        'URI cases: unicode / control-character targets, anchors, title* texts, extension relation types (blank, tab, NBSP, EM SPACE separated) and filenames (incl. leading dots, compatibility characters) through location, '
        'content_location, append_link (1..3 calls; all keyword arguments incl. empty lists, rejected crossorigin values), downloadable_as, viewable_as, plus etag / cache_control / vary / content_range / content_length / content_type / '
        'retry_after / accept_ranges with assignment of None and del; the exact emitted value (from _wsgi_headers() / _asgi_headers()) and every exception are compared with the Rp model, secure_filename and _is_ascii_encodable directly. '
        'SECOND-ORDER READS: the histories have a `snapshot` operation - resp.headers, _wsgi_headers() or _asgi_headers() is read, its type is checked (dict of str -> str with lower-case names and no Set-Cookie; '
        'list of (str, str) / (bytes, bytes) tuples; get_header and the typed properties return str), two reads of resp.headers must be distinct objects, and in 65% of the reads the owner edits the object it was handed '
        '(1..3 of set-new / overwrite / del / pop / popitem / clear / update / setdefault on the dict - names lower-case and not, present and absent, Set-Cookie spellings; append / pop / clear / item assignment / '
        'reverse / extend / insert / del on the lists); the history continues, the model never sees the edit, and after EVERY later operation each object returned earlier must still hold what its owner left in it; the '
        'model driver answers a `headers` line (the mapping in dict order) for every such read. '
        'ARGUMENT OBJECTS: every setter that takes an iterable gets it as one of 18 kinds of object - list, tuple, set, frozenset, dict, dict keys / values views, generator, map, filter, reversed, iter, zip-derived generator, '
        'itertools.chain, deque, a one-shot iterator object, a re-iterable without __len__, a __getitem__-only sequence - (cache_control / vary in the histories, the Rp cases and the full apps; 0..4 members incl. empty ones and, '
        'in the Rp cases, members that are not str: int / None / bytes / float -> TypeError like a list, an earlier value stays); set_headers gets 16 kinds (list, tuple, dict, OrderedDict, mappingproxy, dict items view, generator, iter, map, zip, '
        'an object with only items() returning a list or a generator, pairs as lists / as iterators, deque, re-iterable); hreflang / link_extension of append_link as generators, iterators, views ...; content_range as a list; in 70% of the calls '
        'with a mutable argument the caller edits its object afterwards (append / clear / reverse / overwrite) and the header must not change. '
        'RAW COOKIES: 60% of the raw append_header(Set-Cookie) values come from a grammar of relayed upstream cookies - name=value; attributes with values of the classes token, k=v,k=v lists (a comma followed by name=, with and without blanks), '
        'JSON, quoted strings holding `=` `;` `,`, number lists, base64 padding, dates, two cookies folded into one value, blanks, runs of `=`; attributes Path / Domain (also with commas), Expires in the RFC 1123, RFC 850 and asctime forms, Max-Age, flags, '
        'extension attributes, in any case, separated by `; ` `;` ` ; `; plus 20 whole-line corner texts (empty, `=`, `,a=b`, leading / trailing blank ...): one line per append, identical text, append order, on both stacks, on bare responses and through '
        'full WSGI / ASGI apps; the same texts are given to set_header / delete_header / get_header / set_headers under a Set-Cookie spelling (must raise) and to plain headers (left alone). '
        'FULL-APP OBJECTS: scripts of 1..7 operations (set / append / delete / raw cookie / set_cookie / vary and cache_control from any kind of iterable / set_headers from any kind of argument / a read of resp.headers that is kept and edited) are '
        'played by a responder on a WSGI and an ASGI app behind a middleware whose process_response reads resp.headers 0..2 times and edits what it got; the header list received by start_response / ASGI send is compared with the map of the '
        'responder\'s own operations. '
        'non-trivial = at least one mutation succeeded; distinct = distinct operation list')
PARTIAL = ('Aliasing (object identity) has no counterpart in the pure Lean model: that a returned mapping / list is a snapshot and that an argument object is not kept is established by the harness on the real objects '
           '(the model side of it: an edit of a returned object is no operation of the history; a one-shot iterable is the list of its items - Hd.headers_copy_after_history, Rp.header_value_items_join). '
           'modelled and proved: the three header stores (Hd), the text of every cookie line (Cw: set_cookie / unset_cookie / Morsel.OutputString / _quote / strftime / astimezone / _getdate, '
           'attributes exact, Secure default, rejections, echo through the request parser Ck, expiry of unset cookies) and the typed header properties + append_link (Rp: _header_property, _format_range, '
           '_format_content_disposition + secure_filename, _format_etag_header, _format_header_value_list, _is_ascii_encodable, encode_check_escaped for Location / Content-Location, the complete Link value; '
           'ASCII + decode-back theorems composed from the C10 str-level encoder proofs). Not native in Lean: NFKD normalisation inside secure_filename (a parameter of the model; only the fallback filename= token depends on it, '
           'the filename* round trip does not); dt_to_http of expires / last_modified (reference formatter in the oracle); lone surrogates (UnicodeEncodeError) are outside the Rp theorems (ValidStr). '
           'The parameter read-back of a Link (link_params_read_back) assumes no rendered parameter contains "; " (true by proof for anchor and title* with a blank-free language tag; titles / extension relation types may contain it inside quotes); '
           'a Link TITLE is written verbatim by falcon (no escaping) - documented, not part of the property. '
           'The Hd jar theorems take a cookie line as given and Cw produces it; the two are joined by the correspondences (real lines are fed to hddriver), not by a Lean theorem. '
           'The read-back theorems assume Domain/Path without ";"; echo is proved for one cookie-pair per header (several pairs: Ck.parseCookieHeader_render covers RFC cookie-octet values only).')
JOBS = {'quick': 4, 'thorough': 16}

LEVEL_TEXT = ('Machine-checked proofs (Lean 4) about a transcription of the three header stores of falcon.Response (_headers dict, _extra_headers list, cookie jar): '
              'for every history of operations a read in any spelling returns what a map keyed by normalised names holds (history_refines_ci_map), Set-Cookie is out of reach '
              'of the plain calls, and the emitted list contains each plain header exactly once plus one separate Set-Cookie line per raw append and per cookie '
              '(wf_run, emit_each_plain_header_once, one_line_per_cookie_and_per_raw_append). A second model (Cw) transcribes set_cookie / unset_cookie and http.cookies rendering down to the characters '
              'of the Set-Cookie value: setCookie_spec characterises every check and the resulting morsel; cookie_attrs_exact shows the emitted line reads back as exactly the requested attributes '
              '(Max-Age iff given incl. 0, Secure from the option, SameSite capitalised, ...); cookie_echo_reads_back composes with the request-side parser model of C09 (Ck.unquote_quote); '
              'unset_cookie_is_expired uses a proved calendar (ord2ymd_spec, epoch_gmtime) to show the Expires text denotes t-1. The models are tied to falcon/response.py and falcon/asgi/response.py on every run by a '
              'differential correspondence over random histories (every read, every HeaderNotSupported, the exact emitted list on both stacks; for cookies the exact text of every line and every exception kind); an independent oracle written from '
              'the statement additionally judges cookie attributes, cookie echo through the request API, expiry of unset cookies and the ASCII/decode-back claims of the URI-bearing helpers. '
              'A third model (Rp) transcribes the typed header properties (_header_property and the response_helpers transforms, secure_filename) and the value append_link builds, on top of the C10 str-level URI encoders: '
              'location_ascii_and_decodes_back, link_target_reads_back, link_anchor_reads_back, rel_ext_members, title_star_decodes_back and filename_star_decodes_back prove for every str of scalar values that what is emitted is '
              'visible ASCII that percent-decodes to the original (or is the original when it already looked escaped); ascii_filename_quoted_string_reads_back proves the quoted-string repair for every str; '
              'etag / list / Content-Range formatting and the set / None / del behaviour of the descriptors on the Hd store are proved as well. Rp is tied to the real classes by comparing the exact emitted value of every such property and of every Link header. '
              'The objects that cross the API are part of the histories: what resp.headers returns is characterised for every history (headers_copy_after_history) and read by the model driver; returned mappings / lists are kept and edited by their '
              'owner while the history goes on (snapshot oracle), setters receive every kind of iterable incl. one-shot ones (header_value_items_join: an iterable is the list of its items; TypeError for a non-str member), and raw relayed cookies of every '
              'character class must come out as one identical line per append.')
LEVEL_NOTE = ('Trusted: Lean kernel + standard axioms; correspondence harness and oracle; that CookieOut.lean transcribes http.cookies / strftime / gmtime faithfully (checked by the exact-line correspondence); '
              'str.lower = norm on ASCII names; NFKD normalisation is an input of the Rp model (CPython computes it), ASCII lower-casing for crossorigin, the CPython whitespace table for rel.split().')
TECHNIQUE = ('Lean 4 refinement proof (three header stores -> case-insensitive map + emitted list) + Lean 4 render/parse round-trip proofs for cookie lines, URI-bearing header values and quoted filenames '
             '+ differential correspondence vs. real Response classes + statement oracle')

_UNRES = 'ABCDEFGHIJKLMNOPQRSTUVWXYZabcdefghijklmnopqrstuvwxyz0123456789-._~'
_URI_OK = _UNRES + ":/?#[]@!$&'()*+,;="
_HEX = '0123456789abcdefABCDEF'


def run(ctx):
    _histories(ctx)
    _app_objects(ctx)
    _cookies(ctx)
    _cookie_lines(ctx)
    _uris(ctx)


# ------------------------------------------------------------------ reference formatters (written from the RFCs, not from falcon)

def looks_escaped(s, ok=None):
    """True iff s consists only of URI characters (`ok`) and well-formed %XX escapes and has at least one escape."""
    ok = _URI_OK if ok is None else ok
    if '%' not in s or not s.isascii():
        return False
    i = 0
    while i < len(s):
        ch = s[i]
        if ch == '%':
            if len(s) - i < 3 or s[i + 1] not in _HEX or s[i + 2] not in _HEX:
                return False
            i += 3
            continue
        if ch not in ok:
            return False
        i += 1
    return True


def ref_uri(s):
    if all(ch in _URI_OK for ch in s):
        return s
    if looks_escaped(s):
        return s
    return ''.join(ch if ch in _URI_OK else ''.join('%%%02X' % b for b in ch.encode('utf-8')) for ch in s)


def qs_escape(v):
    """content of an RFC 9110 quoted-string"""
    return v.replace('\\', '\\\\').replace('"', '\\"')


def imf(dt):
    """IMF-fixdate of a datetime: naive is taken as UTC, aware is converted to UTC."""
    import email.utils
    from datetime import timezone
    dt = dt.replace(tzinfo=timezone.utc) if dt.tzinfo is None else dt.astimezone(timezone.utc)
    return email.utils.format_datetime(dt, usegmt=True)


def rand_case(rnd, s):
    return ''.join(ch.upper() if rnd.random() < 0.5 else ch.lower() for ch in s)


def parse_set_cookie(line):
    """'n=v; A=b; Flag' -> (name, coded value, {attr-lower: value|True})"""
    parts = line.split('; ')
    name, _, val = parts[0].partition('=')
    attrs = {}
    for p in parts[1:]:
        k, sep, v = p.partition('=')
        attrs[k.lower()] = v if sep else True
    return name, val, attrs


_INT_LITERAL = re.compile(r'[ \t\n\r\x0b\x0c]*([+-]?)([0-9]+(?:_[0-9]+)*)[ \t\n\r\x0b\x0c]*\Z')


def max_age_reading(m):
    """What `max_age=m` asks for, read off the documentation - "max_age (int): Defines the lifetime of the cookie in seconds ... Coercion to
    int is attempted if provided with float or str" - with arbitrary-precision arithmetic and without going through any other number type:
      ('int', n)          the attribute must be Max-Age=<n>, the exact integer: an int (bool included) is itself; a finite float is truncated
                          towards zero (exact rational arithmetic); an ASCII str that is a decimal integer literal (sign, surrounding
                          blanks, single underscores between digits as int() documents) is that integer
      ('reject', names)   no integer is denoted - an ASCII str that is no decimal integer literal ('1e3', '15.3', '0x10', 'inf', '') makes the
                          coercion fail with ValueError, a non-finite float with ValueError (nan) or OverflowError (inf) as int() does
      None                not decided here (non-ASCII strings: Unicode digits / blanks; only the model transcribes those)"""
    import math
    from fractions import Fraction
    if isinstance(m, int):
        return ('int', m + 0)
    if isinstance(m, float):
        if not math.isfinite(m):
            return ('reject', ('ValueError', 'OverflowError'))
        q = Fraction(m)
        n = abs(q.numerator) // q.denominator
        return ('int', -n if q < 0 else n)
    if isinstance(m, str) and m.isascii():
        mt = _INT_LITERAL.match(m)
        if mt is None:
            return ('reject', ('ValueError',))
        n = 0
        for ch in mt.group(2):
            if ch != '_':
                n = n * 10 + (ord(ch) - 48)
        return ('int', -n if mt.group(1) == '-' else n)
    return None


def max_age_class(m):
    """label of a max_age value for the input-distribution table"""
    r = max_age_reading(m)
    t = 'bool' if isinstance(m, bool) else type(m).__name__
    if r is None:
        return t + '_undecided'
    if r[0] == 'reject':
        return t + '_denoting_no_integer'
    a = abs(r[1])
    return t + ('_zero' if a == 0 else '_negative' if r[1] < 0 else '_below_2**31' if a < 2 ** 31 else '_2**31_to_2**53' if a <= 2 ** 53 else '_above_2**53_to_2**63' if a < 2 ** 63
                else '_2**63_and_above')


def expected_cookie_attrs(kw, default_secure):
    """Attributes a successful set_cookie(**kw) must produce, read off the statement."""
    exp = {}
    if kw.get('expires') is not None:
        exp['expires'] = imf(kw['expires'])
    if kw.get('max_age') is not None:
        r = max_age_reading(kw['max_age'])
        if r is not None and r[0] == 'int':
            exp['max-age'] = '%d' % r[1]        # exactly the integer requested, at any magnitude
        elif r is None:
            raise AssertionError('max_age outside the domain of the oracle: %r' % (kw['max_age'],))
    if kw.get('domain'):
        exp['domain'] = kw['domain']
    if kw.get('path'):
        exp['path'] = kw['path']
    sec = default_secure if kw.get('secure') is None else kw['secure']
    if sec:
        exp['secure'] = True
    if kw.get('http_only', True):
        exp['httponly'] = True
    if kw.get('same_site'):
        exp['samesite'] = kw['same_site'].lower().capitalize()
    if kw.get('partitioned'):
        exp['partitioned'] = True
    return exp


_COOKIE_NAME_OK = set('abcdefghijklmnopqrstuvwxyzABCDEFGHIJKLMNOPQRSTUVWXYZ0123456789' + "!#$%&'*+-.^_`|~")
_COOKIE_RESERVED = {'expires', 'path', 'comment', 'domain', 'max-age', 'secure', 'httponly', 'version', 'samesite', 'partitioned'}


def cookie_name_legal(name):
    """RFC 6265 cookie-name = token (so no ':'), and not one of the attribute names http.cookies reserves"""
    return bool(name) and all(c in _COOKIE_NAME_OK for c in name) and name.lower() not in _COOKIE_RESERVED


def same_site_valid(v):
    return (not v) or v.lower() in ('lax', 'strict', 'none')


_MA_WIDTHS = [2 ** 31, 2 ** 32, 2 ** 53, 2 ** 63, 2 ** 64, sys.maxsize, 10 ** 17, 10 ** 30]      # every width a number conversion could go through
_MA_NO_INTEGER = ['1e3', '15.3', '0x10', 'inf', 'nan', '-inf', 'Infinity', '1e-3', '1.', '.5', '15.0', 'abc', '', ' ', '1 2', '-', '+', '0b1', '1,000', '1__0', '_1', '1_', '+ 5', '--5',
                  float('inf'), float('-inf'), float('nan')]


def rand_max_age(rnd, rejects=False):
    """max_age VALUES: the ordinary lifetimes; ints at and around 2**31, 2**32, 2**53, 2**63, 2**64, sys.maxsize, 10**17, 10**30 and random 54..200-bit
    ints, positive and negative, given as int, as a decimal str (sign, blanks, leading zeros, underscores) or as the float of it; bools; small
    negative / fractional floats and huge floats; with `rejects` also values that denote no integer (exponent / fraction / hex / inf / nan / empty
    strings, non-finite floats) - those must make set_cookie fail"""
    r = rnd.random()
    if r < 0.40:
        return rnd.choice([0, 0, 1, 300, 3600, 2 ** 31, 15.7, 0.0, 0.9, '15', '0', '007', None])
    if r < 0.78:
        if rnd.random() < 0.7:
            n = rnd.choice(_MA_WIDTHS) + rnd.choice([-2, -1, -1, 0, 0, 1, 1, 2, 3])
        else:
            n = rnd.getrandbits(rnd.choice([54, 55, 60, 63, 64, 70, 100, 200])) | 1
        if rnd.random() < 0.15:
            n = -n
        k = rnd.random()
        if k < 0.55:
            return n
        if k < 0.9:
            digits = '%d' % abs(n)
            if rnd.random() < 0.15:
                digits = '_'.join(digits[i:i + 3] for i in range(0, len(digits), 3))
            text = ('-' if n < 0 else rnd.choice(['', '', '', '+'])) + rnd.choice(['', '', '', '00']) + digits
            return rnd.choice(['%s', '%s', '%s', ' %s ', '\t%s\n', '%s ']) % text
        return float(n)
    if r < 0.90 or not rejects:
        return rnd.choice([True, False, -1, -300, -2 ** 31, ' 7 ', '+7', '-3', '1_000', '-0', 15.0, 15.9, -0.5, -0.0, -15.7, 1e20, 2.5e15, 1e-9, float(2 ** 53), float(2 ** 63), 1.7e308, 5e-324, 4503599627370497.5])
    return rnd.choice(_MA_NO_INTEGER)


def rand_cookie_kwargs(rnd, rejects=False):
    from datetime import datetime, timezone, timedelta
    kw = {}
    r = rnd.random()
    if r < 0.5:
        base = datetime(rnd.randint(1971, 2090), rnd.randint(1, 12), rnd.randint(1, 28), rnd.randint(0, 23), rnd.randint(0, 59), rnd.randint(0, 59))
        if rnd.random() < 0.5:
            off = rnd.choice([0, 60, 330, -480, 345, -210, 14 * 60, -12 * 60])
            base = base.replace(tzinfo=timezone(timedelta(minutes=off)))
        kw['expires'] = base
    if rnd.random() < 0.6:
        kw['max_age'] = rand_max_age(rnd, rejects)
    if rnd.random() < 0.5:
        kw['domain'] = rnd.choice(['example.com', '.example.com', 'a.b.example', '', None])
    if rnd.random() < 0.5:
        kw['path'] = rnd.choice(['/', '/a/b', '/x y', '', None])
    if rnd.random() < 0.7:
        kw['secure'] = rnd.choice([None, True, False])
    if rnd.random() < 0.6:
        kw['http_only'] = rnd.choice([True, False])
    if rnd.random() < 0.6:
        kw['same_site'] = rnd.choice(['Lax', 'lax', 'LAX', 'Strict', 'sTrIcT', 'None', 'none', 'NONE', '', None, 'bogus', 'Laxx', 'no ne'])
    if rnd.random() < 0.4:
        kw['partitioned'] = rnd.choice([True, False])
    return kw


_COOKIE_VALUE_ALPHA = 'abcXYZ019 ;,"\\=%-_.~!#$&\'()*+/:<>?@[]^`{|}\t\x7f'


# "escape look-alikes": text that, once the writer has escaped it, puts an escape-introducing character in front of characters that
# themselves read like an escape.  http.cookies writes a value with an illegal character as a quoted string (`\\` -> `\\\\`, `"` -> `\\"`,
# other illegal characters -> `\\ooo`); the reader has two escape syntaxes (`\\[0-3][0-7][0-7]` and `\\c`).  The atoms span both syntaxes and
# the boundaries of the octal one: first digit 0..3 | 4..7, digits 8/9, fewer / more than three digits, the triples that name the
# characters the writer itself escapes (`;` 073, `,` 054, SP 040, `"` 042, `\\` 134, HT 011, DEL 177, 000, 377), doubled backslashes,
# backslash + quote, backslash + a character that is written as an octal escape, and the same shapes in other notations as controls.
_OCT_TRIPLES_IN = ['073', '054', '040', '042', '134', '011', '177', '000', '377', '101', '300', '077', '012', '015', '200']
_OCT_TRIPLES_OUT = ['400', '477', '777', '378', '389', '08a', '19 ', '800', '090', '3_7']


def _oct_triple(rnd, in_range=True):
    r = rnd.random()
    if in_range:
        return rnd.choice(_OCT_TRIPLES_IN) if r < 0.6 else rnd.choice('0123') + rnd.choice('01234567') + rnd.choice('01234567')
    if r < 0.5:
        return rnd.choice(_OCT_TRIPLES_OUT)
    d = [rnd.choice('0123'), rnd.choice('01234567'), rnd.choice('01234567')]
    i = rnd.randrange(3); d[i] = rnd.choice('4567' if i == 0 and rnd.random() < 0.5 else '89')
    return ''.join(d)


def rand_escape_lookalike(rnd):
    """(atom, class): one escape look-alike"""
    k = rnd.choice(['bs_oct', 'bs_oct', 'bs_oct', 'bs_oct_out', 'bs_bs_oct', 'bs_bs', 'bs', 'bs_quote', 'quote', 'bs_short', 'bs_long', 'bs_escaped_char',
                    'quote_oct', 'bs_run', 'other_notation'])
    if k == 'bs_oct': return '\\' + _oct_triple(rnd), k
    if k == 'bs_oct_out': return '\\' + _oct_triple(rnd, False), k
    if k == 'bs_bs_oct': return '\\\\' + _oct_triple(rnd, rnd.random() < 0.8), k
    if k == 'bs_bs': return '\\\\', k
    if k == 'bs': return '\\', k
    if k == 'bs_quote': return rnd.choice(['\\"', '\\\\"', '"\\', '\\""']), k
    if k == 'quote': return rnd.choice(['"', '""']), k
    if k == 'bs_short': return '\\' + _oct_triple(rnd)[:rnd.randint(1, 2)], k
    if k == 'bs_long': return '\\' + _oct_triple(rnd) + rnd.choice('01234567'), k
    if k == 'bs_escaped_char': return '\\' + rnd.choice(';, "\t\x7f') + rnd.choice(['', _oct_triple(rnd)[:rnd.randint(1, 3)]]), k
    if k == 'quote_oct': return '"' + _oct_triple(rnd), k
    if k == 'bs_run': return '\\' * rnd.randint(3, 5) + rnd.choice(['', _oct_triple(rnd)]), k
    return rnd.choice(['%5C', '%5c101', '\\x41', '\\u0041', '\\n', '\\r', '\\t', '\\/', '/101', '&#92;101', '\\o101', '\\0o101']), k


def rand_lookalike_value(rnd):
    """(value, classes): 1..4 escape look-alikes (sometimes the same one several times in a row) at the start / in the middle / at the end of
    the value, mixed with characters of the ordinary alphabet"""
    parts = []; classes = []
    n = rnd.choice([1, 1, 1, 2, 2, 3, 4])
    lead = rnd.random() < 0.55; trail = rnd.random() < 0.55
    if lead: parts.append(''.join(rnd.choice(_COOKIE_VALUE_ALPHA) for _ in range(rnd.randint(1, 3))))
    for i in range(n):
        a, k = rand_escape_lookalike(rnd)
        classes.append(k)
        parts.append(a * (rnd.randint(2, 3) if rnd.random() < 0.15 else 1))
        if i + 1 < n and rnd.random() < 0.5:
            parts.append(''.join(rnd.choice(_COOKIE_VALUE_ALPHA) for _ in range(rnd.randint(1, 2))))
    if trail: parts.append(''.join(rnd.choice(_COOKIE_VALUE_ALPHA) for _ in range(rnd.randint(1, 3))))
    classes.append('at_start' if not lead else 'inside'); classes.append('at_end' if not trail else 'inside')
    return ''.join(parts), classes


def rand_cookie_value(rnd, count=None):
    r = rnd.random()
    if r < 0.08:
        return ''
    if r < 0.33:
        v, classes = rand_lookalike_value(rnd)
        if count:
            for k in set(classes): count('cookie_value_lookalike_' + k)
            if '\\' in v and any(v[i] == '\\' and v[i + 1] in '0123' and v[i + 2] in '01234567' and v[i + 3] in '01234567' for i in range(len(v) - 3)):
                count('cookie_value_backslash_then_octal_triple_in_range')
        return v
    return ''.join(rnd.choice(_COOKIE_VALUE_ALPHA) for _ in range(rnd.randint(1, 8)))


def check_cookie_line(line, name, kw, default_secure):
    """None if the emitted line carries exactly what set_cookie(name, value, **kw) asked for, else a description."""
    n, coded, attrs = parse_set_cookie(line)
    if n != name:
        return f'cookie name {n!r} != {name!r}'
    exp = expected_cookie_attrs(kw, default_secure)
    if attrs != exp:
        missing = {k: v for k, v in exp.items() if attrs.get(k) != v}
        extra = {k: v for k, v in attrs.items() if k not in exp}
        return f'attributes differ: missing/wrong {missing}, unrequested {extra}'
    return None


def check_unset_line(line, name, kw):
    import email.utils
    from datetime import datetime, timezone
    n, coded, attrs = parse_set_cookie(line)
    if n != name:
        return f'cookie name {n!r} != {name!r}'
    if coded not in ('', '""'):
        return f'unset cookie still carries a value {coded!r}'
    if 'max-age' in attrs and not (attrs['max-age'].lstrip('-').isdigit() and int(attrs['max-age']) <= 0):
        return 'Max-Age of an earlier set_cookie survives unset_cookie (cookie not expired)'
    if 'expires' not in attrs:
        return 'unset cookie has no Expires'
    try:
        when = email.utils.parsedate_to_datetime(attrs['expires'])
    except Exception:  # noqa
        return f'unset cookie has an unparsable Expires {attrs["expires"]!r}'
    if when.tzinfo is None:
        when = when.replace(tzinfo=timezone.utc)
    if not when < datetime.now(timezone.utc):
        return f'unset cookie expires in the future ({attrs["expires"]})'
    for k in ('domain', 'path'):
        if kw.get(k) and attrs.get(k) != kw[k]:
            return f'unset cookie {k} {attrs.get(k)!r} != requested {kw[k]!r}'
    ss = kw.get('samesite', 'Lax')
    if (attrs.get('samesite') or '') != ss:
        return f'unset cookie SameSite {attrs.get("samesite")!r} != requested {ss!r}'
    return None


ORA_ORDER_NAME = ('Set-Cookie line order: a user agent processing the lines in the order handed to the server stores, per cookie name, what the last call on that name says '
                  '(unset -> expired, set -> its value, raw lines alone -> the last one); WSGI and ASGI emit the same sequence')


def cookie_dequote(coded):
    """what a reader of RFC 6265 / RFC 2109 quoted cookie values makes of the text after `name=`: DQUOTEs stripped, backslash escapes
    (octal `\\ooo`, `\\c`) resolved; an unquoted value is taken verbatim"""
    if len(coded) < 2 or coded[0] != '"' or coded[-1] != '"':
        return coded
    body = coded[1:-1]; out = []; i = 0
    while i < len(body):
        ch = body[i]
        if ch == '\\' and i + 3 < len(body) and body[i + 1:i + 4].isdigit() and all(c in '01234567' for c in body[i + 1:i + 4]):
            out.append(chr(int(body[i + 1:i + 4], 8))); i += 4
        elif ch == '\\' and i + 1 < len(body):
            out.append(body[i + 1]); i += 2
        else:
            out.append(ch); i += 1
    return ''.join(out)


def user_agent(lines, now=None):
    """A minimal RFC 6265 (section 5.3) user agent: the Set-Cookie lines of ONE response are processed in the order received; a later
    line for the same cookie name replaces what an earlier one stored; a line whose Max-Age is <= 0 or whose Expires lies in the past
    removes the cookie (Max-Age has precedence).  Returns {name: coded value} of what is stored afterwards."""
    import email.utils
    from datetime import datetime, timezone
    now = now or datetime.now(timezone.utc)
    jar = {}
    for line in lines:
        parts = line.split(';')
        name, sep, val = parts[0].partition('=')
        name = name.strip(); val = val.strip()
        if not sep or not name:
            continue
        max_age = expires = None
        for p in parts[1:]:
            k, _, v = p.strip().partition('=')
            k = k.strip().lower(); v = v.strip()
            if k == 'max-age' and re.fullmatch(r'-?[0-9]+', v):
                max_age = int(v)
            elif k == 'expires':
                try:
                    when = email.utils.parsedate_to_datetime(v)
                    expires = when.replace(tzinfo=timezone.utc) if when.tzinfo is None else when
                except Exception:  # noqa
                    pass
        expired = (max_age <= 0) if max_age is not None else (expires is not None and expires <= now)
        if expired:
            jar.pop(name, None)
        else:
            jar[name] = val
    return jar


def cookie_order_verdict(calls, lines, stack):
    """The order of the Set-Cookie lines is observable: what a user agent that processes them in order ends up storing under a cookie
    name must be what the history of calls says.  `calls` = [(kind, name, value)] in call order with kind in raw / set / unset / failed
    (`failed` = a set_cookie that raised: may or may not have left its cookie behind, the name is then not judged; value None for
    set / raw = the call itself asks for an expired cookie: Max-Age <= 0, Expires in the past).
    * the last call on the name is unset_cookie           -> nothing is stored (an unset cookie is expired - whatever raw or API line came before)
    * the last call on the name is a successful set_cookie -> exactly its value is stored
    * the name was only ever given in raw appended lines    -> the last such line decides
    * a raw line appended AFTER an API call on the same name: falcon documents that the API lines are emitted after the raw ones; the
      statement does not say who wins, so the name is not judged here (the cross-stack comparison still is)."""
    jar = user_agent(lines)
    per = {}
    for kind, name, value in calls:
        per.setdefault(name, []).append((kind, value))
    for name, ops in per.items():
        kinds = [k for k, _ in ops]
        if 'failed' in kinds:
            continue
        last_kind, last_val = ops[-1]
        if last_kind == 'raw' and any(k != 'raw' for k in kinds):
            continue
        have = jar.get(name)
        if last_kind == 'unset' or last_val is None:
            if have is not None:
                return (f'{stack}: the last call on cookie {name!r} was {"unset_cookie" if last_kind == "unset" else last_kind + " of an already expired cookie (Max-Age <= 0 / Expires in the past)"}, but a user agent processing the Set-Cookie lines in order still stores '
                        f'{name}={have!r} (calls on it: {kinds}); lines in server order: {lines!r}')
        else:
            if have is None:
                return (f'{stack}: the last call on cookie {name!r} was {last_kind} with value {last_val!r}, but a user agent processing the Set-Cookie lines in order '
                        f'stores nothing under that name (calls on it: {kinds}); lines in server order: {lines!r}')
            if cookie_dequote(have) != last_val:
                return (f'{stack}: the last call on cookie {name!r} was {last_kind} with value {last_val!r}, but a user agent processing the Set-Cookie lines in order '
                        f'stores {name}={have!r} (calls on it: {kinds}); lines in server order: {lines!r}')
    return None


def raw_cookie_value(line):
    """(name, value) of a raw `name=value; attrs` line as a user agent reads it (an expired raw line stores nothing: value None);
    None for a line that is no cookie-pair at all"""
    name, sep, _ = line.split(';')[0].partition('=')
    if not sep or not name.strip():
        return None
    jar = user_agent([line])
    v = jar.get(name.strip())
    return name.strip(), (None if v is None else cookie_dequote(v))


def set_cookie_value(value, kw):
    """what set_cookie(name, value, **kw) asks a user agent to store: the value, or None when the call itself is an expiry
    (Max-Age <= 0; without Max-Age an Expires in the past)"""
    from datetime import datetime, timezone
    r = max_age_reading(kw['max_age']) if kw.get('max_age') is not None else None
    if r is not None and r[0] == 'int':
        return None if r[1] <= 0 else value
    e = kw.get('expires')
    if e is not None:
        e = e.replace(tzinfo=timezone.utc) if e.tzinfo is None else e
        if e <= datetime.now(timezone.utc):
            return None
    return value


# ------------------------------------------------------------------ argument objects, returned objects, raw cookie texts

ORA_SNAP = ('second-order reads: what a reader of the header stores returns (resp.headers, get_header, typed properties, _wsgi_headers() / _asgi_headers()) has the documented '
            'type and is a snapshot - editing the returned object does not change the response, and a later response operation does not change an object returned earlier')
ORA_ITER = ('argument objects: an iterable handed to a setter (cache_control, vary, set_headers, content_range, hreflang, link_extension) stores what a list of the same items '
            'gives (or raises like it), whatever kind of iterable it is, and the argument is not kept: editing it afterwards leaves the header unchanged')
ORA_RAW = ('raw cookies: every value appended with append_header(Set-Cookie spelling, raw) is handed to the server as exactly one separate Set-Cookie line, byte-identical to what was '
           'appended, in append order, on WSGI and ASGI')


class _OneShot:
    """an iterator object: the first traversal uses it up"""
    def __init__(self, items): self._it = iter(list(items))
    def __iter__(self): return self
    def __next__(self): return next(self._it)


class _ReIter:
    """re-iterable, without __len__ / __getitem__"""
    def __init__(self, items): self.items_ = list(items)
    def __iter__(self): return iter(list(self.items_))


class _GetItemSeq:
    """the old sequence protocol: __getitem__ + __len__, no __iter__"""
    def __init__(self, items): self.items_ = list(items)
    def __getitem__(self, i): return self.items_[i]
    def __len__(self): return len(self.items_)


class _ItemsOnly:
    """'a dict-like object that implements an items() method' and nothing else; items() is a list or a one-shot generator"""
    def __init__(self, pairs, lazy): self.pairs_ = list(pairs); self.lazy_ = lazy
    def items(self): return (p for p in list(self.pairs_)) if self.lazy_ else list(self.pairs_)


ITER_KINDS = ['list', 'tuple', 'set', 'frozenset', 'dict', 'dict_keys', 'dict_values', 'generator', 'map', 'filter', 'reversed', 'iter', 'zip_gen', 'chain', 'deque',
              'oneshot_obj', 'reiter_obj', 'getitem_seq']
ONE_SHOT_KINDS = {'generator', 'map', 'filter', 'reversed', 'iter', 'zip_gen', 'chain', 'oneshot_obj'}


def wrap_iterable(rnd, items, kinds=None):
    """Hand `items` over as some kind of iterable.  -> (obj, kind, what list(obj) yields, edit) where `edit()` changes the caller's
    object afterwards (None for the immutable / one-shot kinds).  The expected members are computed here, before falcon sees obj."""
    import collections
    import itertools
    items = list(items)
    kind = rnd.choice(kinds or ITER_KINDS)
    edit = None
    junk = 'zz-edited-later'
    if kind == 'list':
        obj = list(items); eff = list(items)
        def edit(o=obj):
            rnd.choice([lambda: o.append(junk), o.clear, lambda: o.insert(0, junk), o.reverse, lambda: o.__setitem__(slice(0, 1), [junk])])()
    elif kind == 'tuple':
        obj = tuple(items); eff = list(items)
    elif kind in ('set', 'frozenset'):
        obj = (set if kind == 'set' else frozenset)(items); eff = list(obj)       # order does not matter: any order of the members is right, the traversal order is stable
        if kind == 'set':
            def edit(o=obj):
                rnd.choice([lambda: o.add(junk), o.clear])()
    elif kind in ('dict', 'dict_keys'):
        d = dict.fromkeys(items, 1); obj = d if kind == 'dict' else d.keys(); eff = list(d)
        def edit(o=d):
            rnd.choice([lambda: o.__setitem__(junk, 1), o.clear])()
    elif kind == 'dict_values':
        d = {i: x for i, x in enumerate(items)}; obj = d.values(); eff = list(items)
        def edit(o=d):
            rnd.choice([lambda: o.__setitem__(-1, junk), o.clear])()
    elif kind == 'generator':
        obj = (x for x in list(items)); eff = list(items)
    elif kind == 'map':
        obj = map(lambda x: x, list(items)); eff = list(items)
    elif kind == 'filter':
        obj = filter(None, list(items)); eff = [x for x in items if x]           # filter(None, ...) drops the falsy members
    elif kind == 'reversed':
        obj = reversed(list(items)); eff = list(items)[::-1]
    elif kind == 'iter':
        obj = iter(list(items)); eff = list(items)
    elif kind == 'zip_gen':
        obj = (a for a, _ in zip(list(items), itertools.count())); eff = list(items)
    elif kind == 'chain':
        k = rnd.randint(0, len(items)); obj = itertools.chain(items[:k], iter(items[k:])); eff = list(items)
    elif kind == 'deque':
        obj = collections.deque(items); eff = list(items)
        def edit(o=obj):
            rnd.choice([lambda: o.append(junk), o.clear, lambda: o.appendleft(junk)])()
    elif kind == 'oneshot_obj':
        obj = _OneShot(items); eff = list(items)
    elif kind == 'reiter_obj':
        obj = _ReIter(items); eff = list(items)
        def edit(o=obj):
            rnd.choice([lambda: o.items_.append(junk), o.items_.clear])()
    else:
        obj = _GetItemSeq(items); eff = list(items)
        def edit(o=obj):
            rnd.choice([lambda: o.items_.append(junk), o.items_.clear])()
    return obj, kind, eff, edit


PAIR_KINDS = ['list', 'tuple', 'dict', 'ordered_dict', 'mappingproxy', 'items_view', 'generator', 'iter', 'map', 'zip', 'items_only', 'items_only_lazy', 'pair_lists', 'pair_iters',
              'deque', 'reiter_obj']


def wrap_pairs(rnd, pairs, kinds=None):
    """Hand [(name, value)] to set_headers as some kind of argument object.  -> (obj, kind, the pairs in the order a list of them has, edit)"""
    import collections
    import types
    pairs = [tuple(p) for p in pairs]
    kind = rnd.choice(kinds or PAIR_KINDS)
    edit = None
    junk = ('X-Edited-Later', 'zz')
    eff = list(pairs)
    if kind == 'list':
        obj = list(pairs)
        def edit(o=obj):
            rnd.choice([lambda: o.append(junk), o.clear, o.reverse])()
    elif kind == 'tuple':
        obj = tuple(pairs)
    elif kind in ('dict', 'ordered_dict', 'mappingproxy', 'items_view'):
        d = (collections.OrderedDict if kind == 'ordered_dict' else dict)(pairs); eff = list(d.items())
        obj = d if kind in ('dict', 'ordered_dict') else (types.MappingProxyType(d) if kind == 'mappingproxy' else d.items())
        def edit(o=d):
            rnd.choice([lambda: o.__setitem__(*junk), o.clear, lambda: [o.__setitem__(k, 'zz') for k in list(o)]])()
    elif kind == 'generator':
        obj = (p for p in list(pairs))
    elif kind == 'iter':
        obj = iter(list(pairs))
    elif kind == 'map':
        obj = map(lambda p: p, list(pairs))
    elif kind == 'zip':
        obj = zip([a for a, _ in pairs], [b for _, b in pairs])
    elif kind in ('items_only', 'items_only_lazy'):
        obj = _ItemsOnly(pairs, kind == 'items_only_lazy')
        def edit(o=obj):
            rnd.choice([lambda: o.pairs_.append(junk), o.pairs_.clear])()
    elif kind == 'pair_lists':
        obj = [list(p) for p in pairs]
        def edit(o=obj):
            for p in o: p[1] = 'zz'
    elif kind == 'pair_iters':
        obj = [iter(list(p)) for p in pairs]
    elif kind == 'deque':
        obj = collections.deque(pairs)
        def edit(o=obj):
            rnd.choice([lambda: o.append(junk), o.clear])()
    else:
        obj = _ReIter(pairs)
        def edit(o=obj):
            rnd.choice([lambda: o.items_.append(junk), o.items_.clear])()
    return obj, kind, eff, edit


_RAW_NAMES = ['prefs', 'ab', 'sso', 'cart', 'csv', 'r', 'raw', 'k', 'SID', '__Host-id', '__Secure-t', 'a.b', 'x_y', 't0', 'tz', 'lang']
_RAW_TOKEN_ALPHA = "abcxyzABC0189-_.~%!#$&'()*+/:<>?@[]^`{|}"
_RAW_WHOLE = ['', '=', 'novalue', ',', ',a=b', 'a=b,', ' lead=1', 'trail=1 ', 'a=1, b=2', 'a=1,b=2', 'a=1;b=2', 'a=b=c', 'a="b;c=d"', 'a="x, y=z"; Path=/', 'x=1,y=2,z=3',
              'q=a, Wed=1', 'd=Wed, 30 Sep 2026 00:00:00 GMT', 'e=1; Expires=Wed, 30 Sep 2026 00:00:00 GMT, f=2', 'j={"k":"v","n":1,"e=f":[1,2]}', 'b64=dGVzdA==,dGVzdA==']


def rand_raw_cookie(rnd):
    """A raw Set-Cookie value as an application relays it from upstream: `name=value; attr; attr=value` with every character class that is
    legal (or seen in the wild) in a cookie value or attribute: commas followed by `name=`, JSON, quoted values holding `=` `;` `,`,
    Expires dates in the RFC 1123, RFC 850 and asctime forms, base64 padding, folded cookies.  Printable ASCII only.  -> (text, class label)"""
    if rnd.random() < 0.12:
        return rnd.choice(_RAW_WHOLE), 'whole'

    def token(lo=0, hi=6):
        return ''.join(rnd.choice(_RAW_TOKEN_ALPHA) for _ in range(rnd.randint(lo, hi)))

    def word(lo=1, hi=4):
        return ''.join(rnd.choice('abcdefghijklmnopqrstuvwxyzABCXYZ0123456789_-') for _ in range(rnd.randint(lo, hi)))
    name = rnd.choice(_RAW_NAMES) if rnd.random() < 0.8 else rnd.choice(['c1', 'c2', 'sid', 'gone'])
    cls = rnd.choice(['token', 'kv_list', 'kv_list', 'json', 'quoted', 'csv', 'b64', 'date', 'folded', 'spaces', 'eqs'])
    if cls == 'token': val = token()
    elif cls == 'kv_list':      # k=v,k=v preference / AB-test cookies: a comma followed by `name=`
        val = rnd.choice([',', ', ', ' ,', ',  ']).join(f'{word()}={token(0, 4)}' for _ in range(rnd.randint(2, 4)))
    elif cls == 'json':
        val = '{' + ','.join(f'"{word()}":{rnd.choice(["1", "true", "null", chr(34) + token(0, 3).replace(chr(34), "") + chr(34), "[1,2]", chr(34) + word() + "=" + word() + chr(34)])}'
                             for _ in range(rnd.randint(1, 3))) + '}'
    elif cls == 'quoted':
        val = '"' + ''.join(rnd.choice([word(), ', ', ',', '=', ';', '; ', ' ', word() + '=' + word(), '\\"']) for _ in range(rnd.randint(1, 5))) + '"'
    elif cls == 'csv': val = ','.join(str(rnd.randint(0, 99)) for _ in range(rnd.randint(2, 4)))
    elif cls == 'b64': val = rnd.choice(['dGVzdA==', 'YQ==', 'YWI=', 'a+b/c=', '=='])
    elif cls == 'date': val = rnd.choice(['Wed, 30 Sep 2026', 'Wed, 30-Sep-26 00:00:00 GMT', 'Sep 30, 2026', 'Wed,30'])
    elif cls == 'folded': val = token(1, 3) + rnd.choice([', ', ',']) + word() + '=' + token(0, 3)          # two cookies folded into ONE appended value: still one append, one line
    elif cls == 'spaces': val = rnd.choice([' ', 'a b', ' a', 'a ', 'a  b = c'])
    else: val = rnd.choice(['=', 'a=b', '=a', 'a==b', 'a=b=c,d=e'])
    attrs = []
    for _ in range(rnd.choice([0, 1, 1, 2, 3, 4])):
        a = rnd.choice(['Path=/', 'Path=/a,b=c', 'Path=/x y', 'Domain=example.com', 'Domain=.a.example,b=1', 'Expires=Wed, 30 Sep 2026 00:00:00 GMT', 'expires=Mon, 14-Jan-2019 21:20:08 GMT',
                        'Expires=Wed Sep 30 00:00:00 2026', 'Expires=Thu, 01 Jan 1970 00:00:00 GMT', 'Max-Age=3600', 'Max-Age=0', 'Secure', 'HttpOnly', 'SameSite=Lax', 'SameSite=None',
                        'Partitioned', 'Priority=High', 'ext=a,b=c', 'Comment="x, y=z"', 'Version=1', word() + '=' + token(0, 4), word()])
        attrs.append(rand_case(rnd, a) if rnd.random() < 0.15 else a)
    sep = rnd.choice(['; ', '; ', '; ', ';', ' ; '])
    return sep.join([name + '=' + val] + attrs), cls


def comma_name_eq(s):
    """does the text hold a comma that is followed (after optional blanks) by something that looks like `name=`?"""
    return re.search(r',\s*[^\s;,=]+=', s) is not None


def apply_edit(rnd, obj, frozen, pool_names, pool_vals):
    """Edit an object a reader returned (a dict for resp.headers, a list for the emitted header lists) the way its owner may - and apply the same
    edit to `frozen`, the harness's own copy, so that `obj == frozen` keeps saying "obj behaves like an independent ordinary dict / list"."""
    if isinstance(obj, dict):
        keys = list(frozen)
        how = rnd.choice(['setnew', 'setnew', 'overwrite', 'del', 'pop', 'popitem', 'clear', 'update', 'setdefault'])
        n = rnd.choice(pool_names); v = rnd.choice(pool_vals)
        if how == 'overwrite' and keys: n = rnd.choice(keys)
        if how in ('setnew', 'overwrite'):
            for o in (obj, frozen): o[n] = v
        elif how == 'del' and keys:
            k = rnd.choice(keys)
            for o in (obj, frozen): del o[k]
        elif how == 'pop':
            k = rnd.choice(keys + [n])
            for o in (obj, frozen): o.pop(k, None)
        elif how == 'popitem' and keys:
            k = keys[-1]; obj.popitem(); frozen.pop(k)
        elif how == 'clear':
            obj.clear(); frozen.clear()
        elif how == 'update':
            for o in (obj, frozen): o.update({n: v, n.lower(): v + '2'})
        else:
            for o in (obj, frozen): o.setdefault(n, v)
        return how
    how = rnd.choice(['append', 'append', 'pop', 'clear', 'setitem', 'reverse', 'extend', 'insert', 'delitem'])
    enc = (lambda s: s.encode('latin-1')) if (frozen and isinstance(frozen[0][0], bytes)) else (lambda s: s)
    item = (enc(rnd.choice(pool_names)), enc(rnd.choice(pool_vals)))
    if how == 'append':
        for o in (obj, frozen): o.append(item)
    elif how == 'pop' and frozen:
        for o in (obj, frozen): o.pop()
    elif how == 'clear':
        for o in (obj, frozen): o.clear()
    elif how == 'setitem' and frozen:
        i = rnd.randrange(len(frozen))
        for o in (obj, frozen): o[i] = item
    elif how == 'reverse':
        for o in (obj, frozen): o.reverse()
    elif how == 'extend':
        for o in (obj, frozen): o.extend([item, item])
    elif how == 'insert':
        for o in (obj, frozen): o.insert(0, item)
    elif how == 'delitem' and frozen:
        i = rnd.randrange(len(frozen))
        for o in (obj, frozen): del o[i]
    return how


def reader_type_problem(kind, obj):
    """(a) the documented type of what a reader returns; None if fine"""
    if kind == 'headers':
        if type(obj) is not dict: return f'resp.headers returned a {type(obj).__name__}, documented: a dict copy'
        bad = [(k, v) for k, v in obj.items() if type(k) is not str or type(v) is not str]
        if bad: return f'resp.headers holds non-str items {bad!r}'
        if any(k != k.lower() for k in obj): return f'resp.headers holds a name that is not lower-case: {[k for k in obj if k != k.lower()]!r}'
        if 'set-cookie' in obj: return 'resp.headers holds Set-Cookie ("without cookies")'
    else:
        t = bytes if kind == 'asgi' else str
        if not isinstance(obj, list): return f'_{kind}_headers() returned a {type(obj).__name__}, expected a list'
        bad = [it for it in obj if not (isinstance(it, tuple) and len(it) == 2 and type(it[0]) is t and type(it[1]) is t)]
        if bad: return f'_{kind}_headers() holds items that are not ({t.__name__}, {t.__name__}) tuples: {bad[:3]!r}'
    return None


# ------------------------------------------------------------------ 1. operation histories: correspondence + map oracle + emission oracle

_PLAIN =['X-A', 'X-B', 'X-Long-Header-Name', 'Content-Type', 'Content-Length', 'Cache-Control', 'ETag', 'Vary', 'Location', 'Content-Location',
          'Retry-After', 'Accept-Ranges', 'Content-Range', 'Content-Disposition', 'Expires', 'Last-Modified', 'Link', 'Allow', 'Set-Cookie2', 'Cookie', 'Set', 'X-Set-Cookie']
_COOKIE_SPELL = ['Set-Cookie', 'set-cookie', 'SET-COOKIE', 'sEt-cOoKiE']
# names an owner of a returned mapping / list writes into it: present and absent ones, lower-case and not, Set-Cookie spellings
_EDIT_NAMES = ['x-a', 'X-A', 'x-b', 'content-type', 'cache-control', 'Cache-Control', 'X-Logged-By', 'x-upload-token', 'Set-Cookie', 'set-cookie', 'vary', 'Link', 'location', 'etag']
_VAL_ALPHA = [chr(c) for c in range(0x20, 0x7f)] + [chr(c) for c in range(0xa0, 0x100)]


def _histories(ctx):
    import re
    from datetime import datetime
    from runner import hx
    import falcon
    import falcon.asgi
    from falcon.errors import HeaderNotSupported
    from falcon.response import ResponseOptions
    rnd = ctx.rng

    def H(s):
        return hx(s.encode('latin-1', 'backslashreplace'))

    def norm_cookie_line(v):
        return re.sub(r'expires=[^;]*', 'expires=@', v)

    def rand_name():
        if rnd.random() < 0.15:
            return rnd.choice(_COOKIE_SPELL) if rnd.random() < 0.6 else rand_case(rnd, 'set-cookie')
        return rand_case(rnd, rnd.choice(_PLAIN))

    def rand_val():
        r = rnd.random()
        if r < 0.1:
            return ''
        if r < 0.3:
            return rnd.choice(['1', 'a', 'a, b', 'text/plain', 'W/"x"', 'q=0.5; x', 'é', 'ÿ=¡', 'a=1,b=2', 'prefs=lang=en,tz=utc; Path=/', 'x=1, y=2'])
        return ''.join(rnd.choice(_VAL_ALPHA) for _ in range(rnd.randint(1, 6)))

    # typed properties: attr -> (header name, value generator, reference transform)
    def gen_dt():
        return datetime(rnd.randint(1971, 2090), rnd.randint(1, 12), rnd.randint(1, 28), rnd.randint(0, 23), rnd.randint(0, 59), rnd.randint(0, 59))

    def gen_uri():
        return ''.join(rnd.choice(['/', 'a', 'b', 'é', ' ', '?', '=', '&', '%', '%41', '#', '日本', '😀', '"', '<', '+', ':', '@', '~', '\\']) for _ in range(rnd.randint(1, 6)))
    PROPS = {
        'content_type': ('content-type', lambda: rnd.choice(['text/plain', 'application/json', 'text/html; charset=utf-8', 'x/y']), str),
        'content_length': ('content-length', lambda: rnd.choice([0, 5, 12345, '7', '0']), str),
        'cache_control': ('cache-control', lambda: rnd.choice([['no-store'], ['public', 'max-age=60'], ('private',), []]), lambda v: ', '.join(v)),
        'etag': ('etag', lambda: rnd.choice(['abc', '"abc"', 'W/"abc"', 'a"b', 'x' * 5, '"']), lambda v: v if v.endswith('"') else '"' + v + '"'),
        'last_modified': ('last-modified', gen_dt, imf),
        'expires': ('expires', gen_dt, imf),
        'location': ('location', gen_uri, ref_uri),
        'content_location': ('content-location', gen_uri, ref_uri),
        'retry_after': ('retry-after', lambda: rnd.choice([0, 3, 120, '5']), str),
        'vary': ('vary', lambda: rnd.choice([['*'], ['Accept', 'Accept-Encoding'], ('Cookie',), []]), lambda v: ', '.join(v)),
        'accept_ranges': ('accept-ranges', lambda: rnd.choice(['bytes', 'none']), str),
        'content_range': ('content-range', lambda: rnd.choice([(0, 4, 10), (5, 5, '*'), (0, 0, 1, 'items'), (10, 20, 100, 'bytes')]),
                          lambda v: f'{v[3] if len(v) == 4 else "bytes"} {v[0]}-{v[1]}/{v[2]}'),
        'downloadable_as': ('content-disposition', lambda: rnd.choice(['report.pdf', 'a b.txt', '', 'x.tar.gz', 'q"uo\\te.txt']), lambda v: 'attachment; filename="%s"' % qs_escape(v)),
        'viewable_as': ('content-disposition', lambda: rnd.choice(['report.pdf', 'a b.txt', 'x.png', '"']), lambda v: 'inline; filename="%s"' % qs_escape(v)),
    }
    PROP_NAMES = sorted(PROPS)

    sess = ctx.session('response header stores = Hd model', 'hddriver')
    ORA_MAP = 'header map: every read in any casing = case-insensitive map; HeaderNotSupported exactly for Set-Cookie spellings'
    ORA_EMIT = 'emitted list: each plain header once (ASGI names lower-case bytes), one Set-Cookie line per raw append and per cookie'
    ORA_ATTR = 'cookie attributes exact'
    ORA_UNSET = 'unset cookie expired'
    ORA_ORDER = ORA_ORDER_NAME

    for ci in range(ctx.n(16000, 250000)):
        calls = []          # cookie-related calls in call order: (raw | set | unset | failed, cookie name, value)
        asgi = rnd.random() < 0.5
        default_secure = rnd.random() < 0.6
        opts = ResponseOptions()
        opts.secure_cookies_by_default = default_secure
        resp = (falcon.asgi.Response if asgi else falcon.Response)(options=opts)
        model = {}          # oracle: lower-cased name -> value
        raw = []            # raw Set-Cookie values appended
        jar = []            # [name, ('set'|'unset', kw)] in emission order
        hist = []
        fail_map = fail_emit = fail_attr = fail_unset = fail_order = fail_snap = fail_iter = fail_raw = None
        mutated = False
        snaps = []          # [reader kind, the object the reader returned, what it must (still) hold, how it was edited]
        n_iter = 0          # setter calls whose argument was an iterable object
        sess.case({'asgi': asgi})
        sess.op('new', 'ok')

        def readback(low):
            """read the touched header back in three casings, on both sides"""
            nonlocal fail_map, fail_snap
            for nm in (low, low.upper(), rand_case(rnd, low)):
                try:
                    got = resp.get_header(nm)
                    sess.op(f'get {H(nm)}', 'none' if got is None else 'val ' + H(got))
                    if got is not None and type(got) is not str:
                        fail_snap = fail_snap or f'get_header({nm!r}) returned a {type(got).__name__} ({got!r}), documented: str'
                    if low == 'set-cookie':
                        fail_map = fail_map or f'get_header({nm!r}) returned {got!r} instead of raising'
                    elif got != model.get(low):
                        fail_map = fail_map or f'get_header({nm!r}) = {got!r}, map holds {model.get(low)!r}'
                except HeaderNotSupported:
                    sess.op(f'get {H(nm)}', 'err')
                    if low != 'set-cookie':
                        fail_map = fail_map or f'get_header({nm!r}) raised HeaderNotSupported'

        def cookie_line_of(name):
            for k, v in resp._wsgi_headers():
                if k == 'set-cookie' and v.split('=', 1)[0] == name and v not in raw:
                    return v
            return None

        for _ in range(rnd.randint(1, 12)):
            op = rnd.choice(['set', 'set', 'append', 'append', 'delete', 'get', 'set_headers', 'prop', 'prop', 'prop_none', 'prop_del',
                             'link', 'cookie', 'unset', 'raw', 'emit', 'snap', 'snap'])
            if op == 'raw':      # a raw cookie append (the Set-Cookie spelling is drawn here; rand_name() yields one only rarely)
                op = 'append'; force_cookie = True
            else:
                force_cookie = False
            ctx.count('hist_op_' + op)
            try:
                if op in ('set', 'append', 'delete', 'get'):
                    n = rand_name(); low = n.lower(); v = rand_val()
                    if force_cookie:
                        n = rnd.choice(_COOKIE_SPELL) if rnd.random() < 0.6 else rand_case(rnd, 'set-cookie'); low = 'set-cookie'
                    is_cookie = low == 'set-cookie'
                    if is_cookie and op != 'append' and rnd.random() < 0.5:
                        v = rand_raw_cookie(rnd)[0]       # a raw cookie text through the plain-header calls: must raise whatever it looks like
                    if is_cookie and op == 'append':
                        v = rnd.choice(['r=1', 'raw=x; Path=/', 'r2=a b', 'k=v; Secure; HttpOnly'])
                        if rnd.random() < 0.6:      # every character class of a relayed upstream cookie (commas followed by name=, JSON, quoted, dates, folded ...)
                            v, rcls = rand_raw_cookie(rnd)
                            ctx.count('hist_raw_cookie_' + rcls)
                            if comma_name_eq(v): ctx.count('hist_raw_cookie_with_comma_then_name_eq')
                        elif rnd.random() < 0.5:      # a raw line for a name the cookie API is also used with (e.g. copied from an upstream response)
                            v = rnd.choice(['c1', 'c2', 'sid', 'gone']) + rnd.choice(['=rawv%d' % len(raw), '=rawv%d; Path=/' % len(raw), '="raw v%d"; HttpOnly' % len(raw),
                                                                                     '=rawv%d; Max-Age=3600' % len(raw)])
                            ctx.count('hist_raw_line_for_api_cookie_name')
                    if op != 'get' and rnd.random() < 0.05:
                        v = rnd.choice([5, 0, 3.5])      # non-str values are converted with str()
                    sv = str(v)
                    hist.append([op, n, v])
                    try:
                        if op == 'set':
                            resp.set_header(n, v); sess.op(f'set {H(n)} {H(sv)}', 'ok')
                            if is_cookie: fail_map = fail_map or f'set_header({n!r}) did not raise'
                            model[low] = sv; mutated = True
                        elif op == 'append':
                            resp.append_header(n, v); sess.op(f'append {H(n)} {H(sv)}', 'ok')
                            if is_cookie:
                                raw.append(sv); rc = raw_cookie_value(sv)
                                if rc: calls.append(('raw',) + rc)
                            else: model[low] = (model[low] + ', ' + sv) if low in model else sv
                            mutated = True
                        elif op == 'delete':
                            resp.delete_header(n); sess.op(f'delete {H(n)}', 'ok')
                            if is_cookie: fail_map = fail_map or f'delete_header({n!r}) did not raise'
                            model.pop(low, None); mutated = True
                        else:
                            dflt = rnd.choice([None, None, 'dflt'])
                            got = resp.get_header(n) if dflt is None else resp.get_header(n, default=dflt)
                            want = model.get(low, dflt)
                            # the driver has no default argument: map a returned default back to 'none'
                            sess.op(f'get {H(n)}', 'none' if (got is None or (low not in model and got == dflt)) else 'val ' + H(got))
                            if is_cookie: fail_map = fail_map or f'get_header({n!r}) returned {got!r} instead of raising'
                            elif got != want: fail_map = fail_map or f'get_header({n!r}, default={dflt!r}) = {got!r}, map holds {want!r}'
                    except HeaderNotSupported:
                        sess.op({'set': f'set {H(n)} {H(sv)}', 'delete': f'delete {H(n)}', 'get': f'get {H(n)}', 'append': f'append {H(n)} {H(sv)}'}[op], 'err')
                        if not is_cookie or op == 'append':
                            fail_map = fail_map or f'{op}({n!r}) raised HeaderNotSupported'
                    if not is_cookie:
                        readback(low)
                elif op == 'set_headers':
                    items = [(rand_name() if rnd.random() < 0.25 else rand_case(rnd, rnd.choice(_PLAIN)), rand_val()) for _ in range(rnd.randint(0, 4))]
                    items = [(a, rand_raw_cookie(rnd)[0]) if a.lower() == 'set-cookie' and rnd.random() < 0.5 else (a, b) for a, b in items]      # a raw cookie text in a bulk set: must raise
                    if rnd.random() < 0.7:
                        items = [(a, b) for a, b in items if a.lower() != 'set-cookie']
                    # the argument object: any mapping with items() or any iterable of two-member iterables; the model sees the pairs a list of them holds
                    arg, akind, seq, edit_arg = wrap_pairs(rnd, items)
                    ctx.count('hist_set_headers_arg_' + akind); n_iter += 1
                    hist.append(['set_headers', akind, seq])
                    line = 'setmany ' + (','.join(f'{H(a)}:{H(b)}' for a, b in seq) or '-')
                    # H() of an empty name/value is '-', which the driver maps back to ''
                    bad_at = next((i for i, (a, _) in enumerate(seq) if a.lower() == 'set-cookie'), None)
                    try:
                        resp.set_headers(arg); sess.op(line, 'ok')
                        if bad_at is not None: fail_map = fail_map or 'set_headers with a Set-Cookie item did not raise'
                        applied = seq
                    except HeaderNotSupported:
                        sess.op(line, 'err')
                        if bad_at is None: fail_map = fail_map or 'set_headers raised HeaderNotSupported without a Set-Cookie item'
                        applied = seq[:bad_at] if bad_at is not None else []
                    for a, b in applied:
                        model[a.lower()] = b; mutated = True
                    if edit_arg is not None and rnd.random() < 0.7:      # the caller goes on using (clears, extends, rewrites) its own object
                        edit_arg(); hist[-1].append('argument edited afterwards'); ctx.count('hist_argument_edited_after_call')
                    for a, _ in seq[:3]:
                        if a.lower() != 'set-cookie':
                            readback(a.lower())
                elif op == 'prop':
                    attr = rnd.choice(PROP_NAMES); hname, gen, ref = PROPS[attr]; v = gen()
                    arg = v; edit_arg = None
                    if attr in ('cache_control', 'vary'):
                        # the members come in some kind of iterable (the model and the oracle see the list of the items it yields)
                        if rnd.random() < 0.25: v = [rnd.choice(['no-cache', 'Accept', 'max-age=0', '', 'X-A', 'a, b']) for _ in range(rnd.randint(0, 4))]
                        arg, akind, v, edit_arg = wrap_iterable(rnd, v)
                        hist.append(['prop', attr, v, 'as ' + akind])
                        ctx.count('hist_prop_iterable_' + akind); n_iter += 1
                    elif attr == 'content_range' and rnd.random() < 0.4:
                        arg = list(v); hist.append(['prop', attr, v, 'as list']); n_iter += 1
                        def edit_arg(o=arg):
                            o.clear()
                    else:
                        hist.append(['prop', attr, v])
                    setattr(resp, attr, arg)
                    want = ref(v)
                    sess.op(f'pset {H(hname)} {H(want)}', 'ok')
                    model[hname] = want; mutated = True
                    if edit_arg is not None and rnd.random() < 0.7:
                        edit_arg(); hist[-1].append('argument edited afterwards'); ctx.count('hist_argument_edited_after_call')
                    got = getattr(resp, attr)
                    if got != want:
                        fail_map = fail_map or f'resp.{attr} = {v!r}; resp.{attr} reads {got!r}, expected {want!r}'
                        if arg is not v: fail_iter = fail_iter or f'resp.{attr} = <{hist[-1][3]}> of {v!r}; resp.{attr} reads {got!r}, a list of the same items gives {want!r}'
                    if got is not None and type(got) is not str: fail_snap = fail_snap or f'resp.{attr} reads a {type(got).__name__}'
                    readback(hname)
                elif op == 'prop_none':
                    attr = rnd.choice(PROP_NAMES); hname = PROPS[attr][0]
                    hist.append(['prop_none', attr])
                    setattr(resp, attr, None); sess.op(f'pdel {H(hname)}', 'ok')
                    model.pop(hname, None); mutated = True
                    if getattr(resp, attr) is not None: fail_map = fail_map or f'resp.{attr} = None; still reads {getattr(resp, attr)!r}'
                    readback(hname)
                elif op == 'prop_del':
                    attr = rnd.choice(PROP_NAMES); hname = PROPS[attr][0]
                    hist.append(['prop_del', attr])
                    try:
                        delattr(resp, attr)
                        sess.op(f'pdel {H(hname)}', 'ok')
                        if hname not in model: fail_map = fail_map or f'del resp.{attr} on an absent header did not raise KeyError'
                        model.pop(hname, None); mutated = True
                    except KeyError:
                        if hname in model: fail_map = fail_map or f'del resp.{attr} raised KeyError although the header is set'
                    readback(hname)
                elif op == 'link':
                    tgt = gen_uri(); rel = rnd.choice(['next', 'prev', 'http://example.com/ext', 'alternate http://example.com/é x'])
                    kw = {}
                    if rnd.random() < 0.4: kw['title'] = rnd.choice(['A title', 'x'])
                    if rnd.random() < 0.3: kw['hreflang'] = rnd.choice(['en', ['en', 'de']])
                    if rnd.random() < 0.3: kw['type_hint'] = 'text/html'
                    hist.append(['link', tgt, rel, kw])
                    before = model.get('link')
                    ckw = dict(kw)
                    if isinstance(kw.get('hreflang'), list):      # the language tags in some kind of (ordered) iterable
                        ckw['hreflang'], akind, _, _ = wrap_iterable(rnd, kw['hreflang'], ['list', 'tuple', 'generator', 'map', 'iter', 'reversed', 'oneshot_obj', 'reiter_obj', 'dict_keys', 'deque'])
                        if akind == 'reversed': ckw['hreflang'] = reversed(kw['hreflang'][::-1])
                        hist[-1].append('hreflang as ' + akind); n_iter += 1
                    resp.append_link(tgt, rel, **ckw)
                    got = resp.get_header('Link')
                    # map view: append_link is an append on the 'link' key with some rendered value
                    if got is None or (before is not None and not got.startswith(before + ', ')):
                        fail_map = fail_map or f'append_link: Link header {got!r} does not extend {before!r}'
                        new = got or ''
                    else:
                        new = got if before is None else got[len(before) + 2:]
                    if '<' + ref_uri(tgt) + '>' not in new: fail_map = fail_map or f'append_link({tgt!r}): target not rendered as <{ref_uri(tgt)}> in {new!r}'
                    if isinstance(kw.get('hreflang'), list) and '; ' + '; '.join('hreflang=' + l for l in kw['hreflang']) not in new:
                        fail_iter = fail_iter or f'append_link(hreflang=<{hist[-1][-1]}> of {kw["hreflang"]!r}): the tags are not rendered one by one in {new!r}'
                    sess.op(f'append {H("Link")} {H(new)}', 'ok')
                    model['link'] = new if before is None else before + ', ' + new
                    mutated = True
                    readback('link')
                elif op == 'cookie':
                    name = rnd.choice(['c1', 'c2', 'sid', 'A!#$%&*+-.^_`|~', 'n:m', 'bad name', 'expires'])
                    val = rand_cookie_value(rnd); kw = rand_cookie_kwargs(rnd)
                    hist.append(['set_cookie', name, val, kw])
                    valid = same_site_valid(kw.get('same_site'))
                    legal = cookie_name_legal(name)
                    try:
                        resp.set_cookie(name, val, **kw)
                        ok = True
                        if not legal: fail_attr = fail_attr or f'set_cookie({name!r}) did not raise KeyError for a name the request API cannot read back'
                        elif not valid: fail_attr = fail_attr or f'set_cookie(same_site={kw.get("same_site")!r}) did not raise ValueError'
                    except ValueError:
                        ok = False
                        if valid or not legal: fail_attr = fail_attr or f'set_cookie({name!r}, {val!r}, {kw}) raised ValueError'
                    except KeyError:
                        ok = False
                        if legal: fail_attr = fail_attr or f'set_cookie({name!r}, {val!r}, {kw}) raised KeyError for a legal name'
                    calls.append(('set', name, set_cookie_value(val, kw)) if ok else ('failed', name, None))
                    line = cookie_line_of(name)
                    if line is not None:
                        jar[:] = [e for e in jar if e[0] != name] + [[name, ('set', kw) if ok else ('failed', kw)]]
                        sess.op(f'cookie {H(name)} {H(norm_cookie_line(line))}', 'ok'); mutated = True
                    elif ok:
                        fail_emit = fail_emit or f'set_cookie({name!r}) succeeded but no Set-Cookie line for it is emitted'
                elif op == 'unset':
                    name = rnd.choice(['c1', 'c2', 'sid', 'gone'])
                    kw = {}
                    if rnd.random() < 0.4: kw['samesite'] = rnd.choice(['Lax', 'Strict', 'None', ''])
                    if rnd.random() < 0.3: kw['domain'] = rnd.choice(['example.com', ''])
                    if rnd.random() < 0.3: kw['path'] = rnd.choice(['/', '/a'])
                    hist.append(['unset_cookie', name, kw])
                    resp.unset_cookie(name, **kw)
                    calls.append(('unset', name, None))
                    line = cookie_line_of(name)
                    if line is None:
                        fail_emit = fail_emit or f'unset_cookie({name!r}) emitted no Set-Cookie line'
                    else:
                        for e in jar:
                            if e[0] == name:
                                e[1] = ('unset', kw); break
                        else:
                            jar.append([name, ('unset', kw)])
                        sess.op(f'uncookie {H(name)} {H(norm_cookie_line(line))}', 'ok'); mutated = True
                elif op == 'snap':
                    # a reader of the header stores hands an OBJECT to its caller: the resp.headers mapping, the emitted header lists.  The caller owns it:
                    # it may keep it across later response operations and it may edit it (redact a value before logging, pop an entry, add bookkeeping).
                    kind = rnd.choice(['headers', 'headers', 'headers', 'wsgi', 'asgi' if asgi else 'wsgi'])
                    obj = resp.headers if kind == 'headers' else (falcon.Response._wsgi_headers(resp) if kind == 'wsgi' else resp._asgi_headers())
                    fail_snap = fail_snap or reader_type_problem(kind, obj)
                    if kind == 'headers':
                        sess.op('headers', 'hdrs ' + ';'.join(f'{H(k)}={H(v)}' for k, v in obj.items()))
                        if obj != model: fail_map = fail_map or f'resp.headers = {obj!r}, map holds {model!r}'
                        again = resp.headers
                        if again is obj: fail_snap = fail_snap or 'two reads of resp.headers returned the very same object (documented: a new copy each time)'
                    else:
                        dec = [(k.decode('latin-1'), v.decode('latin-1')) for k, v in obj] if kind == 'asgi' else list(obj)
                        if (kind == 'asgi') == asgi:      # the driver's emit is the list of this response's own stack
                            sess.op('emit', 'hdrs ' + ';'.join(f'{H(k)}={H(norm_cookie_line(v) if k == "set-cookie" and v not in raw else v)}' for k, v in dec))
                    frozen = dict(obj) if kind == 'headers' else list(obj)
                    edits = []
                    if rnd.random() < 0.65:
                        try:
                            for _ in range(rnd.randint(1, 3)):
                                edits.append(apply_edit(rnd, obj, frozen, _EDIT_NAMES, ['***', 'access-log', 'edited=1', '']))
                        except Exception as e:  # noqa
                            fail_snap = fail_snap or f'editing the {kind} object a reader returned raised {type(e).__name__}: {e}'
                    hist.append(['snapshot', kind, 'kept' if not edits else 'edited: ' + ','.join(edits)])
                    ctx.count('hist_snapshot_' + kind + ('_edited' if edits else '_kept'))
                    snaps.append([kind, obj, frozen, edits])
                else:  # emit mid-history (no default media type: must not change anything)
                    hist.append(['emit'])
                    if asgi:
                        out = [(k.decode('latin-1'), v.decode('latin-1')) for k, v in resp._asgi_headers()]
                    else:
                        out = list(resp._wsgi_headers())
                    sess.op('emit', 'hdrs ' + ';'.join(f'{H(k)}={H(norm_cookie_line(v) if k == "set-cookie" and v not in raw else v)}' for k, v in out))
            except Exception as e:  # noqa
                fail_map = fail_map or f'{hist[-1] if hist else op} raised {type(e).__name__}: {e}'
            for si, (kind, obj, frozen, edits) in enumerate(snaps):
                if obj != frozen and not fail_snap:
                    fail_snap = (f'the {kind} object returned by read #{si + 1} ({"edited by its owner: " + ",".join(edits) if edits else "not touched by its owner"}) changed when the response was modified '
                                 f'later ({hist[-1]!r}): it now holds {obj!r}, its owner left it as {frozen!r}')
            if fail_map:
                break

        # final: read every header of the map in three casings, resp.headers, and emit on both stacks
        if not fail_map:
            for k in list(model)[:8]:
                readback(k)
            hv = resp.headers
            if hv != model:
                fail_map = f'resp.headers = {hv!r}, map holds {model!r}'
        outs = {}
        fail_plain = None
        try:
            outs['wsgi'] = list(falcon.Response._wsgi_headers(resp))
            if asgi:
                raw_asgi = resp._asgi_headers()
                if not all(isinstance(k, bytes) and isinstance(v, bytes) for k, v in raw_asgi):
                    fail_emit = fail_emit or 'ASGI header list contains non-bytes'
                if any(k != k.lower() for k, _ in raw_asgi):
                    fail_emit = fail_emit or f'ASGI header name not lower-case: {[k for k, _ in raw_asgi if k != k.lower()]}'
                outs['asgi'] = [(k.decode('latin-1'), v.decode('latin-1')) for k, v in raw_asgi]
        except Exception as e:  # noqa
            fail_emit = fail_emit or f'emission raised {type(e).__name__}: {e}'
        main_out = outs.get('asgi' if asgi else 'wsgi')
        if main_out is not None:
            sess.op('emit', 'hdrs ' + ';'.join(f'{H(k)}={H(norm_cookie_line(v) if k == "set-cookie" and v not in raw else v)}' for k, v in main_out))
        for stack, out in outs.items():
            plain = [(k, v) for k, v in out if k.lower() != 'set-cookie']
            names = [k.lower() for k, _ in plain]
            if len(set(names)) != len(names):
                fail_plain = fail_plain or f'{stack}: a plain header is emitted more than once: {names}'
            elif dict((k.lower(), v) for k, v in plain) != model:
                fail_plain = fail_plain or f'{stack}: emitted plain headers {plain!r} != map {model!r}'
            fail_emit = fail_emit or fail_plain
            sc = [v for k, v in out if k.lower() == 'set-cookie']
            fail_order = fail_order or cookie_order_verdict(calls, sc, stack)
            ok_jar = [e for e in jar if e[1][0] != 'failed']
            n_failed = len(jar) - len(ok_jar)
            if not (len(raw) + len(ok_jar) <= len(sc) <= len(raw) + len(ok_jar) + n_failed):
                fail_emit = fail_emit or f'{stack}: {len(sc)} Set-Cookie lines for {len(raw)} raw appends + {len(ok_jar)} cookies: {sc!r}'
            else:
                rest = list(sc)
                for r in raw:
                    if r in rest: rest.remove(r)
                    else: fail_emit = fail_emit or f'{stack}: raw cookie line {r!r} is not emitted as its own line: {sc!r}'
                for name, (kind, kw) in jar:
                    mine = [l for l in rest if l.split('=', 1)[0] == name]
                    if kind == 'failed':
                        continue
                    if len(mine) != 1:
                        fail_emit = fail_emit or f'{stack}: cookie {name!r} has {len(mine)} lines: {sc!r}'
                        continue
                    if stack == 'wsgi':
                        if kind == 'set':
                            w = check_cookie_line(mine[0], name, kw, default_secure)
                            if w: fail_attr = fail_attr or w + f' [{mine[0]}]'
                        else:
                            w = check_unset_line(mine[0], name, kw)
                            if w: fail_unset = fail_unset or w + f' [{mine[0]}]'
        if 'asgi' in outs and 'wsgi' in outs and not fail_order:
            seq = {st: [norm_cookie_line(v) for k, v in o_ if k.lower() == 'set-cookie'] for st, o_ in outs.items()}
            if seq['asgi'] != seq['wsgi']:
                fail_order = (f'the same response object hands its Set-Cookie lines to an ASGI server in a different order than to a WSGI server: '
                              f'asgi {seq["asgi"]!r}, wsgi {seq["wsgi"]!r}')
        case = {'stack': 'asgi' if asgi else 'wsgi', 'secure_cookies_by_default': default_secure, 'history': hist}
        ctx.oracle(ORA_MAP, fail_map is None, fail_map, case)
        ctx.oracle(ORA_EMIT, fail_emit is None, fail_emit, case)
        if snaps:
            # the model never saw what the owners of the returned objects did to them: everything read and emitted above was compared with it; here the objects themselves
            for si, (kind, obj, frozen, edits) in enumerate(snaps):
                if obj != frozen and not fail_snap:
                    fail_snap = f'the {kind} object returned by read #{si + 1} holds {obj!r} at the end of the history, its owner left it as {frozen!r}'
            if any(e for _, _, _, e in snaps) and not fail_snap and (fail_map or fail_plain):
                fail_snap = 'after the owner of a returned object edited it (' + '; '.join(f'{k}: {",".join(e)}' for k, _, _, e in snaps if e) + f'), the response differs from the history of its own operations: {fail_map or fail_plain}'
            ctx.oracle(ORA_SNAP, fail_snap is None, fail_snap, case)
        elif fail_snap:
            ctx.oracle(ORA_SNAP, False, fail_snap, case)
        if n_iter:
            if not fail_iter and fail_map and any('argument edited afterwards' in h for h in hist):
                fail_iter = f'after the caller edited the argument object of an earlier setter call the response differs from the history of its operations: {fail_map}'
            ctx.oracle(ORA_ITER, fail_iter is None, fail_iter, case)
        if raw:
            for stack, out in outs.items():
                sc_all = [v for k, v in out if k.lower() == 'set-cookie']
                if sc_all[:len(raw)] != raw and not fail_raw:
                    # falcon documents (and Hd.one_line_per_cookie_and_per_raw_append proves of the model) that the raw lines precede the cookie-API lines;
                    # the statement itself only asks for one separate unchanged line per append: judge the multiset and the relative order
                    rest = list(sc_all); pos = []
                    for r in raw:
                        if r in rest:
                            i = rest.index(r); pos.append(i); rest[i] = None
                        else:
                            fail_raw = (f'{stack}: the raw cookie {r!r} was appended once but no Set-Cookie line handed to the server is identical to it; '
                                        f'{len(sc_all)} Set-Cookie lines for {len(raw)} raw appends + {len(jar)} API cookies: {sc_all!r}')
                            break
                    else:
                        if pos != sorted(pos): fail_raw = f'{stack}: raw cookie lines are not emitted in append order: appended {raw!r}, emitted {sc_all!r}'
            if not fail_raw and fail_emit and 'Set-Cookie lines for' in fail_emit: fail_raw = fail_emit
            ctx.oracle(ORA_RAW, fail_raw is None, fail_raw, case)
        if calls:
            ctx.oracle(ORA_ORDER, fail_order is None, fail_order, case)
            names_raw = {n for k, n, _ in calls if k == 'raw'}; names_api = {n for k, n, _ in calls if k != 'raw'}
            if names_raw & names_api: ctx.count('hist_raw_and_api_calls_on_one_cookie_name' + ('_asgi' if asgi else '_wsgi'))
        if any(h[0] == 'set_cookie' for h in hist):
            ctx.oracle(ORA_ATTR, fail_attr is None, fail_attr, case)
        if any(h[0] == 'unset_cookie' for h in hist):
            ctx.oracle(ORA_UNSET, fail_unset is None, fail_unset, case)
        ctx.seen(('h', asgi, repr(hist)), mutated)
        ctx.count('hist_asgi' if asgi else 'hist_wsgi')
    sess.finish()


# ------------------------------------------------------------------ 1b. returned objects, argument objects and raw cookies through full apps

ORA_APP = ('full app: the header list handed to start_response / ASGI send holds each plain header of the responder\'s history exactly once with the value a case-insensitive map '
           'holds (ASGI: lower-case bytes names), one Set-Cookie line per raw append and per cookie - whatever middleware does with the objects the readers handed to it')


def _app_objects(ctx):
    """One script of header operations is played by a responder of a WSGI app and of an ASGI app.  A middleware (process_response) and the responder itself read
    resp.headers, keep what they get and edit it as an access log / a debugging hook would; setters are given one-shot iterables; raw upstream cookies are relayed.
    What the server receives is compared with the map of the responder's own operations."""
    import falcon
    import falcon.asgi
    from lib_httpdrive import wsgi_call, AsgiDriver
    rnd = ctx.rng
    script = {}

    def play(resp):
        st = script['state'] = {'snaps': [], 'problems': []}
        for op in script['ops']:
            k = op[0]
            if k == 'set': resp.set_header(op[1], op[2])
            elif k == 'append': resp.append_header(op[1], op[2])
            elif k == 'delete': resp.delete_header(op[1])
            elif k == 'raw': resp.append_header(op[1], op[2])
            elif k == 'cookie': resp.set_cookie(op[1], op[2])
            elif k == 'prop':
                arg, _, eff, edit = wrap_iterable(rnd, op[3], [op[2]])
                if eff != op[4]: st['problems'].append(f'harness: {op[2]} of {op[3]!r} yields {eff!r}')
                setattr(resp, op[1], arg)
                if edit is not None and op[5]: edit()
            elif k == 'set_headers':
                arg, _, eff, edit = wrap_pairs(rnd, op[2], [op[1]])
                resp.set_headers(arg)
                if edit is not None and op[3]: edit()
            elif k == 'read':
                look(resp, st, op[1], 'responder')

    def look(resp, st, n_edits, who):
        h = resp.headers
        w = reader_type_problem('headers', h)
        if w: st['problems'].append(w)
        frozen = dict(h); edits = []
        for _ in range(n_edits):
            edits.append(apply_edit(rnd, h, frozen, _EDIT_NAMES, ['***', 'access-log', '']))
        st['snaps'].append([who, h, frozen, edits])

    class Mw:
        def process_response(self, req, resp, resource, req_succeeded):
            for n in script['mw']: look(resp, script['state'], n, 'middleware')

        async def process_response_async(self, req, resp, resource, req_succeeded):
            for n in script['mw']: look(resp, script['state'], n, 'middleware')

    class Res:
        def on_get(self, req, resp):
            play(resp); resp.text = 'ok'

    class ResA:
        async def on_get(self, req, resp):
            play(resp); resp.text = 'ok'

    wapp = falcon.App(middleware=[Mw()]); wapp.add_route('/o', Res())
    aapp = falcon.asgi.App(middleware=[Mw()]); aapp.add_route('/o', ResA())
    drv = AsgiDriver()
    NAMES = ['X-A', 'X-B', 'X-Upload-Token', 'Cache-Control', 'Vary', 'ETag', 'Allow', 'X-Logged-By']
    try:
        for ci in range(ctx.n(2500, 40000)):
            ops = []; model = {}; raws = []; cookies = {}
            has_iter = False
            for _ in range(rnd.randint(1, 7)):
                k = rnd.choice(['set', 'set', 'append', 'delete', 'raw', 'raw', 'cookie', 'prop', 'prop', 'set_headers', 'read', 'read'])
                if k in ('set', 'append', 'delete'):
                    n = rand_case(rnd, rnd.choice(NAMES)); v = rnd.choice(['1', 'tok-12345', 'a, b', 'no-store', 'x=1,y=2', ''])
                    ops.append([k, n, v])
                    if k == 'set': model[n.lower()] = v
                    elif k == 'append': model[n.lower()] = model[n.lower()] + ', ' + v if n.lower() in model else v
                    else: model.pop(n.lower(), None)
                elif k == 'raw':
                    rawv, rcls = rand_raw_cookie(rnd)
                    ops.append(['raw', rand_case(rnd, 'set-cookie'), rawv]); raws.append(rawv); ctx.count('app_raw_' + rcls)
                elif k == 'cookie':
                    n = rnd.choice(['theme', 'uid']); v = rnd.choice(['dark', '42', 'a b'])
                    ops.append(['cookie', n, v]); cookies.pop(n, None); cookies[n] = v
                elif k == 'prop':
                    attr = rnd.choice(['vary', 'cache_control'])
                    members = [rnd.choice(['Accept', 'Accept-Encoding', 'X-Tenant', 'private', 'max-age=60', 'must-revalidate', '*', '']) for _ in range(rnd.randint(0, 4))]
                    kind = rnd.choice(ITER_KINDS)
                    eff = wrap_iterable(rnd, members, [kind])[2]
                    if kind in ('set', 'frozenset'): members = eff = eff[:1]        # one member: the traversal order of a str set differs between processes, not within one
                    ops.append(['prop', attr, kind, members, eff, rnd.random() < 0.7])
                    model[attr.replace('_', '-')] = ', '.join(eff); has_iter = True; ctx.count('app_prop_iterable_' + kind)
                elif k == 'set_headers':
                    pairs = [(rand_case(rnd, rnd.choice(NAMES)), rnd.choice(['1', 'v', 'a, b'])) for _ in range(rnd.randint(0, 3))]
                    kind = rnd.choice(PAIR_KINDS)
                    eff = wrap_pairs(rnd, pairs, [kind])[2]
                    ops.append(['set_headers', kind, pairs, rnd.random() < 0.7])
                    for a, b in eff: model[a.lower()] = b
                    has_iter = True; ctx.count('app_set_headers_arg_' + kind)
                else:
                    ops.append(['read', rnd.choice([0, 0, 1, 2])])
            script['ops'] = ops
            script['mw'] = [rnd.choice([0, 1, 2, 3]) for _ in range(rnd.choice([0, 1, 1, 2]))]
            reads = [o for o in ops if o[0] == 'read'] or script['mw']
            case = {'ops': ops, 'middleware_reads_resp_headers_then_edits_its_copy': script['mw']}
            lines = {}
            for stack in ('wsgi', 'asgi'):
                fail = fail_snap = fail_raw = None
                try:
                    if stack == 'wsgi': status, hdrs, _ = wsgi_call(wapp, 'GET', b'/o')
                    else: status, hdrs, _, _ = drv.call(aapp, 'GET', b'/o')
                except Exception as e:  # noqa
                    ctx.oracle(ORA_APP, False, f'{stack}: the request raised {type(e).__name__}: {e}', case); continue
                st = script['state']
                if status != 200: fail = f'{stack}: status {status}'
                plain = [(k, v) for k, v in hdrs if k.lower() not in ('set-cookie', 'content-type', 'content-length')]
                names = [k.lower() for k, _ in plain]
                if stack == 'asgi' and any(k != k.lower() for k, _ in hdrs):
                    fail = fail or f'asgi: header names handed to the server are not all lower-case: {[k for k, _ in hdrs if k != k.lower()]}'
                if len(set(names)) != len(names): fail = fail or f'{stack}: a plain header is handed to the server more than once: {names}'
                elif dict((k.lower(), v) for k, v in plain) != model: fail = fail or f'{stack}: plain headers handed to the server {plain!r} != map of the responder\'s operations {model!r}'
                sc = [v for k, v in hdrs if k.lower() == 'set-cookie']
                if sc[:len(raws)] != raws:
                    fail_raw = f'{stack}: raw cookies appended {raws!r}; Set-Cookie lines handed to the server {sc!r}: not one identical line per append, in order'
                elif len(sc) != len(raws) + len(cookies):
                    fail_raw = f'{stack}: {len(sc)} Set-Cookie lines for {len(raws)} raw appends + {len(cookies)} cookies: {sc!r}'
                for who, h, frozen, edits in st['snaps']:
                    if h != frozen:
                        fail_snap = fail_snap or f'{stack}: the mapping the {who} got from resp.headers (own edits: {edits}) changed when the response was modified later: {h!r}, its owner left it as {frozen!r}'
                if st['problems']: fail_snap = fail_snap or f'{stack}: ' + '; '.join(st['problems'])
                edited = any(e for _, _, _, e in st['snaps'])
                if fail and edited: fail_snap = fail_snap or f'after the owners of mappings read from resp.headers edited their copies ({[e for _, _, _, e in st["snaps"] if e]}): ' + fail
                ctx.oracle(ORA_APP, fail is None and fail_raw is None, fail or fail_raw, dict(case, stack=stack))
                if reads: ctx.oracle(ORA_SNAP, fail_snap is None, fail_snap, dict(case, stack=stack))
                if has_iter: ctx.oracle(ORA_ITER, fail is None, fail, dict(case, stack=stack))
                if raws: ctx.oracle(ORA_RAW, fail_raw is None, fail_raw, dict(case, stack=stack))
                lines[stack] = sc
                ctx.count('app_objects_' + stack)
            ctx.seen(('ao', repr(ops), repr(script['mw'])), bool(model or raws or cookies))
    finally:
        drv.close()


# ------------------------------------------------------------------ 2. cookies through full apps, echoed back through the request API

def _cookies(ctx):
    import falcon
    import falcon.asgi
    import falcon.testing as ft
    from lib_httpdrive import wsgi_call, AsgiDriver
    rnd = ctx.rng
    script = {'ops': [], 'errors': [], 'seen': None}

    def play(resp):
        for op in script['ops']:
            try:
                if op[0] == 'set':
                    resp.set_cookie(op[1], op[2], **op[3])
                elif op[0] == 'unset':
                    resp.unset_cookie(op[1], **op[2])
                else:
                    resp.append_header(op[1], op[2])
                script['errors'].append(None)
            except (ValueError, KeyError, OverflowError) as e:
                script['errors'].append(type(e).__name__)

    def read(req, names):
        script['seen'] = {n: (req.cookies.get(n), req.get_cookie_values(n)) for n in names}
        script['seen']['__all__'] = dict(req.cookies)

    class Res:
        def on_get(self, req, resp):
            play(resp)

        def on_post(self, req, resp):
            read(req, script['names'])

    class ResA:
        async def on_get(self, req, resp):
            play(resp)

        async def on_post(self, req, resp):
            read(req, script['names'])

    apps = {}
    for dflt in (True, False):
        w = falcon.App(); w.resp_options.secure_cookies_by_default = dflt; w.add_route('/c', Res())
        a = falcon.asgi.App(); a.resp_options.secure_cookies_by_default = dflt; a.add_route('/c', ResA())
        apps[('wsgi', dflt)] = w; apps[('asgi', dflt)] = a
    drv = AsgiDriver()
    NAMES = ['a', 'b', 'sid', 'A!#$%&*+-.^_`|~', 'x.y', '$v', "q'r", 'n:m', 'n m', 'Path', 'sem;i']
    ORA_ATTR = 'cookie attributes exact'
    ORA_UNSET = 'unset cookie expired'
    ORA_LINES = 'one separate Set-Cookie line per cookie and per appended raw cookie'
    ORA_ECHO = 'cookie echo: request API reads the same name and value'
    ORA_UA_VALUE = 'cookie value content: a recipient of the emitted Set-Cookie line (DQUOTEs stripped, backslash escapes resolved in one left-to-right pass) holds the value given'
    try:
        # every printable ASCII character inside a cookie name: either rejected with KeyError (not an RFC 6265 token character)
        # or written and read back by the request API under the same name
        for ch in map(chr, range(0x20, 0x7f)):
            name = 'a' + ch + 'b'
            script['ops'] = [['set', name, 'v', {}]]; script['errors'] = []
            stack = rnd.choice(['wsgi', 'asgi'])
            if stack == 'wsgi': _, hdrs, _ = wsgi_call(apps[('wsgi', True)], 'GET', b'/c')
            else: _, hdrs, _, _ = drv.call(apps[('asgi', True)], 'GET', b'/c')
            sc = [v for k, v in hdrs if k.lower() == 'set-cookie']
            what = None
            if not cookie_name_legal(name):
                if script['errors'] != ['KeyError'] or sc: what = f'set_cookie({name!r}) -> {script["errors"]}, emitted {sc}: expected KeyError and no cookie'
            elif script['errors'] != [None] or len(sc) != 1: what = f'set_cookie({name!r}) -> {script["errors"]}, emitted {sc}'
            else:
                script['names'] = [name]; script['seen'] = None
                wsgi_call(apps[('wsgi', True)], 'POST', b'/c', headers={'Cookie': sc[0].split('; ')[0]})
                if script['seen'] is None or script['seen'][name] != ('v', ['v']): what = f'cookie {name!r} echoed as {sc[0]!r} is read as {script["seen"]}'
            ctx.oracle(ORA_ECHO, what is None, what, {'name': name, 'stack': stack})
        for ci in range(ctx.n(8000, 120000)):
            stack = rnd.choice(['wsgi', 'asgi']); dflt = rnd.random() < 0.5
            app = apps[(stack, dflt)]
            ops = []
            for _ in range(rnd.randint(1, 5)):
                r = rnd.random()
                if r < 0.7:
                    ops.append(['set', rnd.choice(NAMES), rand_cookie_value(rnd, ctx.count), rand_cookie_kwargs(rnd, rejects=True)])
                    if ops[-1][3].get('max_age') is not None: ctx.count('cookie_max_age_' + max_age_class(ops[-1][3]['max_age']))
                elif r < 0.85:
                    kw = {}
                    if rnd.random() < 0.4: kw['samesite'] = rnd.choice(['Lax', 'Strict', 'None', ''])
                    if rnd.random() < 0.3: kw['domain'] = 'example.com'
                    if rnd.random() < 0.3: kw['path'] = rnd.choice(['/', '/a'])
                    ops.append(['unset', rnd.choice(NAMES[:7]), kw])
                elif rnd.random() < 0.5:
                    rawv, rcls = rand_raw_cookie(rnd)
                    ops.append(['raw', rand_case(rnd, 'set-cookie'), rawv]); ctx.count('cookie_raw_' + rcls)
                    if comma_name_eq(rawv): ctx.count('cookie_raw_with_comma_then_name_eq')
                elif rnd.random() < 0.3:
                    ops.append(['raw', rand_case(rnd, 'set-cookie'), rnd.choice(['r=1', 'raw=x; Path=/', 'r2="a b"'])])
                else:       # a raw line for a name the cookie API is also used with (a proxied upstream cookie that is then replaced / unset)
                    ops.append(['raw', rand_case(rnd, 'set-cookie'), rnd.choice(NAMES[:7]) + rnd.choice(['=rawv%d', '=rawv%d; Path=/', '="raw v%d"; HttpOnly', '=rawv%d; Max-Age=60']) % len(ops)])
            script['ops'] = ops; script['errors'] = []
            if stack == 'wsgi':
                status, hdrs, _ = wsgi_call(app, 'GET', b'/c')
            else:
                status, hdrs, _, rawh = drv.call(app, 'GET', b'/c')
            errs = script['errors']
            case = {'stack': stack, 'secure_cookies_by_default': dflt, 'ops': ops}
            fail_lines = fail_attr = fail_unset = None
            if status != 200:
                fail_lines = f'status {status}'
            sc = [v for k, v in hdrs if k.lower() == 'set-cookie']
            if stack == 'asgi' and any(k != k.lower() for k, _ in hdrs):
                fail_lines = fail_lines or 'ASGI header names not lower-case'
            # expected jar: last successful op per name
            last = {}
            failed_names = set()
            raws = []
            for op, err in zip(ops, errs):
                if op[0] == 'raw':
                    raws.append(op[2]); continue
                if op[0] == 'set':
                    valid = same_site_valid(op[3].get('same_site'))
                    legal = cookie_name_legal(op[1])
                    ma = max_age_reading(op[3]['max_age']) if op[3].get('max_age') is not None else None
                    if not legal:
                        if err != 'KeyError':
                            fail_attr = fail_attr or f'set_cookie({op[1]!r}) -> {err}: expected KeyError for a name the request API cannot read back'
                    elif ma is not None and ma[0] == 'reject':
                        # the value denotes no integer number of seconds: the documented coercion to int fails
                        if err not in ma[1]:
                            fail_attr = fail_attr or (f'set_cookie(max_age={op[3]["max_age"]!r}) ' + ('was accepted' if err is None else f'raised {err}') +
                                                      f': no integer is denoted, the coercion to int must fail with {" / ".join(ma[1])}')
                    elif valid and err:
                        fail_attr = fail_attr or f'set_cookie({op[1]!r}, {op[2]!r}, {op[3]}) raised {err}'
                    elif not valid and err != 'ValueError':
                        fail_attr = fail_attr or f'set_cookie(same_site={op[3].get("same_site")!r}) did not raise ValueError'
                    if err:
                        failed_names.add(op[1]); last.pop(op[1], None)
                    else:
                        failed_names.discard(op[1]); last[op[1]] = op
                else:
                    failed_names.discard(op[1]); last[op[1]] = op
            rest = list(sc)
            for r in raws:
                if r in rest: rest.remove(r)
                else: fail_lines = fail_lines or f'raw cookie {r!r} is not emitted as its own line: {sc!r}'
            if not (len(last) <= len(rest) <= len(last) + len(failed_names)):
                fail_lines = fail_lines or f'{len(sc)} Set-Cookie lines for {len(raws)} raw + {len(last)} cookies: {sc!r}'
            pairs = {}
            for name, op in last.items():
                mine = [l for l in rest if l.split('=', 1)[0] == name]
                if len(mine) != 1:
                    fail_lines = fail_lines or f'cookie {name!r} has {len(mine)} lines: {sc!r}'
                    continue
                if op[0] == 'set':
                    w = check_cookie_line(mine[0], name, op[3], dflt)
                    if w: fail_attr = fail_attr or w + f' [{mine[0]}]'
                    pairs[name] = (mine[0].split('; ')[0], op[2])
                else:
                    w = check_unset_line(mine[0], name, op[2])
                    if w: fail_unset = fail_unset or w + f' [{mine[0]}]'
            ctx.oracle(ORA_LINES, fail_lines is None, fail_lines, case)
            if raws:
                fail_raw = None; rest2 = list(sc); pos = []
                for r in raws:
                    if r in rest2:
                        i = rest2.index(r); pos.append(i); rest2[i] = None
                    else:
                        fail_raw = (f'{stack}: the raw cookie {r!r} was appended once but no Set-Cookie line handed to the server is identical to it; {len(sc)} Set-Cookie lines for '
                                    f'{len(raws)} raw appends + {len(last)} API cookies: {sc!r}')
                        break
                else:
                    if pos != sorted(pos): fail_raw = f'{stack}: raw cookie lines are not emitted in append order: appended {raws!r}, emitted {sc!r}'
                    elif len(sc) > len(raws) + len(last) + len(failed_names): fail_raw = f'{stack}: {len(sc)} Set-Cookie lines for {len(raws)} raw appends + {len(last)} API cookies: {sc!r}'
                ctx.oracle(ORA_RAW, fail_raw is None, fail_raw, case)
            calls = []
            for op, err in zip(ops, errs):
                if op[0] == 'raw':
                    rc = raw_cookie_value(op[2])
                    if rc: calls.append(('raw',) + rc)
                elif op[0] == 'set': calls.append(('failed', op[1], None) if err else ('set', op[1], set_cookie_value(op[2], op[3])))
                else: calls.append(('failed' if err else 'unset', op[1], None))
            fail_order = cookie_order_verdict(calls, sc, stack) if status == 200 and len(errs) == len(ops) else None
            ctx.oracle(ORA_ORDER_NAME, fail_order is None, fail_order, case)
            if {n for k, n, _ in calls if k == 'raw'} & {n for k, n, _ in calls if k != 'raw'}: ctx.count('cookie_raw_and_api_calls_on_one_name_' + stack)
            if any(o[0] == 'set' for o in ops):
                ctx.oracle(ORA_ATTR, fail_attr is None, fail_attr, case)
            if any(o[0] == 'unset' for o in ops):
                ctx.oracle(ORA_UNSET, fail_unset is None, fail_unset, case)
            # echo: what a user agent would send back (cookie-pair as received), read by the request API of the other or same stack
            if pairs:
                order = list(pairs); rnd.shuffle(order)
                hdr = '; '.join(pairs[n][0] for n in order)
                estack = rnd.choice(['wsgi', 'asgi'])
                script['names'] = order; script['seen'] = None
                try:
                    if estack == 'wsgi':
                        wsgi_call(apps[('wsgi', dflt)], 'POST', b'/c', headers={'Cookie': hdr})
                    else:
                        drv.call(apps[('asgi', dflt)], 'POST', b'/c', headers={'Cookie': hdr})
                    seen = script['seen']
                except Exception as e:  # noqa
                    seen = None; fail_e = f'echo request raised {type(e).__name__}: {e}'
                fail_echo = None
                if seen is None:
                    fail_echo = 'the echo request did not reach the responder'
                else:
                    for n in order:
                        want = pairs[n][1]
                        got, vals = seen[n]
                        if got != want or vals != [want]:
                            fail_echo = fail_echo or f'cookie {n!r}={want!r} echoed as {pairs[n][0]!r} is read as {got!r} / {vals!r}'
                ctx.oracle(ORA_ECHO, fail_echo is None, fail_echo, dict(case, cookie_header=hdr, echo_stack=estack))
                # the same claim judged without falcon's reader: a recipient of the emitted line that strips the DQUOTEs and resolves the
                # backslash escapes in ONE left-to-right pass holds the value that was given
                fail_ua = None
                for n in order:
                    coded = pairs[n][0].partition('=')[2]
                    if pairs[n][0].partition('=')[0] != n or cookie_dequote(coded) != pairs[n][1]:
                        fail_ua = fail_ua or f'cookie {n!r}={pairs[n][1]!r} is written as {pairs[n][0]!r}, which a recipient reads as {cookie_dequote(coded)!r}'
                ctx.oracle(ORA_UA_VALUE, fail_ua is None, fail_ua, dict(case, cookie_header=hdr))
            ctx.seen(('c', stack, dflt, repr(ops)), bool(sc))
            ctx.count('cookie_' + stack)
    finally:
        drv.close()


# ------------------------------------------------------------------ 2b. the exact text of every cookie line = Cw model (CookieOut.lean)

def cp(s):
    """code points in hex joined by '.', '-' for the empty string (the cwdriver string format)"""
    return '-' if s == '' else '.'.join('%x' % ord(c) for c in s)


def cp_opt(s):
    return 'N' if s is None else cp(s)


def cookie_err_kind(e):
    """exception of set_cookie / unset_cookie -> the model's error kind (class + which check raised)"""
    n = type(e).__name__
    a = e.args[0] if e.args and isinstance(e.args[0], str) else ''
    if n in ('KeyError', 'CookieError'):
        if a == 'name is not ascii encodable': return 'key-ascii'
        if a == 'name contains a reserved character': return 'key-colon'
        if a.startswith('Attempt to set a reserved key'): return 'key-reserved'
        if a.startswith('Illegal key'): return 'key-illegal'
    elif n == 'ValueError':
        if a == 'value is not ascii encodable': return 'value-ascii'
        if a.startswith('same_site must be set'): return 'value-samesite'
        if a.startswith('invalid literal for int()'): return 'value-maxage'
    elif n == 'OverflowError' and a == 'date value out of range':
        return 'overflow'
    return 'other-' + n


def cw_fields(name, value, kw):
    """the ten fields of the driver's `set` / `setcookie` lines for set_cookie(name, value, **kw)"""
    e = kw.get('expires')
    if e is None:
        es = 'N'
    else:
        es = '%d,%d,%d,%d,%d,%d,%s' % (e.year, e.month, e.day, e.hour, e.minute, e.second,
                                       'n' if e.tzinfo is None else '%d' % round(e.utcoffset().total_seconds()))
    m = kw.get('max_age')
    if m is None: ms = 'N'
    elif isinstance(m, int): ms = 'i%d' % m
    elif isinstance(m, str): ms = 's' + cp(m)
    else: ms = 'f%d/%d' % m.as_integer_ratio()
    sec = kw.get('secure')
    return ' '.join([cp(name), cp(value), es, ms, cp_opt(kw.get('domain')), cp_opt(kw.get('path')),
                     'N' if sec is None else '01'[bool(sec)], '01'[bool(kw.get('http_only', True))], cp_opt(kw.get('same_site')),
                     '01'[bool(kw.get('partitioned', False))]])


_CW_NAMES = ['c1', 'c2', 'sid', 'A!#$%&*+-.^_`|~', "q'r", 'n:m', 'bad name', 'expires', 'Path', 'PARTITIONED', 'Max-Age', '', 'né', 'é:x', 'a=b',
             'x;y', '"q"', 'a,b', 'x\x7f', 'café', '日本', 'KK']


def rand_cw_kwargs(rnd):
    """rand_cookie_kwargs plus the corners the model transcribes: the whole datetime range, second-granular offsets, overflow at
    both ends, leap days, max_age strings int() rejects or reads with sign / blanks / underscores, negative floats, non-ASCII same_site"""
    import calendar
    from datetime import datetime, timezone, timedelta
    kw = rand_cookie_kwargs(rnd)
    r = rnd.random()
    if r < 0.25:
        y = rnd.choice([1, 1, 2, 4, 99, 100, 400, 999, 1000, 1600, 1900, 1999, 2000, 2024, 2100, 9999, 9999, rnd.randint(1, 9999)])
        mo = rnd.choice([1, 2, 2, 3, 12, rnd.randint(1, 12)])
        d = rnd.choice([1, calendar.monthrange(y, mo)[1], rnd.randint(1, calendar.monthrange(y, mo)[1])])
        base = datetime(y, mo, d, rnd.choice([0, 23, rnd.randint(0, 23)]), rnd.choice([0, 59, rnd.randint(0, 59)]), rnd.choice([0, 59, rnd.randint(0, 59)]),
                        rnd.choice([0, 999999]))
        if rnd.random() < 0.6:
            off = rnd.choice([0, 1, -1, 59, 3600, -3600, 86399, -86399, 12345, -54321, rnd.randint(-86399, 86399)])
            base = base.replace(tzinfo=timezone.utc if off == 0 and rnd.random() < 0.5 else timezone(timedelta(seconds=off)))
        kw['expires'] = base
    if rnd.random() < 0.15:
        kw['max_age'] = rnd.choice(['abc', '', ' 12 ', '+5', '-3', '1_000', '1__0', '_1', '1.5', '0x10', '\t7\n', '1 2', '-', '\xa05', '\x1c5', '7\x1f', '\x856', -1, -300, 10 ** 20, -0.9, -15.7, 1e20,
                                    2.5, 1e-9, 3.0, '12\xe9'] + [m for m in _MA_NO_INTEGER if isinstance(m, str)])
    if rnd.random() < 0.1:
        kw['same_site'] = rnd.choice(['LaK', 'STRİCT', 'lax ', ' lax', 'n\xf6ne', 'strict\n', 'L', 'laxlax', 'NoNe', 'sTRICT'])
    if rnd.random() < 0.08:
        kw['domain'] = rnd.choice(['a;b', 'x; Secure', 'exa mple', '=', 'D=1'])
    if rnd.random() < 0.08:
        kw['path'] = rnd.choice(['/a; b', '/;', '/=', '/x; HttpOnly', '/"q"'])
    return kw


def _cookie_lines(ctx):
    import time
    import http.cookies
    import falcon
    import falcon.asgi
    from falcon.response import ResponseOptions
    rnd = ctx.rng
    sess = ctx.session('exact Set-Cookie lines of set_cookie / unset_cookie = Cw model', 'cwdriver')
    from falcon.request_helpers import _parse_cookie_header
    from runner import alarm, Hang

    def echo_op(hdr):
        try:
            with alarm(3):
                jar = _parse_cookie_header(hdr)
            got = 'jar ' + (','.join(cp(n) + '=' + '/'.join(cp(v) for v in vs) for n, vs in jar.items()) or '-')
        except Hang:
            got = 'hang'
        except Exception as e:  # noqa
            got = 'raised ' + type(e).__name__
        sess.op('echo ' + cp(hdr), got)

    for ci in range(ctx.n(5000, 80000)):
        asgi = rnd.random() < 0.5
        dflt = rnd.random() < 0.5
        cls = falcon.asgi.Response if asgi else falcon.Response

        def fresh():
            opts = ResponseOptions()
            opts.secure_cookies_by_default = dflt
            return cls(options=opts)

        def lines_of(resp):
            for _ in range(5):
                t0 = int(time.time())
                if asgi:
                    vals = [v.decode('latin-1') for k, v in resp._asgi_headers() if k == b'set-cookie']
                else:
                    vals = [v for k, v in resp._wsgi_headers() if k == 'set-cookie']
                if int(time.time()) == t0:
                    break
            return t0, vals

        resp = fresh()
        ops = []
        sess.case({'stack': 'asgi' if asgi else 'wsgi', 'secure_cookies_by_default': dflt, 'ops': ops})
        sess.op('new ' + '01'[dflt], 'ok')
        some_line = False
        for _ in range(rnd.randint(1, 5)):
            if rnd.random() < 0.72:
                name = rnd.choice(_CW_NAMES[:5]) if rnd.random() < 0.6 else rnd.choice(_CW_NAMES)
                val = rand_cookie_value(rnd, ctx.count)
                if rnd.random() < 0.06:
                    val += rnd.choice(['\xe9', '日', '\x80', '\xff'])
                kw = rand_cw_kwargs(rnd)
                ops.append(['set', name, val, kw])
                fields = cw_fields(name, val, kw)
                ctx.count('cw_set')
                if kw.get('max_age') is not None: ctx.count('cw_max_age_' + max_age_class(kw['max_age']))
                try:
                    resp.set_cookie(name, val, **kw)
                    sess.op('set ' + fields, 'ok')
                except (KeyError, ValueError, OverflowError) as e:
                    sess.op('set ' + fields, 'err ' + cookie_err_kind(e))
                    ctx.count('cw_set_' + cookie_err_kind(e))
                # the same call on a fresh response: the stateless setCookieLine
                one = fresh()
                try:
                    one.set_cookie(name, val, **kw)
                    _, vals = lines_of(one)
                    sess.op(f'setcookie {"01"[dflt]} ' + fields, 'line ' + cp(vals[0]) if len(vals) == 1 else f'{len(vals)} lines')
                    if len(vals) == 1:
                        # the cookie-pair of the line, sent back: the real request parser against Ck.parseCookieHeader (cUnquote)
                        echo_op(vals[0].split('; ')[0]); ctx.count('cw_echo_pair')
                except (KeyError, ValueError, OverflowError) as e:
                    sess.op(f'setcookie {"01"[dflt]} ' + fields, 'err ' + cookie_err_kind(e))
            else:
                name = rnd.choice(['c1', 'c2', 'sid', 'gone', 'n:m', 'expires', 'bad name', '', 'Secure'])
                ss = rnd.choice(['Lax', 'Lax', 'Strict', 'None', '', 'bogus', 'lax'])
                dom = rnd.choice([None, None, 'example.com', ''])
                path = rnd.choice([None, None, '/', '/a', ''])
                ops.append(['unset', name, ss, dom, path])
                ctx.count('cw_unset')
                line = f'unset {cp(name)} {cp(ss)} {cp_opt(dom)} {cp_opt(path)}'
                try:
                    resp.unset_cookie(name, samesite=ss, domain=dom, path=path)
                    sess.op(line, 'ok')
                except http.cookies.CookieError as e:
                    sess.op(line, 'err ' + cookie_err_kind(e))
            t0, vals = lines_of(resp)
            some_line = some_line or bool(vals)
            sess.op(f'emit {t0}', 'lines ' + (','.join(cp(v) for v in vals) or '-'))
            if len(vals) > 1 and rnd.random() < 0.5:
                # all cookies of the response sent back in one Cookie header
                echo_op(rnd.choice(['; ', ';', ' ;  ']).join(v.split('; ')[0] for v in vals)); ctx.count('cw_echo_several_pairs')
        if rnd.random() < 0.25:
            # a Cookie header written by somebody else: quoted strings whose escapes were not produced by the writer (a bare backslash in front
            # of an octal triple / of any character, out-of-range triples, an unterminated escape at the end, quotes inside)
            toks = []
            for _ in range(rnd.randint(1, 3)):
                body, _k = rand_lookalike_value(rnd)
                body = body.replace(';', rnd.choice(['', '\\073']))
                toks.append(rnd.choice(['c1', 'c2', 'sid', 'x']) + '=' + rnd.choice(['"%s"', '"%s"', '"%s"', '%s', '"%s', '%s"', ' "%s" ']) % body)
            echo_op('; '.join(toks)); ctx.count('cw_echo_foreign_quoted_string')
        ctx.seen(('cw', asgi, dflt, repr(ops)), some_line)
        ctx.count('cw_asgi' if asgi else 'cw_wsgi')
    sess.finish()


# ------------------------------------------------------------------ 3. URI-bearing helpers: pure ASCII, decodes back

_U_ALPHA = ['a', 'Z', '0', '/', '/', '?', '=', '&', '#', ' ', '%', '%41', '%zz', '+', ':', '@', ',', ';', '~', '-', '.', '_', '"', "'", '<', '>', '\\', '^', '`', '{', '|', '}',
            'é', 'ü', 'ß', 'Ω', 'я', '日', '本', '語', '😀', '\u200b', '\u202e', 'ÿ', '\x7f', '(', ')', '[', ']', '!', '*', '$',
            '\t', '\n', '\r', '\x00', '\x01', '\x0f', '\x10', '\x1f']   # control characters: the escape is two hex digits also below 0x10
_REL_PATH_ALPHA = [c for c in _U_ALPHA if c not in (' ', '\t', '\n', '\r', '\x00', '\x01', '\x0f', '\x10', '\x1f')] + ['é', '日', 'x', '/', '-']
_F_ALPHA = ['a', 'B', '1', '.', '-', '_', ' ', '(', ')', ',', ';', '%', "'", '+', '=', '&', '/', 'é', 'Å', 'ñ', '日', '本', '😀', '𝟏', 'ﬁ', '"', '\\']


_REL_NAMES = ['next', 'prev', 'alternate', 'self', 'stylesheet', 'up', 'describedby', 'item', 'version-history', 'x.y', 'Next']


def rand_rel(rnd):
    """(rel, classes): 1..3 space-separated relation types (RFC 8288 section 2.1): registered names and extension relation types, the latter as
    absolute URIs (`http://`, `https://`, another scheme with an authority) or as network-path references (`//host/path`, RFC 3986 section 4.2),
    with ASCII, reserved and non-ASCII characters in host and path"""
    members = []; classes = set()
    n = rnd.choice([1, 1, 1, 2, 2, 3])
    for _ in range(n):
        r = rnd.random()
        if r < 0.3:
            members.append(rnd.choice(_REL_NAMES)); classes.add('registered')
            continue
        host = rnd.choice(['example.com', 'example.com', 'é.example', 'x', 'localhost:8080', '日本.example', 'user@h'])
        path = ''.join(rnd.choice(_REL_PATH_ALPHA) for _ in range(rnd.randint(0, 7)))
        if r < 0.65:
            lead = '//'; classes.add('scheme_relative')
        else:
            lead = rnd.choice(['http://', 'https://', 'HTTP://', 'urn-x://', 'a+b.c://']); classes.add('absolute_uri')
        m = lead + host + rnd.choice(['/', '/rels/', '']) + path
        members.append(m)
        if not m.isascii(): classes.add(('scheme_relative' if lead == '//' else 'absolute_uri') + '_non_ascii')
        elif any(c in m for c in '"<>\\^`{|}'): classes.add(('scheme_relative' if lead == '//' else 'absolute_uri') + '_reserved_char')
    if n > 1: classes.add('several_members')
    if n > 1 and 'registered' in classes and len(classes & {'scheme_relative', 'absolute_uri'}) > 0: classes.add('names_and_uris_mixed')
    return rnd.choice([' ', ' ', ' ', '  ']).join(members), sorted(classes)     # RFC 8288: relation types are separated by SP


def rp_list(l):
    """a list of str for the rpdriver: `_` = empty list, else the members (code points) joined by ','"""
    return '_' if not l else ','.join(cp(x) for x in l)


def rp_item(x):
    return 'i%d' % x if isinstance(x, int) else 's' + cp(x)


def rp_link_args(tgt, rel, kw):
    """the ten fields of the rpdriver's `linkv` / `alink` lines for append_link(tgt, rel, **kw)"""
    ts = kw.get('title_star')
    hl = kw.get('hreflang')
    hls = 'N' if hl is None else ('o' + cp(hl) if isinstance(hl, str) else 'm' + rp_list(list(hl)))
    ext = kw.get('link_extension')
    exts = 'N' if ext is None else ('_' if not ext else ','.join(f'{cp(a)}:{cp(b)}' for a, b in ext))
    return ' '.join([cp(tgt), cp(rel), cp_opt(kw.get('title')), 'N' if ts is None else cp(ts[0]), '-' if ts is None else cp(ts[1]),
                     cp_opt(kw.get('anchor')), hls, cp_opt(kw.get('type_hint')), cp_opt(kw.get('crossorigin')), exts])


_RELS = ['next', 'prev', 'http://example.com/ext-type', 'alternate http://example.com/é', 'https://é.example/x y',
         'alternate\thttp://example.com/x', 'http://a//b\u2003c', ' a  http://x/y\u00a0z ', 'a//b', '//', 'x y', 'http://x/%41 b', 'http://x/\x1f\x85 y']
_CROSS = ['anonymous', 'Use-Credentials', 'ANONYMOUS', 'use-credentials', 'bogus', 'anonymous ', '', 'anonymou\u017f', 'USE-CREDENT\u0130ALS', 'use_credentials']
_FN_SPECIAL = ['', '.', '..', '.a', '.é', 'é.', '._', 'a_b', '-x', 'Ångström unit physics.pdf', 'Bold Digit 𝟏', 'ﬁle.txt', '.\u2024x', '\u2024x', 'x\u00aa', '½', 'a\x7fb', '\x80']


def _uris(ctx):
    import re
    import unicodedata
    import urllib.parse
    import falcon
    import falcon.asgi
    import falcon.uri
    from falcon import response_helpers
    rnd = ctx.rng
    ORA = 'uri helpers: emitted pure ASCII; decoding returns the original'
    ORA_FN = 'download filename: emitted pure ASCII; decoding returns the original'
    sess = ctx.session('typed header properties and append_link: exact emitted values = Rp model', 'rpdriver')

    def nfkd(s):
        return unicodedata.normalize('NFKD', s)

    def emitted_value(resp, asgi, name):
        """the value of header `name` in the list handed to the server (None if absent, a list if emitted more than once)"""
        if asgi:
            vals = [v.decode('latin-1') for k, v in resp._asgi_headers() if k == name.encode()]
        else:
            vals = [v for k, v in resp._wsgi_headers() if k == name]
        return None if not vals else (vals[0] if len(vals) == 1 else vals)

    def shown(v):
        return 'none' if v is None else ('val ' + cp(v) if isinstance(v, str) else f'{len(v)} lines')

    def printable_ascii(s):
        return all(0x20 <= ord(c) <= 0x7e for c in s)

    if ctx.shard[0] == 0:
        # the tables the model takes from CPython / falcon: str.split() whitespace, the characters secure_filename keeps, and the
        # assumption behind the ASCII lower-casing of the crossorigin check
        ws = [c for c in range(0x110000) if len(('a' + chr(c) + 'b').split()) == 2]
        keep = [c for c in range(256) if falcon.secure_filename('a' + chr(c)) == 'a' + chr(c)]
        alpha = set('anonymous') | set('use-credentials')
        lower_ok = all(not set(chr(c).lower()) <= alpha for c in range(0x80, 0x110000))
        # every code point, alone and after a letter: the fallback token is made of letters, digits, '.', '-', '_' only (no character of
        # any script, case-folding special or compatibility form survives) and the whole header stays printable ASCII
        tok = re.compile(r'[A-Za-z0-9._-]+')
        bad_cp = []
        for c in range(0x110000):
            if 0xd800 <= c < 0xe000:
                continue
            try:
                o = falcon.secure_filename('a' + chr(c))
            except Exception as e:  # noqa
                o = None
            if o is None or not tok.fullmatch(o):
                bad_cp.append(c)
        ctx.oracle('secure_filename over every code point: the result is made of letters, digits, ".", "-", "_" only',
                   not bad_cp, None if not bad_cp else 'secure_filename("a" + chr(c)) keeps a character outside [A-Za-z0-9._-] (or raises) for c in ' + ', '.join('U+%04X' % c for c in bad_cp[:8]) + (f' ... ({len(bad_cp)} code points)' if len(bad_cp) > 8 else ''),
                   {'code_points': ['U+%04X' % c for c in bad_cp[:8]], 'count': len(bad_cp)})
        for c in (bad_cp[:4] or [0x131, 0x130, 0x17f, 0x212a, 0x1d6a4]):
            r0 = falcon.Response()
            r0.downloadable_as = 'x' + chr(c) + '.pdf'
            em0 = r0.get_header('Content-Disposition')
            ctx.oracle('secure_filename over every code point: the result is made of letters, digits, ".", "-", "_" only', printable_ascii(em0),
                       None if printable_ascii(em0) else f'downloadable_as: emitted {em0!r} is not pure printable ASCII', {'filename': 'x' + chr(c) + '.pdf'})
        ctx.count('secure_filename_code_points_swept', 0x110000 - 0x800)
        sess.case({'tables': 'str.split() whitespace / secure_filename safe characters / str.lower() of non-ASCII'})
        sess.op('tables', f'{".".join("%x" % c for c in ws)} {".".join("%x" % c for c in keep)} {len(ws) if lower_ok else "lower-assumption-broken"}')


    def check_uri(orig, emitted, what):
        if not printable_ascii(emitted) or ' ' in emitted:
            return f'{what}: emitted {emitted!r} is not pure printable ASCII without spaces'
        if looks_escaped(orig):
            ctx.count('uri_passthrough_already_escaped')
            return None if emitted == orig else f'{what}: already-escaped {orig!r} was changed to {emitted!r}'
        d1 = falcon.uri.decode(emitted, unquote_plus=False)
        d2 = urllib.parse.unquote(emitted, encoding='utf-8', errors='strict')
        if d1 != orig or d2 != orig:
            return f'{what}: {orig!r} emitted as {emitted!r} decodes to {d1!r} (falcon.uri.decode) / {d2!r} (urllib)'
        return None

    def split_links(v):
        """split a Link header into links at commas outside <...> and "...\""""
        out = []; cur = ''; inang = inq = False
        for ch in v:
            if ch == '<' and not inq: inang = True
            elif ch == '>' and not inq: inang = False
            elif ch == '"' and not inang: inq = not inq
            if ch == ',' and not inang and not inq:
                out.append(cur.strip()); cur = ''
            else:
                cur += ch
        out.append(cur.strip())
        return out

    def unquote_qs(s):
        """RFC 9110 quoted-string -> text, or None if s is not exactly one quoted-string"""
        if len(s) < 2 or s[0] != '"' or s[-1] != '"':
            return None
        out = ''; i = 1
        while i < len(s) - 1:
            if s[i] == '\\':
                if i + 1 >= len(s) - 1: return None
                out += s[i + 1]; i += 2
            elif s[i] == '"':
                return None
            else:
                out += s[i]; i += 1
        return out

    for ci in range(ctx.n(16000, 250000)):
        asgi = rnd.random() < 0.5
        resp = (falcon.asgi.Response if asgi else falcon.Response)()
        kind = rnd.choice(['location', 'content_location', 'link', 'link', 'downloadable_as', 'viewable_as', 'other'])
        ctx.count('uri_' + kind)
        fail = None
        stack = 'asgi' if asgi else 'wsgi'
        if kind in ('location', 'content_location'):
            s = ''.join(rnd.choice(_U_ALPHA) for _ in range(rnd.randint(1, 10)))
            case = {'helper': kind, 'value': s, 'stack': stack}
            hname = kind.replace('_', '-')
            sess.case(case); sess.op('new', 'ok')
            try:
                setattr(resp, kind, s)
                em = resp.get_header(hname)
                fail = check_uri(s, em, kind)
                out_val = emitted_value(resp, asgi, hname)
                if not fail and out_val != em:
                    fail = f'{kind}: emitted list carries {out_val!r}, get_header returned {em!r}'
                sess.op(f'assign {kind} t{cp(s)} -', 'ok')
                sess.op(f'get {kind}', shown(out_val))
                sess.op(f'loc {cp(s)}', shown(getattr(resp, kind)))
                r = rnd.random()
                if r < 0.15:      # assigning None deletes, silently also when repeated; del raises KeyError once the header is gone
                    setattr(resp, kind, None)
                    sess.op(f'assign {kind} N -', 'ok'); sess.op(f'get {kind}', shown(emitted_value(resp, asgi, hname)))
                    setattr(resp, kind, None)
                    sess.op(f'assign {kind} N -', 'ok')
                    try:
                        delattr(resp, kind); sess.op(f'del {kind}', 'ok')
                    except KeyError:
                        sess.op(f'del {kind}', 'err KeyError')
                elif r < 0.3:
                    delattr(resp, kind)
                    sess.op(f'del {kind}', 'ok'); sess.op(f'get {kind}', shown(getattr(resp, kind)))
            except Exception as e:  # noqa
                fail = f'{kind} = {s!r} raised {type(e).__name__}: {e}'
                sess.op(f'assign {kind} t{cp(s)} -', 'err')
            ctx.oracle(ORA, fail is None, fail, case)
            ctx.seen(('u', kind, s), not s.isascii() or '%' in s or ' ' in s)
        elif kind == 'link':
            calls = []
            for _ in range(rnd.randint(1, 3)):
                tgt = ''.join(rnd.choice(_U_ALPHA) for _ in range(rnd.randint(1, 8)))
                rel = rnd.choice(_RELS[:5]) if rnd.random() < 0.7 else rnd.choice(_RELS)
                if rnd.random() < 0.35:
                    rel, rel_classes = rand_rel(rnd)
                    for k in rel_classes: ctx.count('link_rel_' + k)
                kw = {}
                if rnd.random() < 0.4: kw['title'] = rnd.choice(['A title', 'x, y', 'semi;colon', '<a>', ''])
                if rnd.random() < 0.5: kw['title_star'] = (rnd.choice(['', 'en', 'de-AT']), ''.join(rnd.choice(_U_ALPHA) for _ in range(rnd.randint(0 if rnd.random() < 0.1 else 1, 6))))
                if rnd.random() < 0.4: kw['anchor'] = ''.join(rnd.choice(_U_ALPHA) for _ in range(rnd.randint(0 if rnd.random() < 0.1 else 1, 6)))
                if rnd.random() < 0.3: kw['hreflang'] = rnd.choice(['en', ['en', 'fr'], ('de',), [], '', ['x', '', 'y-Z']])
                if rnd.random() < 0.3: kw['type_hint'] = rnd.choice(['text/html', 'application/json', ''])
                if rnd.random() < 0.3: kw['crossorigin'] = rnd.choice(_CROSS[:3]) if rnd.random() < 0.7 else rnd.choice(_CROSS)
                if rnd.random() < 0.2: kw['link_extension'] = [('foo', 'bar'), ('n', '1'), ('', '')][:rnd.randint(0, 3)]
                calls.append((tgt, rel, kw))
            case = {'helper': 'append_link', 'calls': calls, 'stack': stack}
            sess.case(case); sess.op('new', 'ok')
            done = []
            link_kinds = []

            def call_kw(kw):
                """the keyword arguments with the iterable ones (hreflang list, link_extension) handed over as some kind of iterable object; the model line and the
                oracle keep the plain lists.  Built afresh for every call: most kinds are used up by one traversal."""
                ckw = dict(kw)
                if isinstance(kw.get('hreflang'), (list, tuple)) and rnd.random() < 0.7:
                    o, k, eff, _ = wrap_iterable(rnd, kw['hreflang'], ['list', 'tuple', 'generator', 'map', 'iter', 'zip_gen', 'chain', 'oneshot_obj', 'reiter_obj', 'getitem_seq', 'deque', 'dict_values'])
                    ckw['hreflang'] = o; link_kinds.append('hreflang as ' + k); ctx.count('uri_link_hreflang_as_' + k)
                if kw.get('link_extension') is not None and rnd.random() < 0.7:
                    o, k, eff, _ = wrap_pairs(rnd, kw['link_extension'], ['list', 'tuple', 'generator', 'iter', 'map', 'zip', 'pair_lists', 'pair_iters', 'items_view', 'deque', 'reiter_obj'])
                    if k != 'items_view' or eff == [tuple(p) for p in kw['link_extension']]:
                        ckw['link_extension'] = o; link_kinds.append('link_extension as ' + k); ctx.count('uri_link_extension_as_' + k)
                if kw.get('title_star') is not None and rnd.random() < 0.3:
                    ckw['title_star'] = list(kw['title_star'])
                return ckw
            case['argument_objects'] = link_kinds
            try:
                for tgt, rel, kw in calls:
                    line = rp_link_args(tgt, rel, kw)
                    try:
                        resp.append_link(tgt, rel, **call_kw(kw))
                        done.append((tgt, rel, kw))
                        sess.op('alink ' + line, 'ok')
                    except ValueError as e:
                        sess.op('alink ' + line, 'err ValueError')
                        ctx.count('uri_link_crossorigin_rejected')
                        if kw.get('crossorigin', 'anonymous').lower() in ('anonymous', 'use-credentials'):
                            raise
                    sess.op('getk ' + cp('link'), shown(emitted_value(resp, asgi, 'link')))
                    if rnd.random() < 0.3:   # the same call, stateless: the text built in `value`
                        one = (falcon.asgi.Response if asgi else falcon.Response)()
                        try:
                            one.append_link(tgt, rel, **call_kw(kw))
                            sess.op('linkv ' + line, shown(one.get_header('link')))
                        except ValueError:
                            sess.op('linkv ' + line, 'err ValueError')
                em = resp.get_header('link')
                if not done:
                    if em is not None: fail = f'no append_link call succeeded but Link = {em!r}'
                elif not printable_ascii(em):
                    fail = f'Link header is not pure printable ASCII: {em!r}'
                else:
                    links = split_links(em)
                    if len(links) != len(done):
                        fail = f'{len(done)} append_link calls produced {len(links)} links: {em!r}'
                    for (tgt, rel, kw), l in zip(done, links):
                        if fail: break
                        m = re.match(r'<([^>]*)>((?:; .*)?)$', l)
                        if not m:
                            fail = f'link {l!r} is not of the form <target>; params'; break
                        fail = check_uri(tgt, m.group(1), 'Link target')
                        if fail: break
                        params = m.group(2)
                        if 'title_star' in kw:
                            lang, text = kw['title_star']
                            mm = re.search(r"; title\*=UTF-8'([^']*)'([^;]*)", params)
                            if not mm: fail = f'title* missing in {l!r}'
                            elif looks_escaped(text, _UNRES):
                                ctx.count('uri_passthrough_already_escaped')
                                if mm.group(2) != text: fail = f'title*: already-escaped {text!r} was changed to {mm.group(2)!r}'
                            elif mm.group(1) != lang or urllib.parse.unquote(mm.group(2), errors='strict') != text or not re.fullmatch(r"[A-Za-z0-9\-._~%]*", mm.group(2)):
                                fail = f'title*: {kw["title_star"]!r} emitted as {mm.group(0)!r} does not decode back'
                        if not fail and 'anchor' in kw:
                            mm = re.search(r'; anchor="([^"]*)"', params)
                            if not mm: fail = f'anchor missing in {l!r}'
                            elif kw['anchor']: fail = check_uri(kw['anchor'], mm.group(1), 'Link anchor')
                            elif mm.group(1) != '': fail = f'empty anchor emitted as {mm.group(1)!r}'
                        if not fail and '//' in rel:
                            mm = re.search(r'; rel="([^"]*)"', params)
                            if not mm: fail = f'extension rel not quoted in {l!r}'
                            elif ' ' in rel:
                                # each whitespace-separated member is URI-encoded on its own and the members are joined by one space
                                got = mm.group(1).split(' '); want = rel.split()
                                if len(got) != len(want): fail = f'rel {rel!r} emitted as {mm.group(1)!r}: {len(got)} members for {len(want)}'
                                else: fail = next((w for w in (check_uri(x, g, 'rel member') for x, g in zip(want, got)) if w), None)
                            else:
                                fail = check_uri(rel, mm.group(1), 'rel')
                        if not fail and 'title' in kw and f'; title="{kw["title"]}"' not in params:
                            fail = f'title {kw["title"]!r} not rendered in {l!r}'
                        if not fail and isinstance(kw.get('hreflang'), (list, tuple)) and kw['hreflang'] and '; ' + '; '.join('hreflang=' + x for x in kw['hreflang']) not in params:
                            fail = f'hreflang tags {kw["hreflang"]!r} (argument objects: {link_kinds}) are not rendered one by one in {l!r}'
                        if not fail and kw.get('link_extension') and '; ' + '; '.join(f'{a}={b}' for a, b in kw['link_extension']) not in params:
                            fail = f'link_extension {kw["link_extension"]!r} (argument objects: {link_kinds}) is not rendered pair by pair in {l!r}'
            except Exception as e:  # noqa
                fail = f'append_link raised {type(e).__name__}: {e}'
            ctx.oracle(ORA, fail is None, fail, case)
            ctx.seen(('u', 'link', repr(calls)), True)
        elif kind in ('downloadable_as', 'viewable_as'):
            if rnd.random() < 0.12:
                s = rnd.choice(_FN_SPECIAL[1:])
            else:
                s = ''.join(rnd.choice(_F_ALPHA) for _ in range(rnd.randint(1, 8)))
                if rnd.random() < 0.5:
                    s = ''.join(ch for ch in s if ch not in '"\\') or 'f'
            case = {'helper': kind, 'filename': s, 'stack': stack}
            dtype = 'attachment' if kind == 'downloadable_as' else 'inline'
            sess.case(case); sess.op('new', 'ok')
            try:
                setattr(resp, kind, s)
                em = resp.get_header('Content-Disposition')
                sess.op(f'assign {kind} t{cp(s)} {cp(nfkd(s))}', 'ok')
                sess.op(f'get {kind}', shown(emitted_value(resp, asgi, 'content-disposition')))
                if not printable_ascii(em) and not any(ord(c) < 0x20 or ord(c) == 0x7f for c in s):
                    fail = f'{kind}: emitted {em!r} is not pure printable ASCII'
                elif not em.startswith(dtype + '; filename='):
                    fail = f'{kind}: {em!r} does not start with "{dtype}; filename="'
                elif s.isascii():
                    got = unquote_qs(em[len(dtype) + len('; filename='):])
                    if got != s:
                        fail = f'{kind}: {s!r} emitted as {em!r} reads back as {got!r} with a quoted-string parser'
                else:
                    mm = re.fullmatch(re.escape(dtype) + r"; filename=([A-Za-z0-9.\-_]+); filename\*=UTF-8''([A-Za-z0-9\-._~%]*)", em)
                    if not mm:
                        fail = f'{kind}: {em!r} is not "filename=<token>; filename*=UTF-8\'\'<pct>"'
                    elif urllib.parse.unquote(mm.group(2), encoding='utf-8', errors='strict') != s:
                        fail = f'{kind}: filename* of {s!r} emitted as {mm.group(2)!r} decodes to {urllib.parse.unquote(mm.group(2))!r}'
            except Exception as e:  # noqa
                fail = f'{kind} = {s!r} raised {type(e).__name__}: {e}'
                sess.op(f'assign {kind} t{cp(s)} {cp(nfkd(s))}', 'err')
            ctx.oracle(ORA_FN, fail is None, fail, case)
            ctx.seen(('u', kind, s), True)
            # falcon.secure_filename itself (the fallback `filename=` token), incl. the empty name and leading dots
            t = rnd.choice(_FN_SPECIAL) if rnd.random() < 0.4 else ''.join(rnd.choice(_F_ALPHA + ['.', '.', '_', '․', 'ª']) for _ in range(rnd.randint(0, 5)))
            sess.case({'secure_filename': t})
            try:
                sess.op(f'secure {cp(nfkd(t))} {cp(t)}', 'val ' + cp(falcon.secure_filename(t)))
            except ValueError:
                sess.op(f'secure {cp(nfkd(t))} {cp(t)}', 'err ValueError')
        else:
            # the remaining transforms: etag quoting, list joins, content_range, str(value); exact emitted value only (no URI claim)
            which = rnd.choice(['etag', 'cache_control', 'vary', 'cache_control', 'vary', 'cache_control', 'vary', 'content_range', 'content_length', 'content_type', 'retry_after', 'accept_ranges', 'ascii'])
            ctx.count('prop_' + which)
            val_alpha = ['a', 'b', 'W', '/', '"', '"', '\\', ' ', ',', '=', '0', 'é', 'ÿ', '-']

            def word(lo=0, hi=5):
                return ''.join(rnd.choice(val_alpha) for _ in range(rnd.randint(lo, hi)))
            if which == 'ascii':
                t = ''.join(rnd.choice(['a', '~', '\x7f', '\x80', 'é', '日', '😀', '\x00', ' ']) for _ in range(rnd.randint(0, 4)))
                sess.case({'_is_ascii_encodable': t})
                sess.op(f'ascii {cp(t)}', '01'[response_helpers._is_ascii_encodable(t)])
                ctx.seen(('p', which, t), True)
                continue
            if which == 'etag':
                v = rnd.choice(['abc', '"abc"', 'W/"abc"', 'a"b', '"', '', 'x"']) if rnd.random() < 0.5 else word()
                enc = 't' + cp(v)
            elif which in ('cache_control', 'vary'):
                r = rnd.random()
                if r < 0.12: v = word()                       # a str is an iterable of its characters
                elif r < 0.22: v = tuple(word() for _ in range(rnd.randint(0, 3)))
                else: v = [rnd.choice(['no-store', 'public', 'max-age=60', 'Accept', '*', 'Accept-Encoding', '', word()]) for _ in range(rnd.randint(0, 4))]
                enc = 'l' + rp_list(list(v))
                if not isinstance(v, str):
                    # the ARGUMENT OBJECT: the same members in every kind of iterable (one-shot ones included), sometimes with members that are not str
                    members = list(v)
                    if rnd.random() < 0.15 and members:
                        members[rnd.randrange(len(members))] = rnd.choice([5, 0, -1, 5, None, b'x', 2.5])
                        ctx.count('prop_iterable_with_non_str_member')
                    arg, akind, members, edit_arg = wrap_iterable(rnd, members)
                    ctx.count('prop_iterable_' + akind)
                    all_str = all(isinstance(x, str) for x in members)
                    modelled = all(isinstance(x, str) or type(x) is int for x in members)
                    enc = ('l' + rp_list(members)) if all_str and rnd.random() < 0.5 else ('r' + ('_' if not members else ','.join(rp_item(x) for x in members)) if modelled else None)
                    hname = 'cache-control' if which == 'cache_control' else 'vary'
                    case = {'property': which, 'members': members, 'argument_object': akind, 'stack': stack}
                    sess.case(case); sess.op('new', 'ok')
                    before = None
                    if rnd.random() < 0.3:      # an earlier value: a setter call that raises must leave it alone
                        before = rnd.choice(['Old', 'no-cache']); setattr(resp, which, [before]); sess.op(f'assign {which} l{cp(before)} -', 'ok')
                    fail = None
                    try:
                        setattr(resp, which, arg)
                        if enc: sess.op(f'assign {which} {enc} -', 'ok')
                        want = ', '.join(members) if all_str else None
                        if not all_str: fail = f'resp.{which} = <{akind}> of {members!r} did not raise although a member is not a str (a list raises TypeError)'
                    except TypeError:
                        if enc: sess.op(f'assign {which} {enc} -', 'err')
                        want = before
                        if all_str: fail = f'resp.{which} = <{akind}> of {members!r} raised TypeError; a list of the same members is accepted'
                    if edit_arg is not None and rnd.random() < 0.7:
                        edit_arg(); case['argument_edited_afterwards'] = True; ctx.count('prop_argument_edited_after_call')
                    em = emitted_value(resp, asgi, hname)
                    sess.op(f'get {which}', shown(em))
                    got = (getattr(resp, which), resp.get_header(hname.upper()), em)
                    if not fail and got != (want, want, want):
                        fail = (f'resp.{which} = <{akind}> of {members!r}{" (edited by the caller afterwards)" if case.get("argument_edited_afterwards") else ""}: property / get_header / emitted list read '
                                f'{got!r}; a list of the same members gives {want!r}')
                    ctx.oracle(ORA_ITER, fail is None, fail, case)
                    ctx.seen(('p', which, akind, repr(members)), True)
                    continue
            elif which == 'content_range':
                def num():
                    return rnd.choice([0, 1, 5, 10, 99, 100, 12345, 2 ** 64, -1, -20, rnd.randint(0, 10 ** 6)])
                v = tuple([num(), num(), rnd.choice([num(), '*', '10'])] + [rnd.choice(['items', 'bytes', '', 'é', 7])][:rnd.choice([0, 0, 1, 1])])
                if rnd.random() < 0.1: v = v[:rnd.randint(0, 2)]
                elif rnd.random() < 0.05: v = v[:3] + ('u', 'extra')
                enc = 'r' + ('_' if not v else ','.join(rp_item(x) for x in v))
                if rnd.random() < 0.3: v = list(v); ctx.count('prop_content_range_as_list')      # a list instead of the documented tuple: same members, same value
            else:
                v = rnd.choice([0, 7, 120, 10 ** 12, -3, '5', 'bytes', 'none', 'text/plain; charset=utf-8', '', word()])
                enc = rp_item(v)
            hname = {'etag': 'etag', 'cache_control': 'cache-control', 'vary': 'vary', 'content_range': 'content-range', 'content_length': 'content-length',
                     'content_type': 'content-type', 'retry_after': 'retry-after', 'accept_ranges': 'accept-ranges'}[which]
            case = {'property': which, 'value': v, 'stack': stack}
            sess.case(case); sess.op('new', 'ok')
            try:
                setattr(resp, which, v)
                sess.op(f'assign {which} {enc} -', 'ok')
            except IndexError:
                sess.op(f'assign {which} {enc} -', 'err')
            sess.op(f'get {which}', shown(emitted_value(resp, asgi, hname)))
            if rnd.random() < 0.2:
                setattr(resp, which, None)
                sess.op(f'assign {which} N -', 'ok'); sess.op(f'get {which}', shown(getattr(resp, which)))
            ctx.seen(('p', which, repr(v)), True)
    sess.finish()
